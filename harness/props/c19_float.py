"""C19 helper module — the FLOAT regime, bit for bit (entries `*_float`).

The exact tie (c19.py) feeds dyadic rationals, where binary floating point is exact, and compares
with the exact model.  Here the arguments are arbitrary binary64 values — tiny negative / positive
starts (the rounding residue `0.3 - 0.1 - 0.2`, `-1e-100`, denormals), negative modulo and step,
huge steps, durations one ulp around the `x.5` rounding boundaries, non-dyadic times — and the
Lean side runs the SAME code-shaped generic definitions (`ALV/Model/C19Float.lean`: `mcG`, `lineG`,
`constG`, `impulseG`, `adsrG`, `attackG`, `tableCallG`) on IEEE binary64 (`floatOps`: Lean `Float`
for + - * /, and C `fmod` / Python's `%` sign adjustment / `int()` / `math.ceil` built from the bit
pattern in integer arithmetic).  Outputs are compared by their 64-bit patterns.

Over the exact operations the same definitions are proved equal to the model and the
specification (`Lemmas/C19Float.lean`), and the range contract of the double reduction
`x % m % m` is a theorem for any monotone rounding (`Props/C19.lean: float_mod_*`).  What the
theorems justify is checked on every float output of the real code as "spec":
  * range:  0 <= x < m  (m > 0),  m < x <= 0  (m < 0)          -- every output, every path
  * path independence, exactly: all eight numbers-vs-Stream(number) spellings of one call give
    the same FIRST output and bit-identical outputs on all spellings that take a one-by-one path;
    within a cyclic tolerance everywhere (benign magnitudes)
  * lengths: int(float(dur) + .5) as the property writes it
  * a table oscillator never leaves its table: no IndexError, samples within [min, max] of the table
"""
import math, struct, itertools
from fractions import Fraction
from common import err_kind

F = Fraction
INF = float("inf")
TWO_PI = 2 * math.pi


def bits(x):
    return struct.unpack("<Q", struct.pack("<d", float(x)))[0]


def unbits(b):
    return struct.unpack("<d", struct.pack("<Q", b))[0]


def hx(x):
    return float(x).hex()


def fh(s):
    return float.fromhex(s)


def obits(x):
    """an output item -> bit pattern of its float value ("nan" for any nan; repr for a non-number)"""
    if not isinstance(x, (int, float, Fraction)):
        return "?" + repr(x)
    try:
        x = float(x)
    except OverflowError:
        return "?" + repr(x)
    return "nan" if x != x else bits(x)


def same_bits(got, exp):
    """exp: bit patterns from the driver; got: obits"""
    if len(got) != len(exp):
        return False
    for g, e in zip(got, exp):
        if g == "nan":
            if unbits(e) == unbits(e):
                return False
        elif g != e:
            return False
    return True


def show(bs):
    return [b if isinstance(b, str) else repr(unbits(b)) for b in bs]


def drain(it, n):
    out = []
    try:
        it = iter(it)
        for _ in range(n):
            out.append(next(it))
        return out, "fuel"
    except StopIteration:
        return out, "stop"
    except Exception as e:
        return out, err_kind(e)


def exp_end(res, n):
    """how the twin's run ends when n items are asked for"""
    if res.get("err"):
        return res["err"]
    return "fuel" if len(res["out"]) >= n else "stop"


class MyFloat(float):
    pass


# --- spelled numbers -------------------------------------------------------------------------
def spell(rng, x, fraction_ok=True, p=0.35):
    """{"x": hex, "t": type tag}: the float x given as float / int / Fraction / bool / float subclass"""
    t = "f"
    if x == x and abs(x) != INF and rng.random() < p:
        opts = ["X"]
        if x == int(x) and abs(x) < 2 ** 53 and not (x == 0 and math.copysign(1, x) < 0):
            opts += ["i", "i"]
            if x in (0, 1):
                opts.append("b")
        if fraction_ok and not (x == 0 and math.copysign(1, x) < 0):
            opts += ["F", "F"]
        t = rng.choice(opts)
    return {"x": hx(x), "t": t}


def spell_q(q):
    """a Fraction that is not a float: the code sees float(q) in every mixed operation"""
    return {"x": hx(float(q)), "t": "Q", "q": "%d/%d" % (q.numerator, q.denominator)}


def sv(a):
    x = fh(a["x"])
    t = a["t"]
    if t == "f":
        return x
    if t == "X":
        return MyFloat(x)
    if t == "i":
        return int(x)
    if t == "b":
        return bool(x)
    if t == "Q":
        return Fraction(a["q"])
    return Fraction(x)


def fb(a):
    """the bit pattern the twin is given for a spelled number"""
    return bits(fh(a["x"]))


# ----------------------------------------------------------------------------------------------
# modulo_counter
# ----------------------------------------------------------------------------------------------
RESIDUE = 0.3 - 0.1 - 0.2          # -2.7755575615628914e-17
MC = ("start", "modulo", "step")
MC_DEFAULT = {"start": 0.0, "modulo": 256.0, "step": 1.0}
SKINDS = ("Stream", "Stream", "list", "iter", "tuple")


def pick_mod(rng):
    m = rng.choice([5.0, 5.0, 1.0, 256.0, 256.0, TWO_PI, TWO_PI, 7.0, 65536.0, 0.1, 3.3, 8.0, 44100.0, 1e-5, 1e10,
                    2.5e-310, 5e-324, 1e300, rng.uniform(0.5, 100), float(rng.randint(1, 64))])
    return -m if rng.random() < 0.3 else m


def tiny(rng, m):
    a = abs(m)
    v = rng.choice([RESIDUE, RESIDUE, 1e-100, 1e-100, 5e-324, 2.2250738585072014e-308, 1e-16 * a, 1e-17, a * 2.0 ** -54,
                    a * 2.0 ** -53, a * 2.0 ** -55, 1e-300, 1e-18])
    v = abs(v)
    return -v if rng.random() < 0.6 else v


def ulps(x, k):
    for _ in range(abs(k)):
        x = math.nextafter(x, INF if k > 0 else -INF)
    return x


def pick_step(rng, m):
    r = rng.random()
    if r < 0.42:
        s = m / rng.choice([2, 3, 4, 5, 7, 8, 10, 16, 20, 1.5, 2.5, 1.0000000001, 0.99999, 2.0000000001, 1.9999999])
    elif r < 0.52:
        s = rng.uniform(-1, 1) * m
    elif r < 0.60:
        s = rng.choice([1.0, -1.0, 0.1, 0.3, 1043.0])
    elif r < 0.66:
        s = rng.choice([0.0, -0.0])
    elif r < 0.72:
        s = m * rng.randint(-3, 3)
    elif r < 0.78:
        s = tiny(rng, m)
    elif r < 0.84:
        s = rng.choice([1e18, 1e300, -1e300, m * 2.0 ** 53, 1.7e308, 1e16])
    elif r < 0.92:
        s = -m / rng.choice([2, 3, 4, 8])
    else:
        s = rng.uniform(-300, 300)
    return s


def pick_start(rng, m, s):
    r = rng.random()
    if r < 0.36:
        return tiny(rng, m)
    if r < 0.44:
        return rng.choice([0.0, -0.0])
    if r < 0.62:
        return rng.uniform(-3, 3) * m
    if r < 0.70:
        return m * rng.randint(-3, 3)
    if r < 0.80:
        return ulps(m * rng.randint(-2, 3), rng.choice([-2, -1, 1, 2]))
    if r < 0.86:
        return rng.choice([m, -m, ulps(m, -1), ulps(m, 1)])
    if r < 0.92:
        return rng.choice([1e18, -1e18, 1e300, -1e300, 2.0 ** 53 + 2])
    return s * rng.randint(-5, 5) + tiny(rng, m)


def gen_mc(rng, tier, scale):
    cases = []
    k = (330 if tier == "quick" else 5000) * scale
    for _ in range(k):                                  # all numbers: the eight spellings of one call
        m = pick_mod(rng)
        s = pick_step(rng, m)
        a = pick_start(rng, m, s)
        r = rng.random()
        if r < 0.02:
            s = rng.choice([INF, -INF, float("nan")])
        elif r < 0.03:
            a = rng.choice([INF, float("nan")])
        elif r < 0.04:
            m = rng.choice([0.0, -0.0])                 # ZeroDivisionError at the first output
        elif r < 0.10:                                  # documented defaults left out (class i)
            which = rng.choice([("modulo",), ("step",), ("start",), ("modulo", "step"), ("start", "step")])
            if "modulo" in which:
                m = 256.0
                s = pick_step(rng, m)
                a = pick_start(rng, m, s)
            if "step" in which:
                s = 1.0
            if "start" in which:
                a = 0.0
        n = rng.choice([1, 2, 3, 6, 12, 25, 45])
        c = {"entry": "mc_float", "n": n, "all8": True, "skind": rng.choice(SKINDS),
             "start": {"num": hx(a)}, "modulo": {"num": hx(m)}, "step": {"num": hx(s)},
             "how": rng.choice(["pos", "pos", "kw", "omit"])}
        cases.append(c)
    for _ in range(k // 2):                              # varying streams: one spelling each
        m = abs(pick_mod(rng)) if rng.random() < 0.8 else pick_mod(rng)
        s = pick_step(rng, m)
        n = rng.choice([1, 3, 8, 20, 40])
        combo = rng.choice([c for c in itertools.product([False, True], repeat=3) if any(c)])
        ln = lambda: rng.choice([n, n, n + 2, max(1, n - 2)])
        def strm(mk):
            return {"strm": [hx(mk()) for _ in range(ln())], "kind": rng.choice(("list", "iter", "Stream", "tuple", "gen"))}
        c = {"entry": "mc_float", "n": n, "all8": False, "how": "pos"}
        if combo[0]:
            base = pick_start(rng, m, s)
            c["start"] = strm(lambda: rng.choice([base, base, tiny(rng, m), rng.uniform(-2, 2) * m, pick_start(rng, m, s)]))
            if rng.random() < 0.5:
                c["start"]["strm"][0] = hx(tiny(rng, m))
        else:
            c["start"] = {"num": hx(pick_start(rng, m, s))}
        if combo[1]:
            c["modulo"] = strm(lambda: m if rng.random() < 0.5 else abs(pick_mod(rng)) if rng.random() < 0.97 else 0.0)
        else:
            c["modulo"] = {"num": hx(m)}
        if combo[2]:
            c["step"] = strm(lambda: rng.choice([s, pick_step(rng, m), tiny(rng, m), rng.uniform(-1, 1) * m]))
        else:
            c["step"] = {"num": hx(s)}
        cases.append(c)
    return cases


def mc_spellings(c):
    """which arguments are given as a constant stream instead of a number"""
    if not c.get("all8"):
        return [()]
    return [tuple(k for k, on in zip(MC, mask) if on) for mask in itertools.product([False, True], repeat=3)]


def const_stream(x, kind, n):
    from audiolazy import Stream
    if kind == "Stream":
        return Stream(x)                               # endless
    xs = [x] * (n + 2)
    return iter(xs) if kind == "iter" else tuple(xs) if kind == "tuple" else xs


def build_strm(a):
    from audiolazy import Stream
    xs = [fh(v) for v in a["strm"]]
    k = a.get("kind", "list")
    return iter(xs) if k == "iter" else Stream(xs) if k == "Stream" else tuple(xs) if k == "tuple" else \
        (x for x in xs) if k == "gen" else xs


def impl_mc(c):
    from audiolazy import modulo_counter
    runs = []
    for sp in mc_spellings(c):
        args = {}
        for k in MC:
            a = c[k]
            if "strm" in a:
                args[k] = build_strm(a)
            elif k in sp:
                args[k] = const_stream(fh(a["num"]), c.get("skind", "Stream"), c["n"])
            else:
                args[k] = fh(a["num"])
        try:
            how = c.get("how", "pos")
            if how == "kw":
                s = modulo_counter(step=args["step"], start=args["start"], modulo=args["modulo"])
            elif how == "omit" and not sp:
                kw = {k: v for k, v in args.items() if bits(MC_DEFAULT[k]) != bits(fh(c[k]["num"]))}
                s = modulo_counter(**kw)
            else:
                s = modulo_counter(args["start"], args["modulo"], args["step"])
            out, end = drain(s, c["n"])
        except Exception as e:
            out, end = [], "call:" + err_kind(e)
        runs.append({"sp": "".join(ch if k in sp else "-" for k, ch in zip(MC, "PMS")),
                     "out": [obits(x) for x in out], "end": end})
    return {"out": runs[0]["out"], "end": runs[0]["end"], "runs": runs}


def mc_req_one(c, sp):
    r = {"entry": "mc_float", "n": c["n"]}
    for k in MC:
        a = c[k]
        if "strm" in a:
            r[k] = {"strm": [bits(fh(v)) for v in a["strm"]]}
        elif k in sp:
            r[k] = {"strm": [bits(fh(a["num"]))] * c["n"]}
        else:
            r[k] = {"num": bits(fh(a["num"]))}
    return r


def req_mc(c):
    return {"entry": "multi", "reqs": [mc_req_one(c, sp) for sp in mc_spellings(c)]}


def mod_at(c, i):
    a = c["modulo"]
    if "num" in a:
        return fh(a["num"])
    return fh(a["strm"][i]) if i < len(a["strm"]) else None


def in_range(x, m):
    if m != m or abs(m) == INF or m == 0 or x != x:
        return True
    return (0 <= x < m) if m > 0 else (m < x <= 0)


def benign(c):
    vals = [fh(c[k]["num"]) for k in MC if "num" in c[k]]
    if len(vals) < 3 or any(v != v or abs(v) == INF for v in vals):
        return False
    a, m, s = vals
    return m != 0 and abs(a) <= 1e6 * abs(m) and abs(s) <= 1e6 * abs(m) and abs(m) >= 1e-290


def overflow_only(c):
    """all three arguments finite numbers, modulo and step non-zero - and modulo / step = +-inf"""
    vals = [fh(c[k]["num"]) for k in MC if "num" in c[k]]
    if len(vals) < 3 or any(v != v or abs(v) == INF for v in vals):
        return False
    a, m, s = vals
    return m != 0 and s != 0 and abs(m / s) == INF


def circ_close(x, y, m):
    d = abs(F(x) - F(y)) % abs(F(m))
    return min(d, abs(F(m)) - d) <= abs(F(m)) / 10 ** 6


def cmp_mc(c, io, drv):
    res = []
    n = c["n"]
    runs = io["runs"]
    tw_of = {run["sp"]: tw for run, tw in zip(runs, drv["res"])}
    for run, tw in zip(runs, drv["res"]):
        e = exp_end(tw, n)
        if not same_bits(run["out"], tw["out"]) or run["end"] != e:
            # D28 repaired (no batching when int(modulo/step) overflows): the plain one-by-one loop, whose
            # arithmetic is that of the spelling with Stream(step)
            alt = tw_of.get(run["sp"][:2] + "S") if tw["branch"].endswith(("OverflowError", "ValueError")) else None
            if alt is not None and same_bits(run["out"], alt["out"]) and run["end"] == exp_end(alt, n):
                continue
            res.append(("model", "modulo_counter float [%s, spelled %s]: impl=%s/%s twin=%s/%s" % (
                tw["branch"], run["sp"], show(run["out"]), run["end"], show(tw["out"]), e)))
    # --- D28: numbers vs streams.  All three arguments finite numbers, modulo != 0, but modulo/step overflows to
    # inf: the all-numbers call (and the one with only `start` a stream) raises OverflowError from the batch size
    # int(modulo/step) at the first read, the same call with Stream(step) / Stream(modulo) yields the counter
    if c.get("all8") and drv["res"][0]["branch"].endswith("OverflowError") and overflow_only(c):
        raised = [r["sp"] for r in runs if r["end"].endswith("OverflowError")]
        yielding = [r["sp"] for r in runs if r["out"]]
        if raised and yielding:
            res.append(("spec", "modulo_counter float: numbers vs streams: spelled %s raises OverflowError (int(modulo/step), "
                        "modulo/step = inf) while spelled %s it yields %s" % (
                            raised, yielding[-1], show(runs[-1]["out"][:3]))))
    # --- what the theorems promise, stated on the impl's own float outputs ---
    for run in runs:
        for i, b in enumerate(run["out"]):
            if isinstance(b, str):
                continue
            m = mod_at(c, i)
            if m is not None and not in_range(unbits(b), m):
                res.append(("spec", "modulo_counter float [spelled %s]: output #%d = %r is outside %s" % (
                    run["sp"], i, unbits(b), "[0, %r)" % m if m > 0 else "(%r, 0]" % m)))
                break
    if c.get("all8") and drv["res"][0]["branch"].split(":")[-1] in ("fast", "plain", "step0"):
        heads = {(r["out"][0] if r["out"] else None, r["end"] if not r["out"] else "") for r in runs}
        if len(heads) > 1:
            res.append(("spec", "modulo_counter float: the first output depends on numbers-vs-streams: %s" % (
                [(r["sp"], show(r["out"][:1]), r["end"]) for r in runs])))
        fast = drv["res"][0]["branch"].endswith("fast")
        slow = [r for r in runs if not fast or r["sp"][1:] != "--"]      # modulo or step a stream: one by one
        if len({(tuple(r["out"]), r["end"]) for r in slow}) > 1:
            res.append(("spec", "modulo_counter float: the one-by-one paths disagree: %s" % (
                [(r["sp"], show(r["out"]), r["end"]) for r in slow])))
        if benign(c):
            m = fh(c["modulo"]["num"])
            ref = runs[-1]["out"]
            for r in runs:
                if len(r["out"]) != len(ref) or any(
                        not isinstance(x, str) and not isinstance(y, str) and not circ_close(unbits(x), unbits(y), m)
                        for x, y in zip(r["out"], ref)):
                    res.append(("spec", "modulo_counter float: spelled %s gives %s, spelled %s gives %s" % (
                        r["sp"], show(r["out"]), runs[-1]["sp"], show(ref))))
                    break
    return res


def mc_kind(x, m):
    if x != x or abs(x) == INF:
        return "nonfinite"
    if x == 0:
        return "zero"
    if m == m and m != 0 and abs(x) < abs(m) * 2.0 ** -52:
        return "tiny-" + ("neg" if x < 0 else "pos")
    if m == m and m != 0 and abs(x) > abs(m) * 2.0 ** 40:
        return "huge"
    return "neg" if x < 0 else "pos"


def tally_mc(eng, c, io, drv_branch=None):
    shape = "".join("S" if "strm" in c[k] else "-" for k in MC)
    eng.count("mcf_shape", ("all-8-spellings" if c.get("all8") else shape))
    eng.count("mcf_how", c.get("how", "pos"))
    eng.count("mcf_end", io["end"])
    if "num" in c["modulo"]:
        m = fh(c["modulo"]["num"])
        eng.count("mcf_modulo", "nonfinite" if m != m or abs(m) == INF else "zero" if m == 0 else
                  ("neg" if m < 0 else "pos") + ("-denormal" if abs(m) < 2.3e-308 else ""))
        if "num" in c["start"]:
            eng.count("mcf_start", mc_kind(fh(c["start"]["num"]), m))
        else:
            eng.count("mcf_start_stream_first", mc_kind(fh(c["start"]["strm"][0]), m) if c["start"]["strm"] else "empty")
        if "num" in c["step"]:
            s = fh(c["step"]["num"])
            eng.count("mcf_step", mc_kind(s, m))
            if s == s and s != 0 and m != 0 and abs(m) != INF and m == m and abs(s) != INF:
                q = m / s
                eng.count("mcf_int(modulo/step)", "OverflowError" if abs(q) == INF else
                          "<=1" if int(q) <= 1 else "2..8" if int(q) <= 8 else "9..64" if int(q) <= 64 else ">64")
                if abs(q) != INF and 1 < int(q) < c["n"]:
                    eng.count("mcf_batch_boundary_crossed", True)


def shrink_mc(c):
    if c["n"] > 1:
        yield dict(c, n=c["n"] - 1)
        yield dict(c, n=(c["n"] + 1) // 2)
    if c.get("how") != "pos":
        yield dict(c, how="pos")
    if c.get("skind", "Stream") != "Stream":
        yield dict(c, skind="Stream")
    for k in MC:
        a = c[k]
        if "num" in a:
            x = fh(a["num"])
            for y in (float(round(x)) if abs(x) < 1e15 else x, 1.0, 5.0, 0.0, -1e-100, 1e-100):
                if bits(y) != bits(x) and not (k == "modulo" and y == 0):
                    yield dict(c, **{k: {"num": hx(y)}})
        else:
            xs = a["strm"]
            if len(xs) > c["n"]:
                yield dict(c, **{k: dict(a, strm=xs[:c["n"]])})
            if a.get("kind", "list") != "list":
                yield dict(c, **{k: dict(a, kind="list")})
            for i, v in enumerate(xs):
                x = fh(v)
                for y in (float(round(x)) if abs(x) < 1e15 else x, 1.0):
                    if bits(y) != bits(x) and not (k == "modulo" and y == 0):
                        ys = list(xs); ys[i] = hx(y)
                        yield dict(c, **{k: dict(a, strm=ys)})


def classify_mc(c, io, drv):
    shape = "".join("S" if "strm" in c[k] else "-" for k in MC)
    br = drv["res"][0]["branch"] if drv.get("res") else "?"
    ends = sorted({r["end"] for r in io["runs"]} - {"fuel", "stop"})
    return "modulo_counter.float:%s:%s:%s" % ("8-spellings" if c.get("all8") else shape, br, "+".join(ends) or "values")


# ----------------------------------------------------------------------------------------------
# durations at the rounding boundaries: line / fades / ones / zeros / impulse / adsr / attack
# ----------------------------------------------------------------------------------------------
def boundary_dur(rng, big=False):
    """a float duration, mostly one or two ulps around k + .5"""
    r = rng.random()
    k = rng.choice([0, 0, 1, 2, 3, 4, 7, 10, 23]) if not big else rng.choice([0, 1, 5, 2 ** 20, 2 ** 40, 2 ** 52, 2 ** 53])
    if r < 0.45:
        return ulps(k + 0.5, rng.choice([-2, -1, -1, 0, 0, 1, 1, 2]))
    if r < 0.55:
        return ulps(float(k), rng.choice([-1, 0, 1]))
    if r < 0.65:
        return rng.choice([0.49999999999999994, 0.5, 0.5000000000000001, 1.4999999999999998, 1.5, 2.5, 0.0, -0.0,
                           -0.4, -0.5, -0.6, -1.5, 1e-300, 5e-324])
    if r < 0.85:
        return rng.uniform(0, 30)
    return F(rng.randint(1, 200), rng.choice([3, 5, 7, 9, 10]))      # a Fraction that is not a float


def spell_dur(rng, d):
    if isinstance(d, Fraction):
        return spell_q(d)
    return spell(rng, d)


def gen_shapes(rng, tier, scale):
    cases = []
    k = (450 if tier == "quick" else 6000) * scale
    val = lambda: rng.choice([rng.uniform(-2, 2), rng.uniform(-2, 2), 0.1, 0.7, -0.3, 1.0, 0.0, 1e-17, 3.0, 1e300])
    for _ in range(k):
        d = boundary_dur(rng, rng.random() < 0.06)
        what = rng.choice(["line", "line", "line", "fadein", "fadeout"])
        c = {"entry": "line_float", "what": what, "dur": spell_dur(rng, d), "n": rng.choice([3, 12, 40])}
        if what == "line":
            how = rng.choice(["pos", "kw", "dur-only", "begin-only", "end-only", "finish-only", "no-finish", "mixed"])
            c["how"] = how
            c["begin"] = spell(rng, val() if how not in ("dur-only", "end-only", "finish-only") else 0.0, False, 0.15)
            c["end"] = spell(rng, val() if how not in ("dur-only", "begin-only", "finish-only") else 1.0, False, 0.15)
            c["finish"] = rng.choice([False, False, True, True, 0, 1, 1.0, "yes", None]) \
                if how not in ("dur-only", "begin-only", "end-only", "no-finish") else False
        cases.append(c)
    for _ in range(k // 2):
        what = rng.choice(["ones", "zeros", "zeroes", "impulse", "impulse"])
        r = rng.random()
        if r < 0.08:
            dur = None
        elif r < 0.2:
            dur = {"x": rng.choice(["inf", "inf", "-inf", "nan"]), "t": "f"}
        else:
            d = boundary_dur(rng, rng.random() < 0.1)
            if not isinstance(d, Fraction) and rng.random() < 0.15:
                d = -d
            dur = spell_dur(rng, d)
        c = {"entry": "const_float" if what != "impulse" else "impulse_float", "what": what, "dur": dur,
             "n": rng.choice([1, 2, 5, 30]), "how": rng.choice(["pos", "kw", "omit"]) if dur is None else rng.choice(["pos", "kw"])}
        if what == "impulse":
            c["oz"] = rng.choice(["default", "default", "both", "one-only", "zero-only"])
        cases.append(c)
    tm = lambda: boundary_dur(rng) if rng.random() < 0.8 else rng.choice([0.0, 0.0, 0.25, 0.5, 1e-9])
    for _ in range(k // 2):
        a, d, r = tm(), tm(), tm()
        tot = sum(float(x) for x in (a, d, r))
        dur = rng.choice([tot + rng.choice([0, 0.5, 1, 2.5, 7.3]), boundary_dur(rng), ulps(tot + 3.5, rng.choice([-1, 0, 1]))])
        s = rng.choice([0.5, 0.7, 0.1, 1.0, 0.0, rng.uniform(0, 1), 0.25])
        if rng.random() < 0.6:
            c = {"entry": "adsr_float", "dur": spell_dur(rng, dur), "a": spell_dur(rng, a), "d": spell_dur(rng, d),
                 "s": spell(rng, s, True, 0.2), "r": spell_dur(rng, r), "n": 60, "how": rng.choice(["pos", "kw", "mixed"])}
        else:
            n = rng.choice([2, 9, 30])
            if rng.random() < 0.5:
                sa = {"num": spell(rng, s, True, 0.2)}
            else:
                sa = {"strm": [hx(rng.choice([s, rng.uniform(0, 1)])) for _ in range(rng.randint(1, 8))],
                      "kind": rng.choice(["list", "iter", "Stream", "tuple"])}
            c = {"entry": "attack_float", "a": spell_dur(rng, a), "d": spell_dur(rng, d), "s": sa, "n": n,
                 "how": rng.choice(["pos", "kw"])}
        cases.append(c)
    return cases


def py_len(x):
    """int(x + .5) as the property writes it, on the float value of x; None = raises"""
    try:
        return max(0, int(float(x) + .5))
    except (OverflowError, ValueError):
        return None


def impl_shapes(c):
    import audiolazy
    e = c["entry"]
    try:
        if e == "line_float":
            d = sv(c["dur"])
            if c["what"] != "line":
                s = getattr(audiolazy, c["what"])(d)
            else:
                b, en, fin, how = sv(c["begin"]), sv(c["end"]), c["finish"], c["how"]
                ln = audiolazy.line
                s = (ln(d, b, en, fin) if how == "pos" else ln(dur=d, begin=b, end=en, finish=fin) if how == "kw" else
                     ln(d) if how == "dur-only" else ln(d, b) if how == "begin-only" else ln(d, end=en) if how == "end-only"
                     else ln(d, finish=fin) if how == "finish-only" else ln(d, b, en) if how == "no-finish"
                     else ln(d, b, finish=fin, end=en))
        elif e in ("const_float", "impulse_float"):
            f = getattr(audiolazy, c["what"])
            d = None if c["dur"] is None else sv(c["dur"])
            kw = {}
            if e == "impulse_float":
                oz = c["oz"]
                if oz in ("both", "one-only"):
                    kw["one"] = "ONE"
                if oz in ("both", "zero-only"):
                    kw["zero"] = "ZERO"
            s = f(**kw) if c["how"] == "omit" else f(dur=d, **kw) if c["how"] == "kw" else f(d, **kw)
        elif e == "adsr_float":
            v = {k: sv(c[k]) for k in ("dur", "a", "d", "s", "r")}
            s = (audiolazy.adsr(v["dur"], v["a"], v["d"], v["s"], v["r"]) if c["how"] == "pos" else
                 audiolazy.adsr(**v) if c["how"] == "kw" else audiolazy.adsr(v["dur"], v["a"], r=v["r"], s=v["s"], d=v["d"]))
        else:
            sa = c["s"]
            sus = sv(sa["num"]) if "num" in sa else build_strm(sa)
            s = audiolazy.attack(sv(c["a"]), sv(c["d"]), sus) if c["how"] == "pos" else \
                audiolazy.attack(s=sus, d=sv(c["d"]), a=sv(c["a"]))
        out, end = drain(s, c["n"])
    except Exception as ex:
        out, end = [], "call:" + err_kind(ex)
    if e == "impulse_float":
        kw_one = "ONE" if c["oz"] in ("both", "one-only") else 1.0
        kw_zero = "ZERO" if c["oz"] in ("both", "zero-only") else 0.0
        canon = [1 if (x == kw_one and type(x) is type(kw_one)) else 0 if (x == kw_zero and type(x) is type(kw_zero)) else "?" + repr(x)
                 for x in out]
        return {"out": canon, "end": end}
    return {"out": [obits(x) for x in out], "end": end}


def req_shapes(c):
    e = c["entry"]
    if e == "line_float":
        w = c["what"]
        b, en, fin = (0.0, 1.0, False) if w == "fadein" else (1.0, 0.0, False) if w == "fadeout" else \
            (fh(c["begin"]["x"]), fh(c["end"]["x"]), bool(c["finish"]))
        return {"entry": e, "dur": fb(c["dur"]), "begin": bits(b), "end": bits(en), "finish": fin, "n": c["n"]}
    if e == "const_float":
        r = {"entry": e, "v": bits(1.0 if c["what"] == "ones" else 0.0), "n": c["n"]}
        if c["dur"] is not None:
            r["dur"] = fb(c["dur"])
        return r
    if e == "impulse_float":
        r = {"entry": e, "n": c["n"]}
        if c["dur"] is not None:
            r["dur"] = fb(c["dur"])
        return r
    if e == "adsr_float":
        return dict({k: fb(c[k]) for k in ("dur", "a", "d", "s", "r")}, entry=e, n=c["n"])
    sa = c["s"]
    s = {"num": fb(sa["num"])} if "num" in sa else {"strm": [bits(fh(v)) for v in sa["strm"]]}
    return {"entry": e, "a": fb(c["a"]), "d": fb(c["d"]), "s": s, "n": c["n"]}


def cmp_shapes(c, io, drv):
    res = []
    e = c["entry"]
    n = c["n"]
    end = exp_end(drv, n)
    if e == "impulse_float":
        ok = io["out"] == drv["out"]
    else:
        ok = same_bits(io["out"], drv["out"])
    if not ok or io["end"] != end:
        res.append(("model", "%s float: impl=%s/%s twin=%s/%s" % (
            c.get("what", e), io["out"] if e == "impulse_float" else show(io["out"]), io["end"],
            drv["out"] if e == "impulse_float" else show(drv["out"]), end)))
    # documented lengths, from the literal formula on the float value of the duration
    want = None
    if e == "line_float":
        want = py_len(sv(c["dur"]))
    elif e in ("const_float", "impulse_float"):
        d = None if c["dur"] is None else float(sv(c["dur"]))
        want = n + 1 if d is None or d == INF else py_len(d)
        if e == "impulse_float" and want is not None and d is not None and d != INF and not d >= .5:
            want = 0
    elif e == "adsr_float":
        ls = [py_len(sv(c[k])) for k in ("a", "d", "r", "dur")]
        if None not in ls and all(float(sv(c[k])) >= 0 for k in ("a", "d", "r")):      # negative times: no documented meaning
            want = ls[0] + ls[1] + ls[2] + max(0, ls[3] - ls[0] - ls[1] - ls[2])
    if e == "attack_float":
        # 0 -> 1 over int(a+.5) samples, 1 -> s over int(d+.5) samples, then the sustain itself
        la, ld = py_len(sv(c["a"])), py_len(sv(c["d"]))
        sa = c["s"]
        if la is not None and ld is not None and io["end"] in ("fuel", "stop") and ("num" in sa or sa["strm"]):
            s0 = float(sv(sa["num"])) if "num" in sa else fh(sa["strm"][0])
            d = float(sv(c["d"]))
            vals = [None if isinstance(b, str) else unbits(b) for b in io["out"]]
            exp = [None] * la + [1.0 + i * ((s0 - 1.0) / d if d != 0 else 0.0) for i in range(ld)]
            exp += ([s0] * n if "num" in sa else [fh(v) for v in sa["strm"][1:]])
            exp = exp[:n]
            ok = len(vals) == len(exp) and all(w is None or (v is not None and abs(v - w) <= 1e-9 * (1 + abs(w)))
                                               for v, w in zip(vals, exp))
            if not ok:
                res.append(("spec", "attack float: %s/%s is not 0->1 over %d, 1->%r over %d samples, then the sustain" % (
                    show(io["out"]), io["end"], la, s0, ld)))
    if want is not None:
        exp_n = min(want, n)
        e_end = "fuel" if want >= n else "stop"
        if len(io["out"]) != exp_n or io["end"] != e_end:
            res.append(("spec", "%s float: %d samples/%s, documented duration int(dur+.5) gives %d/%s" % (
                c.get("what", e), len(io["out"]), io["end"], exp_n, e_end)))
    return res


def dur_kind(a):
    if a is None:
        return "None"
    x = fh(a["x"])
    if x != x or abs(x) == INF:
        return repr(x)
    fr = x - math.floor(x)
    where = "x.5" if fr == 0.5 else "x.5-ulps" if 0.5 - 1e-9 < fr < 0.5 else "x.5+ulps" if 0.5 < fr < 0.5 + 1e-9 else \
        "int" if fr == 0 else "frac"
    return ("neg-" if x < 0 else "") + where + ":" + a["t"]


def tally_shapes(eng, c, io):
    e = c["entry"]
    eng.count("shf_entry", c.get("what", e))
    eng.count("shf_end", io["end"])
    eng.count("shf_how", "%s:%s" % (c.get("what", e), c.get("how", "-")))
    for k in ("dur", "a", "d", "r"):
        if k in c:
            eng.count("shf_duration", dur_kind(c[k]))
    if e == "line_float" and c["what"] == "line":
        eng.count("shf_finish", repr(c["finish"]))
    if e == "impulse_float":
        eng.count("shf_impulse_one_zero", c["oz"])


def shrink_shapes(c):
    if c["n"] > 1:
        yield dict(c, n=c["n"] - 1)
    if c.get("how") not in (None, "pos") and c["entry"] != "line_float":
        yield dict(c, how="pos")
    for k in ("dur", "a", "d", "r", "s", "begin", "end"):
        a = c.get(k)
        if isinstance(a, dict) and "x" in a:
            if a["t"] not in ("f", "Q"):
                yield dict(c, **{k: dict(a, t="f")})
            x = fh(a["x"])
            if x == x and abs(x) != INF and a["t"] == "f":
                for y in (float(round(x)), round(x * 2) / 2):
                    if bits(y) != bits(x):
                        yield dict(c, **{k: {"x": hx(y), "t": "f"}})


def classify_shapes(c, io, drv):
    return "%s.float:%s" % (c.get("what", c["entry"]), io["end"] if io["end"] not in ("fuel", "stop") else "values")


# ----------------------------------------------------------------------------------------------
# TableLookup oscillator and sinusoid on float phases / frequencies
# ----------------------------------------------------------------------------------------------
def gen_osc(rng, tier, scale):
    cases = []
    k = (260 if tier == "quick" else 3500) * scale
    for _ in range(k):
        n = rng.choice([1, 3, 12, 30])
        L = rng.choice([1, 2, 3, 4, 8, 8, 16, rng.randint(1, 64)])
        tbl = [rng.choice([rng.uniform(-8, 8), float(rng.randint(-8, 8))]) for _ in range(L)]
        cyc = rng.choice([1, 1, 1, 2, 3, 0.5, 0.7, 1.0])
        fr = rng.choice([rng.uniform(-3, 3), rng.uniform(0, 1), 0.3, 0.05, TWO_PI / L * cyc, 0.0, TWO_PI * cyc, -0.3])
        r = rng.random()
        ph = (rng.choice([RESIDUE, -1e-18, -1e-100, 1e-100, -5e-324, -1e-17, -2e-16, 1e-17]) if r < 0.45 else
              rng.choice([0.0, -0.0]) if r < 0.55 else rng.uniform(-7, 7) if r < 0.8 else
              ulps(TWO_PI * cyc * rng.randint(-2, 2), rng.choice([-1, 0, 1])))
        def arg(x, p):
            if rng.random() < p:
                return {"strm": [hx(rng.choice([x, x, rng.uniform(-3, 3), -1e-18])) for _ in range(rng.choice([n, n + 2, max(1, n - 2)]))],
                        "kind": "Stream"}
            return {"num": hx(x)}
        fa, pa = arg(fr, 0.25), arg(ph, 0.2)
        if "strm" in pa and rng.random() < 0.6:
            pa["strm"][0] = hx(ph)
        cases.append({"entry": "table_float", "table": [hx(x) for x in tbl], "cycles": cyc if isinstance(cyc, int) else hx(cyc),
                      "tkind": rng.choice(["list", "tuple"]), "freq": fa, "phase": pa, "n": n,
                      "how": "default-phase" if "num" in pa and bits(fh(pa["num"])) == 0 and rng.random() < 0.6
                      else rng.choice(["pos", "kw"])})
    for _ in range(k):
        n = rng.choice([1, 4, 15, 40])
        fr = rng.choice([rng.uniform(-1, 3.3), rng.uniform(0, 1), 0.1, 0.3, TWO_PI / rng.randint(1, 12), 0.0, TWO_PI, 7.0, -0.1, 1e-9])
        r = rng.random()
        ph = (rng.choice([RESIDUE, -1e-18, -1e-100, 1e-100, -5e-324, -1e-17, -4e-16, 4e-16]) if r < 0.45 else
              rng.choice([0.0, -0.0]) if r < 0.55 else rng.uniform(-7, 7) if r < 0.8 else
              ulps(math.pi * rng.randint(-4, 4), rng.choice([-1, 0, 1])))
        def arg(x, p):
            if rng.random() < p:
                return {"strm": [hx(rng.choice([x, x, rng.uniform(-3, 3), -1e-18])) for _ in range(rng.choice([n, n + 2, max(1, n - 2)]))],
                        "kind": rng.choice(["list", "Stream", "iter", "tuple"])}
            return {"num": hx(x)}
        fa, pa = arg(fr, 0.25), arg(ph, 0.2)
        cases.append({"entry": "sin_float", "freq": fa, "phase": pa, "n": n,
                      "how": "default-phase" if "num" in pa and bits(fh(pa["num"])) == 0 and rng.random() < 0.6
                      else rng.choice(["pos", "kw"])})
    return cases


def _cyc(c):
    return c["cycles"] if isinstance(c["cycles"], int) else fh(c["cycles"])


def _arg(a):
    return fh(a["num"]) if "num" in a else build_strm(a)


def impl_osc(c):
    from audiolazy import TableLookup, sinusoid, modulo_counter
    try:
        if c["entry"] == "table_float":
            tbl = [fh(x) for x in c["table"]]
            tbl = tuple(tbl) if c["tkind"] == "tuple" else tbl
            t = TableLookup(tbl, _cyc(c)) if _cyc(c) != 1 or c["n"] % 2 else TableLookup(tbl)
            f, p = _arg(c["freq"]), _arg(c["phase"])
            s = t(f) if c["how"] == "default-phase" else t(freq=f, phase=p) if c["how"] == "kw" else t(f, p)
            out, end = drain(s, c["n"])
            return {"out": [obits(x) for x in out], "end": end}
        f, p = _arg(c["freq"]), _arg(c["phase"])
        s = sinusoid(f) if c["how"] == "default-phase" else sinusoid(phase=p, freq=f) if c["how"] == "kw" else sinusoid(f, p)
        out, end = drain(s, c["n"])
        cnt, cend = drain(modulo_counter(start=_arg(c["phase"]), modulo=2 * math.pi, step=_arg(c["freq"])), c["n"])
        return {"out": [obits(x) for x in out], "end": end, "counter": [obits(x) for x in cnt], "cend": cend}
    except Exception as ex:
        return {"out": [], "end": "call:" + err_kind(ex), "counter": [], "cend": "-"}


def _areq(a):
    return {"num": bits(fh(a["num"]))} if "num" in a else {"strm": [bits(fh(v)) for v in a["strm"]]}


def req_osc(c):
    if c["entry"] == "table_float":
        den = _cyc(c) * 2 * math.pi                  # the expression of TableLookup.__call__
        return {"entry": "table_float", "table": [bits(fh(x)) for x in c["table"]], "den": bits(den),
                "freq": _areq(c["freq"]), "phase": _areq(c["phase"]), "n": c["n"]}
    return {"entry": "sin_float", "two_pi": bits(2 * math.pi), "freq": _areq(c["freq"]), "phase": _areq(c["phase"]), "n": c["n"]}


def cmp_osc(c, io, drv):
    res = []
    n = c["n"]
    end = exp_end(drv, n)
    if c["entry"] == "table_float":
        if not same_bits(io["out"], drv["out"]) or io["end"] != end:
            res.append(("model", "TableLookup float: impl=%s/%s twin=%s/%s (indices %s)" % (
                show(io["out"]), io["end"], show(drv["out"]), end, show(drv["idx"]))))
        tbl = [fh(x) for x in c["table"]]
        lo, hi = min(tbl), max(tbl)
        tol = 1e-9 * (1 + max(abs(lo), abs(hi)))
        vals = [unbits(b) for b in io["out"] if not isinstance(b, str)]
        if io["end"] not in ("fuel", "stop") or len(vals) != len(io["out"]) or any(not (lo - tol <= v <= hi + tol) for v in vals):
            res.append(("spec", "TableLookup float: %s/%s is not an interpolation inside the table [%r, %r]" % (
                show(io["out"]), io["end"], lo, hi)))
        return res
    cnt_ok = same_bits(io["counter"], drv["out"]) and io["cend"] == end
    sin_ok = len(io["out"]) == len(drv["sin"]) and io["end"] == end and all(
        g == e or (not isinstance(g, str) and abs(unbits(g) - unbits(e)) <= 4e-16) or (g == "nan" and unbits(e) != unbits(e))
        for g, e in zip(io["out"], drv["sin"]))
    if not (cnt_ok and sin_ok):
        res.append(("model", "sinusoid float [%s]: impl=%s/%s counter=%s/%s twin counter=%s/%s" % (
            drv["branch"], show(io["out"]), io["end"], show(io["counter"]), io["cend"], show(drv["out"]), end)))
    bad = [unbits(b) for b in io["counter"] if not isinstance(b, str) and not (0 <= unbits(b) < 2 * math.pi)]
    if bad or io["end"] not in ("fuel", "stop") or any(isinstance(b, str) or abs(unbits(b)) > 1 for b in io["out"]) \
            or any(not isinstance(a, str) and not isinstance(b, str) and bits(math.sin(unbits(b))) != a
                   for a, b in zip(io["out"], io["counter"])):
        res.append(("spec", "sinusoid float: phase counter %s outside [0, 2*pi), or samples %s/%s are not its sines" % (
            bad, show(io["out"]), io["end"])))
    return res


def tally_osc(eng, c, io):
    e = c["entry"]
    eng.count("oscf_entry", e)
    eng.count("oscf_how", c["how"])
    eng.count("oscf_end", io["end"])
    p = c["phase"]
    x = fh(p["num"] if "num" in p else p["strm"][0]) if ("num" in p or p["strm"]) else 0.0
    eng.count("oscf_phase", ("stream:" if "strm" in p else "") + ("zero" if x == 0 else
              ("tiny-" if abs(x) < 1e-15 else "") + ("neg" if x < 0 else "pos")))
    if e == "table_float":
        eng.count("oscf_cycles", repr(_cyc(c)))


def shrink_osc(c):
    if c["n"] > 1:
        yield dict(c, n=c["n"] - 1)
    for k in ("freq", "phase"):
        a = c[k]
        if "strm" in a and a["strm"]:
            yield dict(c, **{k: {"num": a["strm"][0]}})
    if c["entry"] == "table_float" and len(c["table"]) > 1:
        yield dict(c, table=c["table"][:-1])
        yield dict(c, table=[hx(float(i)) for i in range(len(c["table"]))])
    if c["how"] == "kw":
        yield dict(c, how="pos")


def classify_osc(c, io, drv):
    return "%s:%s" % (c["entry"].replace("_float", ".float"), io["end"] if io["end"] not in ("fuel", "stop") else "values")


ENTRIES = {
    "mc_float": dict(gen=gen_mc, impl=impl_mc, cmp=cmp_mc, tally=tally_mc, shrink=shrink_mc, classify=classify_mc, request=req_mc),
    "line_float": dict(gen=gen_shapes, impl=impl_shapes, cmp=cmp_shapes, tally=tally_shapes, shrink=shrink_shapes,
                       classify=classify_shapes, request=req_shapes),
    "table_float": dict(gen=gen_osc, impl=impl_osc, cmp=cmp_osc, tally=tally_osc, shrink=shrink_osc,
                        classify=classify_osc, request=req_osc),
}
for _a, _of in (("const_float", "line_float"), ("impulse_float", "line_float"), ("adsr_float", "line_float"),
                ("attack_float", "line_float"), ("sin_float", "table_float")):
    ENTRIES[_a] = dict(ENTRIES[_of], gen=None)
