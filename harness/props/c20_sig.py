"""C20 — translator of the call layer: reads the SIGNATURES (parameter names, order, default-value expressions) of the
anchored functions and the strategy registrations from the source of the repo under test with `ast` and writes them as
Lean data (`lean/ALV/Gen/C20Defaults.lean`, types of `ALV/Model/C20Call.lean`).  The theorem
`ALV.Props.C20.source_signatures_are_documented` (decide) compares that table with the documented one the model's
`...Call` definitions take their defaults from.  Nothing is imported from the repo here: source text only."""
import ast
import os
from fractions import Fraction

import common

GEN_REL = os.path.join("ALV", "Gen", "C20Defaults.lean")
DICTS = ("envelope", "maverage", "accumulate")
# (file, function names wanted at top level; nested defs of a wanted function are taken too)
WANT = {
    "lazy_analysis.py": ("zcross", "envelope", "maverage", "clip", "unwrap", "amdf"),
    "lazy_itertools.py": ("accumulate",),
}


class TranslationError(Exception):
    pass


def _src(name):
    with open(os.path.join(common.REPO, "audiolazy", name)) as f:
        return f.read()


def dexpr(node):
    """ast of a default value -> DExpr tree (tuples); anything else is a translation failure"""
    if isinstance(node, ast.Constant):
        v = node.value
        if v is None:
            return ("none",)
        if isinstance(v, bool):
            raise TranslationError("boolean default %r" % (v,))
        if isinstance(v, int):
            return ("int", v)
        if isinstance(v, float) and v == v and abs(v) != float("inf"):
            q = Fraction(v)
            return ("flt", q.numerator, q.denominator)
        raise TranslationError("constant default %r" % (v,))
    if isinstance(node, ast.Name) and node.id == "pi":
        return ("pi",)
    if isinstance(node, ast.UnaryOp) and isinstance(node.op, ast.USub):
        return ("neg", dexpr(node.operand))
    if isinstance(node, ast.UnaryOp) and isinstance(node.op, ast.UAdd):
        return dexpr(node.operand)
    if isinstance(node, ast.BinOp) and isinstance(node.op, (ast.Mult, ast.Div)):
        return ("mul" if isinstance(node.op, ast.Mult) else "div", dexpr(node.left), dexpr(node.right))
    raise TranslationError("default expression not understood: %s" % ast.dump(node)[:120])


def _params(fn):
    a = fn.args
    if a.vararg or a.kwarg or a.kwonlyargs or getattr(a, "posonlyargs", None):
        raise TranslationError("%s: *args / **kwargs / keyword-only / positional-only parameters" % fn.name)
    nd = len(a.defaults)
    out = []
    for i, p in enumerate(a.args):
        k = i - (len(a.args) - nd)
        out.append((p.arg, dexpr(a.defaults[k]) if k >= 0 else None))
    return out


def _strategy_names(call):
    """`X.strategy("a", "b")` -> ("X", ["a", "b"]) else None"""
    if (isinstance(call, ast.Call) and isinstance(call.func, ast.Attribute) and call.func.attr == "strategy"
            and isinstance(call.func.value, ast.Name) and call.func.value.id in DICTS):
        names = []
        for a in call.args:
            if not (isinstance(a, ast.Constant) and isinstance(a.value, str)):
                raise TranslationError("strategy name is not a string literal")
            names.append(a.value)
        return call.func.value.id, names
    return None


def read_source():
    """-> (signatures [(qualified name, [(param, DExpr|None)])], strategies [(dict, [[names]])])"""
    sigs, strat = [], {d: [] for d in DICTS}
    for fname, wanted in WANT.items():
        tree = ast.parse(_src(fname))
        calls = sorted((n for n in ast.walk(tree) if _strategy_names(n)), key=lambda n: (n.lineno, n.col_offset))
        for n in calls:
            d, names = _strategy_names(n)
            strat[d].append(names)
        for node in tree.body:
            if isinstance(node, ast.FunctionDef) and node.name in wanted:
                q = node.name
                for dec in node.decorator_list:
                    s = _strategy_names(dec)
                    if s:
                        q = "%s.%s" % (s[0], s[1][0])
                sigs.append((q, _params(node)))
                for sub in ast.walk(node):
                    if isinstance(sub, ast.FunctionDef) and sub is not node:
                        sigs.append(("%s.%s" % (q, sub.name), _params(sub)))
    tree = ast.parse(_src("lazy_filters.py"))
    found = False
    for node in tree.body:
        if isinstance(node, ast.ClassDef) and node.name == "LinearFilter":
            for sub in node.body:
                if isinstance(sub, ast.FunctionDef) and sub.name == "__call__":
                    sigs.append(("LinearFilter.__call__", _params(sub)))
                    found = True
    if not found:
        raise TranslationError("LinearFilter.__call__ not found")
    return sigs, [(d, strat[d]) for d in DICTS]


def _lean_dexpr(e):
    k = e[0]
    if k == "int":
        return "(.int (%d))" % e[1]
    if k == "flt":
        return "(.flt (%d) %d)" % (e[1], e[2])
    if k in ("none", "pi"):
        return "." + k
    if k == "neg":
        return "(.neg %s)" % _lean_dexpr(e[1])
    return "(.%s %s %s)" % (k, _lean_dexpr(e[1]), _lean_dexpr(e[2]))


def _lean_str(s):
    if not all(c.isalnum() or c in "_." for c in s):
        raise TranslationError("unexpected name %r" % (s,))
    return '"%s"' % s


def translate(sigs, strat):
    lines = ["/- GENERATED by harness/props/c20_sig.py from audiolazy/lazy_analysis.py, lazy_itertools.py, lazy_filters.py",
             "   (signatures and strategy registrations read with `ast`).  Do not edit: rewritten on every check. -/",
             "import ALV.Model.C20Call", "namespace ALV.Gen.C20Defaults", "open ALV.C20", "",
             "def signatures : List Sig := ["]
    rows = []
    for q, ps in sigs:
        pl = ", ".join("⟨%s, %s⟩" % (_lean_str(n), "none" if d is None else "some " + _lean_dexpr(d)) for n, d in ps)
        rows.append("  ⟨%s, [%s]⟩" % (_lean_str(q), pl))
    lines.append(",\n".join(rows) + "]")
    lines += ["", "def strategies : List (String × List (List String)) := ["]
    rows = []
    for d, groups in strat:
        rows.append("  (%s, [%s])" % (_lean_str(d), ", ".join("[%s]" % ", ".join(_lean_str(n) for n in g) for g in groups)))
    lines.append(",\n".join(rows) + "]")
    lines += ["", "end ALV.Gen.C20Defaults", ""]
    return "\n".join(lines)


def regenerate(eng=None):
    path = os.path.join(common.LEAN, GEN_REL)
    text = translate(*read_source())
    old = open(path).read() if os.path.exists(path) else None
    if old != text:
        os.makedirs(os.path.dirname(path), exist_ok=True)
        with open(path, "w") as f:
            f.write(text)
        return "rewritten (%d bytes)" % len(text)
    return "unchanged (%d bytes)" % len(text)


def dvalue(e, pi):
    """value of a DExpr tree (Fraction arithmetic, `pi` as given); None for Python None"""
    k = e[0]
    if k == "int":
        return Fraction(e[1])
    if k == "flt":
        return Fraction(e[1], e[2])
    if k == "none":
        return None
    if k == "pi":
        return pi
    if k == "neg":
        v = dvalue(e[1], pi)
        return None if v is None else -v
    a, b = dvalue(e[1], pi), dvalue(e[2], pi)
    if a is None or b is None:
        return None
    return a * b if k == "mul" else a / b
