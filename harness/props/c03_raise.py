"""C03 helper: histories with element functions and sources that RAISE in the middle of a stream
(entry `xhist`; Lean side: ALV/Model/C03X.lean, event-list specification ALV/Spec/C03X.lean).

An event of a source is an int or {"raise": "KeyError"}; the Python source is an iterator object that
raises at the marked positions and goes on afterwards (a generator could not).  The element function
tables are the ones of ALV/Driver/C03.lean (mapXT / predXT / attrXT).  No oracle in here.
"""
import builtins
import warnings
from common import err_kind

INF = float("inf")


def _f0(x):
    return 12 // x


def _f1(x):
    if x % 3 == 0:
        raise ValueError("multiple of 3")
    return x + 1


def _f2(x):
    return {1: 5, 2: 7, 4: 1}[x]


def _f4(x):
    if x < 0:
        raise IndexError("negative")
    return x


MAPS = [_f0, _f1, _f2, lambda x: 2 * x, _f4]


def _p1(x):
    if x == 5:
        raise TypeError("five")
    return x > 2


PREDS = [lambda x: 6 % x == 0, _p1, lambda x: x % 2 == 0]
ATTRS = [lambda s: s.real, lambda s: s.imag, lambda s: s.denominator, lambda s: s.bit_length(), lambda s: s.nope,
         lambda s: s.conjugate(), lambda s: s()]
ATTR_NAMES = ["s.real", "s.imag", "s.denominator", "s.bit_length()", "s.nope", "s.conjugate()", "s()"]
RAISES = ["KeyError", "ValueError", "ZeroDivisionError", "AssertionError", "RuntimeError"]


class Events(object):
    """an iterator over events: yields the ints, raises at the marked positions, then goes on"""

    def __init__(self, es):
        self.es = list(es)
        self.k = 0

    def __iter__(self):
        return self

    def __next__(self):
        if self.k >= len(self.es):
            raise StopIteration
        e = self.es[self.k]
        self.k += 1
        if isinstance(e, dict):
            raise getattr(builtins, e["raise"])("event %d" % self.k)
        return e

    next = __next__


def _cnt(c):
    t = c["t"]
    if t == "none":
        return None
    if t == "int":
        return int(c["v"])
    if t == "flt":
        from common import dec
        return float(dec(c["v"]))
    return {"inf": INF, "ninf": -INF, "nan": float("nan")}[t]


def run(case):
    from audiolazy import Stream
    pool, steps = [], []
    with warnings.catch_warnings():
        warnings.simplefilter("ignore")
        for op in case["ops"]:
            try:
                steps.append(_step(Stream, pool, op))
            except Exception as e:
                steps.append({"err": err_kind(e)})
    return {"steps": steps}


def _items(r, typ=list):
    if type(r) is not typ or any(type(x) is not int for x in r):
        return {"err": "baditem:" + repr(r)[:60]}
    return {"v": list(r)}


def _step(Stream, pool, op):
    o = op["op"]
    if o == "new":
        pool.append(Stream(Events(op["es"])))
        return {"new": [len(pool) - 1]}
    i = op["i"]
    if i >= len(pool) or pool[i] is None:
        return {"err": "noobj"}
    s = pool[i]
    if o in ("take", "peek"):
        n = _cnt(op["n"])
        if n is None:
            r = getattr(s, o)() if op.get("bare") else getattr(s, o)(None)
            return {"x": r} if type(r) is int else {"err": "baditem:" + repr(r)[:60]}
        if op.get("ctor") == "tuple":
            return _items(getattr(s, o)(n, constructor=tuple), tuple)
        return _items(getattr(s, o)(n))
    if o == "next":
        r = next(iter(s))
        return {"x": r} if type(r) is int else {"err": "baditem:" + repr(r)[:60]}
    if o == "drain":
        if op.get("via") == "for":
            out = []
            for x in s:
                out.append(x)
            return _items(out)
        return _items(list(s))
    if o == "nextattr":
        r = s.__next__ if op.get("dunder", True) else next(s)     # AttributeError / TypeError: not an iterator
        return {"err": "returned:" + repr(r)[:40]}
    if o == "copy":
        pool.append(s.copy())
        return {"new": [len(pool) - 1]}
    if o == "attr":
        r = ATTRS[op["g"]](s)
        if type(r) is not Stream or r is s:
            return {"err": "not-a-new-stream"}
        pool[i] = None
        pool.append(r)
        return {"new": [len(pool) - 1]}
    if o == "skip":
        r = s.skip(op["n"])
    elif o == "skipc":          # any count as written: inf / -inf / nan / None are refused LAZILY, inside the generator
        r = s.skip(_cnt(op["n"]))
    elif o == "limit":
        r = s.limit(op["n"])
    elif o == "append":
        r = s.append(Events(op["es"]))
    elif o == "map":
        r = s.map(MAPS[op["f"]])
    elif o == "filter":
        r = s.filter(PREDS[op["p"]])
    else:
        raise ValueError(o)
    return {"self": r is s}


# ----------------------------------------------------------------------------------------
# generation
# ----------------------------------------------------------------------------------------
def _events(rng, n, praise):
    return [({"raise": rng.choice(RAISES)} if rng.random() < praise else rng.randint(-3, 7)) for _ in range(n)]


def _count(rng):
    r = rng.random()
    if r < 0.18:
        return {"t": "none"}
    if r < 0.26:
        return {"t": "inf"}
    if r < 0.34:
        from common import enc
        return {"t": "flt", "v": enc(rng.randint(0, 4) + 0.5)}
    if r < 0.38:
        return {"t": rng.choice(["nan", "ninf"])}
    return {"t": "int", "v": rng.choice([-1, 0, 1, 1, 2, 2, 3, 4, 6, 9])}


def _skip_count(rng):
    r = rng.random()
    if r < 0.6:
        return {"t": rng.choice(["inf", "ninf", "nan", "none"])}
    if r < 0.8:
        from common import enc
        return {"t": "flt", "v": enc(rng.choice([-1.5, -0.5, 0.5, 1.5, 2.5, 3.5, 0.4, 1.6]))}
    return {"t": "int", "v": rng.choice([-2, 0, 1, 2, 4])}


def history(rng, length, copies):
    ops, alive, total = [], [], 0
    for _ in range(length):
        if not alive or rng.random() < 0.12:
            ops.append({"op": "new", "es": _events(rng, rng.choice([0, 1, 3, 5, 6, 8]), rng.choice([0.0, 0.15, 0.3]))})
            alive.append(total)
            total += 1
            continue
        i = rng.choice(alive)
        o = rng.choice(["take"] * 5 + ["next"] * 3 + ["map"] * 3 + ["filter"] * 2 + ["skip"] * 2 + ["limit"] * 2 +
                       ["append", "drain", "attr", "attr", "nextattr", "skipc"] + (["peek"] * 3 + ["copy"] * 2 if copies else []))
        if o in ("take", "peek"):
            op = {"op": o, "i": i, "n": _count(rng)}
            if op["n"]["t"] == "none" and rng.random() < 0.5:
                op["bare"] = True
            elif op["n"]["t"] != "none" and rng.random() < 0.2:
                op["ctor"] = "tuple"
        elif o in ("skip", "limit"):
            op = {"op": o, "i": i, "n": rng.choice([0, 1, 1, 2, 3, 5])}
        elif o == "skipc":
            op = {"op": o, "i": i, "n": _skip_count(rng)}
        elif o == "append":
            op = {"op": o, "i": i, "es": _events(rng, rng.randint(0, 4), 0.2)}
        elif o == "map":
            op = {"op": o, "i": i, "f": rng.randrange(len(MAPS))}
        elif o == "filter":
            op = {"op": o, "i": i, "p": rng.randrange(len(PREDS))}
        elif o == "attr":
            op = {"op": o, "i": i, "g": rng.choice([0, 1, 2, 3, 3, 4, 5, 6])}
            alive.remove(i)
            alive.append(total)
            total += 1
        elif o == "copy":
            op = {"op": o, "i": i}
            alive.append(total)
            total += 1
        elif o == "drain":
            op = {"op": o, "i": i, "via": rng.choice(["list", "for"])}
        else:
            op = {"op": o, "i": i}
        ops.append(op)
    # go on reading after whatever happened: every live stream is read to its end, one exception at a time
    for i in alive:
        for _ in range(rng.randint(2, 4)):
            ops.append({"op": rng.choice(["next", "take"]), "i": i, "n": {"t": "int", "v": rng.randint(1, 3)}}
                       if rng.random() < 0.5 else {"op": "drain", "i": i})
        for _ in range(3):
            ops.append({"op": "drain", "i": i})
    return {"entry": "xhist", "ops": ops}


def tally(eng, case, io):
    steps = io.get("steps", [])
    raised_before = {}
    wrappers = {}
    for k, op in enumerate(case["ops"]):
        ob = steps[k] if k < len(steps) else {}
        o = op["op"]
        eng.count("x_op", o + (" " + ATTR_NAMES[op["g"]] if o == "attr" else ""))
        i = op.get("i")
        if o == "skipc":
            eng.count("x_skip_count_as_written", op["n"]["t"] + (" (refused lazily)" if op["n"]["t"] in ("inf", "ninf", "nan", "none") else ""))
        if o in ("map", "filter", "skip", "skipc", "limit", "append", "attr", "copy") and "err" not in ob:
            wrappers.setdefault(i, []).append(o)
        if o == "attr" and "new" in ob:
            wrappers[ob["new"][0]] = wrappers.get(i, []) + ["attr"]
        if o == "copy" and "new" in ob:
            wrappers[ob["new"][0]] = list(wrappers.get(i, []))
        if o in ("take", "peek", "next", "drain"):
            err = ob.get("err")
            real = err not in (None, "StopIteration", "noobj")
            if real:
                eng.count("x_raise_seen_by", o + ":" + err)
                top = (wrappers.get(i) or ["bare source"])[-1]
                eng.count("x_raise_through_outermost", top)
            elif raised_before.get(i):
                eng.count("x_read_after_a_raise", o + (" -> items" if ob.get("v") or "x" in ob else " -> empty / StopIteration"))
            if real:
                raised_before[i] = True
