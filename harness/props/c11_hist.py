"""C11 — histories on MUTABLE filter objects (entry "hist").

A case is a list of operations of a caller on a heap of ZFilter objects:

  {"op":"mk",  "num":[..], "den":[..], "fl":FL, "how":HOW}      f = ZFilter(num, den)          -> new id
  {"op":"lev", "r":[..], "order":n, "given":bool, "fl":FL, "cont":CONT, "rsame":k?}
                                                                f = levinson_durbin(r[, order]) -> new id
                                                                (rsame: the very list object of op #k again)
  {"op":"setpoly", "t":id, "part":"num"|"den", "cs":[..], "fl":FL}    f.numpoly = Poly(cs)
  {"op":"share",   "t":id, "part":.., "s":id, "spart":..}             f.numpoly = g.denpoly  (same object)
  {"op":"set",     "t":id, "part":.., "i":i, "v":x, "fl":FL}          f.numpoly[i] = x
  {"op":"parcor",  "t":id}                                            list(parcor(f))
  {"op":"parcor_il","t":id,"s":id}                                    two parcor generators drained in turns
  {"op":"stable",  "t":id, "via":"direct"|"inv"}                      parcor_stable(f)
  {"op":"stable_casc","t":id,"s":id}                                  parcor_stable(CascadeFilter(f, g))

FL = "F" (Fraction) | "float" | "int": the numeric type the caller uses for the (exact, JSON) values.
Every value is exact in the case: a "float" value is a rational that IS a binary64 number, an "int"
value is an integer.  So numerically equal arguments of different types are the same Lean input.

Each step is compared with the Lean heap model (`ALV.C11.Hist.step`, contents of every filter after
every step: arguments unchanged, edits take effect, other objects untouched) and each query with the
Lean model/spec of that call TAKEN ALONE on the current contents (the payload of the single-call entries).
Every history runs in a forked child of a pristine process (no state left by earlier cases).
"""
import os
import sys
import json
from fractions import Fraction as F

import common
from common import enc, encl, dec, decl, err_kind, close, close_list

TOL = F(1, 10**9)
PARTS = ("num", "den")
CREATES = ("mk", "lev")


def _c11():
    from props import c11
    return c11


# ------------------------------------------------------------------------------------------------
# exact helpers
# ------------------------------------------------------------------------------------------------
def is_float_exact(x):
    x = F(x)
    try:
        return F(float(x)) == x
    except OverflowError:
        return False


def conv(v, fl):
    """JSON value -> the caller's Python number of flavour fl (always exactly the same rational)"""
    x = dec(v)
    if fl == "F":
        return x
    if fl == "float":
        y = float(x)
        assert F(y) == x, "float flavour needs a binary64 value: %r" % (v,)
        return y
    if fl == "int":
        assert x.denominator == 1, "int flavour needs an integer: %r" % (v,)
        return int(x)
    raise ValueError("flavour " + str(fl))


def fl_ok(vals, fl):
    vals = [dec(v) for v in vals]
    if fl == "float":
        return all(is_float_exact(x) for x in vals)
    if fl == "int":
        return all(x.denominator == 1 for x in vals)
    return fl == "F"


def strip0(xs):
    xs = list(xs)
    while xs and xs[-1] == 0:
        xs.pop()
    return xs


def lev_exact(r, order):
    """exact Levinson-Durbin: (a, error, ks) or None (ParCorError: a zero prediction error is met)"""
    r = list(r)
    if order >= len(r):
        r = r + [F(0)] * (order + 1 - len(r))
    a, e, ks = [F(1)], (r[0] if r else F(0)), []
    for m in range(1, order + 1):
        if e == 0:
            return None
        k = -sum(a[i] * r[m - i] for i in range(m)) / e
        ks.append(k)
        ext = a + [F(0)]
        a = [x + k * y for x, y in zip(ext, ext[::-1])]
        e = e * (1 - k * k)
    return a, e, ks


def float_stepdown_verdict(den):
    """binary64 emulation of parcor_stable on float coefficients (agreed with the real code on 2494 of
    2494 critical dyadic denominators); used by the GENERATOR only, to pick critical denominators whose float
    verdict differs from the exact one"""
    a = [float(x) for x in den]
    g = a[0]
    if g != 1:
        inv = 1. / g
        a = [x * inv for x in a]
    for m in range(len(a) - 1, 0, -1):
        k = a[m]
        if not abs(k) < 1:
            return False
        d = 1 - k ** 2
        if d == 0:
            return False
        inv = 1 / d
        a = [(a[i] - k * a[m - i]) * inv for i in range(m)]
        a[0] = 1.
    return True


# ------------------------------------------------------------------------------------------------
# harness-side simulation of the heap (bindings, exact contents, validity)
# ------------------------------------------------------------------------------------------------
def set_at(l, i, v):
    l = list(l) + [F(0)] * (i + 1 - len(l))
    l[i] = v
    return l


def simulate(ops):
    """-> (ok, why, trace); trace[i] = {"filts": [None | (numcell, dencell)], "cells": [list of Fractions],
    "levcells": set of cells created by levinson_durbin (float contents in the real code)}.
    ok is False when the history leaves the assumptions of the property (empty polynomial or zero
    leading coefficient, unknown / dead filter id, flavour that cannot hold the value)."""
    cells, filts, levcells, trace = [], [], set(), []

    def alive(t):
        return isinstance(t, int) and 0 <= t < len(filts) and filts[t] is not None

    def good(l):
        l = strip0(l)
        return len(l) >= 1 and l[0] != 0

    for n, op in enumerate(ops):
        k = op.get("op")
        try:
            if k == "mk":
                num, den = decl(op["num"]), decl(op["den"])
                if not (good(num) and good(den)) or not fl_ok(op["num"] + op["den"], op.get("fl", "F")):
                    return False, "mk #%d" % n, trace
                if op.get("how") == "inv" and strip0(num) != [1]:
                    return False, "inv needs numerator 1", trace
                cells += [num, den]
                filts.append((len(cells) - 2, len(cells) - 1))
            elif k == "lev":
                r = decl(op["r"])
                if "rsame" in op:
                    j = op["rsame"]
                    if not (isinstance(j, int) and 0 <= j < n and ops[j].get("op") == "lev" and
                            ops[j]["r"] == op["r"] and ops[j].get("fl", "F") == op.get("fl", "F") and
                            ops[j].get("cont", "list") == op.get("cont", "list")):
                        return False, "rsame", trace
                if not r or not fl_ok(op["r"], op.get("fl", "F")) or not isinstance(op["order"], int) or op["order"] < 0:
                    return False, "lev #%d" % n, trace
                if not op.get("given", True) and op["order"] != len(r) - 1:
                    return False, "default order", trace
                res = lev_exact(r, op["order"])
                if res is None:
                    filts.append(None)
                else:
                    cells += [res[0], [F(1)]]
                    levcells.add(len(cells) - 2)
                    filts.append((len(cells) - 2, len(cells) - 1))
            elif k == "setpoly":
                cs = decl(op["cs"])
                if not alive(op["t"]) or op["part"] not in PARTS or not good(cs) or not fl_ok(op["cs"], op.get("fl", "F")):
                    return False, "setpoly #%d" % n, trace
                cells.append(cs)
                f = list(filts[op["t"]])
                f[PARTS.index(op["part"])] = len(cells) - 1
                filts[op["t"]] = tuple(f)
            elif k == "share":
                if not (alive(op["t"]) and alive(op["s"])) or op["part"] not in PARTS or op["spart"] not in PARTS:
                    return False, "share #%d" % n, trace
                f = list(filts[op["t"]])
                f[PARTS.index(op["part"])] = filts[op["s"]][PARTS.index(op["spart"])]
                filts[op["t"]] = tuple(f)
            elif k == "set":
                if not alive(op["t"]) or op["part"] not in PARTS or not fl_ok([op["v"]], op.get("fl", "F")) \
                        or not isinstance(op["i"], int) or op["i"] < 0:
                    return False, "set #%d" % n, trace
                c = filts[op["t"]][PARTS.index(op["part"])]
                new = set_at(cells[c], op["i"], dec(op["v"]))
                if not good(new):
                    return False, "set #%d leaves a zero leading coefficient" % n, trace
                cells[c] = new
            elif k in ("parcor", "stable"):
                if not alive(op["t"]):
                    return False, "%s #%d on a dead filter" % (k, n), trace
                if k == "stable" and op.get("via", "direct") == "inv":
                    if strip0(cells[filts[op["t"]][0]]) != [1]:
                        return False, "inv", trace
            elif k in ("parcor_il", "stable_casc"):
                if not (alive(op["t"]) and alive(op["s"])):
                    return False, "%s #%d on a dead filter" % (k, n), trace
            else:
                return False, "unknown op %r" % (k,), trace
        except (KeyError, TypeError, ValueError, AssertionError, ZeroDivisionError) as e:
            return False, "malformed op #%d: %r" % (n, e), trace
        trace.append({"filts": list(filts), "cells": [list(x) for x in cells], "levcells": set(levcells)})
    return True, "", trace


def expand(ops):
    """ops for the Lean driver (parcor_il = two parcor queries) and, per case op, the driver step indices"""
    out, where = [], []
    for op in ops:
        if op["op"] == "parcor_il":
            where.append([len(out), len(out) + 1])
            out += [{"op": "parcor", "t": op["t"]}, {"op": "parcor", "t": op["s"]}]
        else:
            where.append([len(out)])
            o = {"op": op["op"]}
            for k in ("num", "den", "r", "order", "t", "part", "cs", "s", "spart", "i", "v"):
                if k in op:
                    o[k] = op[k]
            out.append(o)
    return out, where


def request(c):
    return {"entry": "hist", "ops": expand(c["ops"])[0]}


def describe(c, upto=None):
    out = []
    nid = 0
    for op in c["ops"][:upto]:
        k = op["op"]
        fl = op.get("fl", "F")
        if k == "mk":
            how = op.get("how", "list")
            out.append("f%d = ZFilter(%s, %s) [%s, %s]" % (nid, op["num"], op["den"], fl, how))
            nid += 1
        elif k == "lev":
            out.append("f%d = levinson_durbin(%s%s%s) [%s, %s]" % (
                nid, ("<the r object of op %d> " % op["rsame"]) if "rsame" in op else "", op["r"],
                ", %d" % op["order"] if op.get("given", True) else "", fl, op.get("cont", "list")))
            nid += 1
        elif k == "setpoly":
            out.append("f%d.%spoly = Poly(%s) [%s]" % (op["t"], op["part"], op["cs"], fl))
        elif k == "share":
            out.append("f%d.%spoly = f%d.%spoly" % (op["t"], op["part"], op["s"], op["spart"]))
        elif k == "set":
            out.append("f%d.%spoly[%d] = %s [%s]" % (op["t"], op["part"], op["i"], op["v"], fl))
        elif k == "parcor":
            out.append("list(parcor(f%d))" % op["t"])
        elif k == "parcor_il":
            out.append("interleaved parcor(f%d), parcor(f%d)" % (op["t"], op["s"]))
        elif k == "stable":
            out.append("parcor_stable(%s)" % (("1 / ZFilter(f%d.denpoly)" if op.get("via") == "inv" else "f%d") % op["t"]))
        elif k == "stable_casc":
            out.append("parcor_stable(CascadeFilter(f%d, f%d))" % (op["t"], op["s"]))
    return "; ".join(out)


# ------------------------------------------------------------------------------------------------
# the real code
# ------------------------------------------------------------------------------------------------
def _poly_obs(p):
    """coefficient list of a Poly (powers 0..order) and whether a stored coefficient is not a Fraction"""
    terms = dict(p.terms())
    if any((not isinstance(k, int)) or k < 0 for k in terms):
        return {"weird": sorted(repr(k) for k in terms)}
    n = max(terms) if terms else -1
    return {"l": [enc(terms[i]) if i in terms else 0 for i in range(n + 1)],
            "nonF": any(not isinstance(v, F) for v in terms.values())}


def _snapshot(filts):
    out = []
    for f in filts:
        if f is None:
            out.append(None)
        else:
            out.append({"num": _poly_obs(f.numpoly), "den": _poly_obs(f.denpoly)})
    return out


def _bound_polys(filts):
    return [p for f in filts if f is not None for p in (f.numpoly, f.denpoly)]


def _fresh(f, filts):
    """the new filter and its two Poly objects are not shared with any live filter"""
    if any(f is g for g in filts if g is not None):
        return "the returned filter IS an object returned earlier"
    if f.numpoly is f.denpoly:
        return "numpoly is denpoly"
    for p in _bound_polys(filts):
        if f.numpoly is p or f.denpoly is p:
            return "the returned filter shares a Poly object with an earlier filter"
    return None


def _mk(op):
    from audiolazy import ZFilter, Poly, z
    fl = op.get("fl", "F")
    num = [conv(v, fl) for v in op["num"]]
    den = [conv(v, fl) for v in op["den"]]
    how = op.get("how", "list")
    if how == "list":
        return ZFilter(num, den)
    if how == "dict":
        return ZFilter(dict((i, v) for i, v in enumerate(num) if v != 0), dict((i, v) for i, v in enumerate(den) if v != 0))
    if how == "poly":
        return ZFilter(Poly(num), Poly(den))
    if how == "inv":
        return 1 / ZFilter(den)
    if how == "expr":
        n = ZFilter(num[:1])
        for i, v in enumerate(num[1:], 1):
            if v != 0:
                n = n + v * z ** -i
        d = ZFilter(den[:1])
        for i, v in enumerate(den[1:], 1):
            if v != 0:
                d = d + v * z ** -i
        return n / d
    raise ValueError("how " + how)


def _drain_il(g1, g2):
    """two generators alive at once, advanced in turns"""
    from audiolazy.lazy_lpc import ParCorError
    outs = [[], []]
    raised = [False, False]
    errs = [None, None]
    live = [g1, g2]
    while any(g is not None for g in live):
        for j in (0, 1):
            if live[j] is None:
                continue
            try:
                outs[j].append(next(live[j]))
            except StopIteration:
                live[j] = None
            except ParCorError:
                raised[j] = True
                live[j] = None
            except Exception as ex:
                errs[j] = err_kind(ex)
                live[j] = None
    return [{"err": e} if e else {"ks": encl(o), "raised": r, "float": any(isinstance(k, float) for k in o)}
            for o, r, e in zip(outs, raised, errs)]


def impl_here(c):
    from collections import deque
    from audiolazy import ZFilter, Poly, parcor, parcor_stable, levinson_durbin, CascadeFilter
    from audiolazy.lazy_lpc import ParCorError
    c11 = _c11()
    filts, steps, robjs = [], [], {}
    for n, op in enumerate(c["ops"]):
        k = op["op"]
        o = {}
        try:
            if k == "mk":
                f = _mk(op)
                o["fresh"] = _fresh(f, filts)
                filts.append(f)
            elif k == "lev":
                fl = op.get("fl", "F")
                if "rsame" in op:
                    r = robjs[op["rsame"]]
                else:
                    r = [conv(v, fl) for v in op["r"]]
                    cont = op.get("cont", "list")
                    if cont == "tuple":
                        r = tuple(r)
                    elif cont == "deque":
                        r = deque(r)
                robjs[n] = r
                before = [(type(x).__name__, enc(x)) for x in r]
                try:
                    f = levinson_durbin(r, op["order"]) if op.get("given", True) else levinson_durbin(r)
                    o["fresh"] = _fresh(f, filts)
                    o["res"] = {"a": encl(f.numerator), "error": enc(f.error), "parcor": {"err": "not called"}}
                    filts.append(f)
                except ParCorError:
                    o["res"] = {"err": "ParCorError"}
                    filts.append(None)
                after = [(type(x).__name__, enc(x)) for x in r]
                if after != before:
                    o["r_modified"] = {"before": before, "after": after}
            elif k == "setpoly":
                p = Poly([conv(v, op.get("fl", "F")) for v in op["cs"]])
                setattr(filts[op["t"]], op["part"] + "poly", p)
            elif k == "share":
                setattr(filts[op["t"]], op["part"] + "poly", getattr(filts[op["s"]], op["spart"] + "poly"))
            elif k == "set":
                getattr(filts[op["t"]], op["part"] + "poly")[op["i"]] = conv(op["v"], op.get("fl", "F"))
            elif k == "parcor":
                try:
                    o["res"] = c11._drain(parcor(filts[op["t"]]))
                except Exception as ex:
                    o["res"] = {"err": err_kind(ex)}
            elif k == "parcor_il":
                try:
                    o["res2"] = _drain_il(parcor(filts[op["t"]]), parcor(filts[op["s"]]))
                except Exception as ex:
                    o["res2"] = [{"err": err_kind(ex)}] * 2
            elif k == "stable":
                f = filts[op["t"]]
                arg = (1 / ZFilter(f.denpoly)) if op.get("via") == "inv" else f
                try:
                    o["res"] = {"stable": bool(parcor_stable(arg)), "float": _poly_obs(f.denpoly).get("nonF", True)}
                except Exception as ex:
                    o["res"] = {"err": err_kind(ex)}
            elif k == "stable_casc":
                f, g = filts[op["t"]], filts[op["s"]]
                try:
                    o["res"] = {"stable": bool(parcor_stable(CascadeFilter(f, g))),
                                "float": True in (_poly_obs(f.denpoly).get("nonF", True), _poly_obs(g.denpoly).get("nonF", True))}
                except Exception as ex:
                    o["res"] = {"err": err_kind(ex)}
            else:
                raise ValueError("unknown op " + str(k))
        except Exception as ex:
            o["err"] = err_kind(ex)
            if k in CREATES and len(filts) < sum(1 for q in c["ops"][:n + 1] if q["op"] in CREATES):
                filts.append(None)
        o["heap"] = _snapshot(filts)
        steps.append(o)
    return {"steps": steps}


# ---- isolation: every history runs in a forked child of a process that has run nothing ----------
_ISO = {"zygote": None, "failed": False, "dirty": False}


def _fresh_audiolazy():
    for k in [k for k in sys.modules if k == "audiolazy" or k.startswith("audiolazy.")]:
        del sys.modules[k]


def zygote_start():
    if _ISO["zygote"] is not None or _ISO["failed"] or os.environ.get("VERIF_C11_NOFORK"):
        return
    try:
        req_r, req_w = os.pipe()
        res_r, res_w = os.pipe()
        pid = os.fork()
    except Exception:
        _ISO["failed"] = True
        return
    if pid:
        os.close(req_r)
        os.close(res_w)
        _ISO["zygote"] = (pid, os.fdopen(req_w, "w"), os.fdopen(res_r, "r"))
        return
    try:
        os.close(req_w)
        os.close(res_r)
        if _ISO["dirty"]:
            _fresh_audiolazy()
        import warnings
        warnings.simplefilter("ignore")
        import audiolazy          # noqa: pristine; the children inherit it
        from props import c11     # noqa
        inp = os.fdopen(req_r, "r")
        while True:
            line = inp.readline()
            if not line:
                break
            child = os.fork()
            if child == 0:
                try:
                    try:
                        obs = impl_here(json.loads(line))
                        obs["isolated"] = True
                    except Exception as e:
                        import traceback
                        obs = {"err": "UNMAPPED:" + err_kind(e), "trace": traceback.format_exc()[-800:]}
                    os.write(res_w, (json.dumps(obs) + "\n").encode())
                finally:
                    os._exit(0)
            _, status = os.waitpid(child, 0)
            if status != 0:
                os.write(res_w, (json.dumps({"err": "UNMAPPED:child-died", "status": status}) + "\n").encode())
    finally:
        os._exit(0)


def mark_dirty():
    """the calling process has used the library: a zygote forked from now on must re-import it"""
    _ISO["dirty"] = True


def impl(c):
    ok, why, _ = simulate(c["ops"])
    if not ok:
        return {"invalid": why}
    zygote_start()
    z = _ISO["zygote"]
    if z is None:
        mark_dirty()
        return dict(impl_here(c), isolated=False)
    _, out, inp = z
    out.write(json.dumps(c) + "\n")
    out.flush()
    line = inp.readline()
    if not line:
        _ISO["zygote"], _ISO["failed"] = None, True
        mark_dirty()
        return dict(impl_here(c), isolated=False)
    return json.loads(line)


# ------------------------------------------------------------------------------------------------
# comparison
# ------------------------------------------------------------------------------------------------
def _cell_same(o, want):
    """impl observation of a Poly vs the Lean contents (zeros compacted on both sides)"""
    if o is None or "weird" in o:
        return False
    got = strip0(decl(o["l"]))
    want = decl(want)
    if o.get("nonF"):
        return close_list(got, want, TOL)
    return got == want


def _loose_lev(d_alone):
    """a levinson_durbin result that the single-call comparison does not judge either (float, ill conditioned)"""
    c11 = _c11()
    m = d_alone.get("model", {})
    if "err" in m:
        return False
    ks = decl(m["ks"])
    return any(abs(1 - k * k) < F(1, 20) for k in ks) or c11._float_err(ks[::-1]) > c11.TOL / 10


def problems(c, io, drv):
    """-> list of (kind, tag, detail); tag = signature of the failure"""
    c11 = _c11()
    ops = c["ops"]
    if "invalid" in io:
        return []
    if "steps" not in io or len(io["steps"]) != len(ops):
        return [("model", "hist:observation", "impl observation failed: %r" % (str(io)[:300],)),
                ("spec", "hist:observation", "impl observation failed")]
    ok, why, trace = simulate(ops)
    dsteps = drv["steps"]
    _, where = expand(ops)
    out = []
    loose = set()          # cells whose float contents are too ill conditioned to be compared
    notes = io["compared"] = []
    for n, (op, o, idx) in enumerate(zip(ops, io["steps"], where)):
        k = op["op"]
        o["heap_before"] = io["steps"][n - 1]["heap"] if n else []
        d = dsteps[idx[-1]]
        tr = trace[n]
        me = "step #%d `%s`" % (n + 1, describe({"ops": [dict(op)]}) if k not in CREATES else describe(c, n + 1).split("; ")[-1])

        def cells_of(t):
            return tr["filts"][t]

        if "err" in o:
            out.append(("model", "hist:%s:%s" % (k, o["err"]), "%s raised %s" % (me, o["err"])))
            out.append(("spec", "hist:%s:%s" % (k, o["err"]), "%s raised %s" % (me, o["err"])))
            break
        # ---- the call itself, against the same call taken alone on the current contents ----------
        if k in ("parcor", "parcor_il"):
            subs = [(op["t"], o.get("res"), dsteps[idx[0]])] if k == "parcor" else \
                   [(op["t"], o["res2"][0], dsteps[idx[0]]), (op["s"], o["res2"][1], dsteps[idx[1]])]
            for t, res, dd in subs:
                if cells_of(t)[0] in loose:
                    notes.append("parcor on ill conditioned levinson result: not compared")
                    continue
                res = dict(res)
                sub = {"entry": "parcor", "machine": bool((o["heap_before"][t] or {}).get("num", {}).get("nonF", True))}
                for kind, detail in c11.compare(sub, res, dd["alone"]):
                    out.append((kind, "hist:parcor:wrong-coefficients",
                                "%s on f%d (now %s / %s) differs from the same call taken alone: %s" % (
                                    me, t, dd["heap"][t]["num"], dd["heap"][t]["den"], detail[:300])))
                notes.append("parcor " + res.get("compared", "error branch"))
        elif k in ("stable", "stable_casc"):
            ts = [op["t"]] + ([op["s"]] if k == "stable_casc" else [])
            if any(cells_of(t)[1] in loose for t in ts):
                notes.append("stable on ill conditioned contents: not compared")
            else:
                res = dict(o["res"])
                if "err" not in res:
                    sk = decl(d["alone"]["ks"]["ks"])
                    # Poly's float zero: a reflection coefficient that is exactly zero is yielded as 0.
                    # and every later step runs in floats
                    if any(x == 0 for x in sk[:-1]):
                        res["float"] = True
                for kind, detail in c11.compare({"entry": "stable_den"}, res, d["alone"]):
                    dens = " * ".join(str(d["heap"][t]["den"]) for t in ts)
                    out.append((kind, "hist:%s:%s-but-poles-%s" % (k, res.get("stable", res.get("err")),
                                                                   "inside" if d["alone"]["spec"] else "not-inside"),
                                "%s with current denominator %s differs from the same call taken alone: %s" % (
                                    me, dens, detail[:300])))
                notes.append("stable " + res.get("compared", "error branch"))
        elif k == "lev":
            res = dict(o["res"])
            for kind, detail in c11.compare({"entry": "levinson"}, res, d["alone"]):
                out.append((kind, "hist:lev:reflection-or-error", "%s differs from the same call taken alone: %s" % (me, detail[:300])))
            notes.append("lev " + res.get("compared", "error branch"))
            if "err" not in res and _loose_lev(d["alone"]):
                loose.add(tr["filts"][-1][0])
            if o.get("r_modified"):
                out.append(("spec", "hist:lev:argument-modified", "%s modified the caller's autocorrelation object: %r" % (me, o["r_modified"])))
            if o.get("fresh"):
                out.append(("spec", "hist:lev:not-fresh", "%s: %s" % (me, o["fresh"])))
        elif k == "mk":
            if o.get("fresh"):
                out.append(("model", "hist:mk:not-fresh", "%s: %s" % (me, o["fresh"])))
        # ---- the whole heap after the step --------------------------------------------------------
        target = op.get("t") if k in ("set", "setpoly", "share") else (len(tr["filts"]) - 1 if k in CREATES else None)
        touched = set()
        if k == "set":
            touched.add(tr["filts"][op["t"]][PARTS.index(op["part"])])
        for t, (got, want, cl) in enumerate(zip(o["heap"], d["heap"], tr["filts"])):
            if (got is None) != (want is None):
                out.append(("model", "hist:%s:liveness" % k, "%s: filter f%d %s in the real code, %s in the model" % (
                    me, t, "missing" if got is None else "exists", "missing" if want is None else "exists")))
                continue
            if want is None:
                continue
            for pi, part in enumerate(PARTS):
                if cl[pi] in loose:
                    continue
                if not _cell_same(got[part], want[part]):
                    mine = (t == target) or (cl[pi] in touched)
                    if k in ("parcor", "parcor_il", "stable", "stable_casc"):
                        kind, tag, what = "spec", "hist:%s:argument-modified" % k, "a query modified"
                    elif k == "lev" and not mine:
                        kind, tag, what = "spec", "hist:lev:modified-other-object", "levinson_durbin modified the earlier"
                    elif mine:
                        kind, tag, what = "model", "hist:%s:contents" % k, "unexpected contents of the edited / created"
                    else:
                        kind, tag, what = "model", "hist:%s:modified-other-object" % k, "the edit changed the unrelated"
                    out.append((kind, tag, "%s: %s f%d.%spoly: %s, expected %s" % (
                        me, what, t, part, got[part].get("l", got[part]), want[part])))
        if out:
            break
    if out:
        first = out[0]
        out[0] = (first[0], first[1], "history [%s]: %s" % (describe(c), first[2]))
    return out


def compare(c, io, drv):
    return [(k, d) for k, _, d in problems(c, io, drv)]


def classify(c, io, drv):
    ps = problems(c, io, drv)
    for k, tag, _ in ps:
        if k == "spec":
            return tag
    return ps[0][1] if ps else "hist:none"


# ------------------------------------------------------------------------------------------------
# generation
# ------------------------------------------------------------------------------------------------
def _ks_well(rng, n, den=None):
    """well conditioned reflection coefficients (|k| <= 3/4), non-zero last"""
    q = den or rng.choice([4, 5, 8, 10])
    lim = (3 * q) // 4
    ks = [F(rng.randint(-lim, lim), q) for _ in range(n)]
    while n and ks[-1] == 0:
        ks[-1] = F(rng.randint(1, lim), q) * rng.choice([1, -1])
    return ks


def _ks_any(rng, n):
    c11 = _c11()
    ks = [c11.rk(rng) for _ in range(n)]
    while n and ks[-1] == 0:
        ks[-1] = c11.rk(rng)
    return ks


def _fl_for(rng, vals, prefer=None):
    """a flavour able to hold the values exactly"""
    opts = ["F"]
    if all(is_float_exact(v) for v in vals):
        opts.append("float")
    if all(F(v).denominator == 1 for v in vals):
        opts.append("int")
    if prefer in opts:
        return prefer
    return rng.choice(opts)


def _to_ints(den):
    from math import gcd
    m = 1
    for x in den:
        m = m * x.denominator // gcd(m, x.denominator)
    return [x * m for x in den]


def _edit_ops(rng, t, part, old_len, new, fl="F", style=None):
    """ops that turn the coefficient list of f<t>.<part> (old_len coefficients) into `new`"""
    style = style or rng.choice(["items", "items", "items_shuffled", "setpoly"])
    if style == "setpoly":
        return [{"op": "setpoly", "t": t, "part": part, "cs": encl(new), "fl": fl}]
    idx = list(range(1, max(old_len, len(new))))
    if new[0] != 1 or rng.random() < 0.2:
        idx = [0] + idx
    if style == "items_shuffled":
        rng.shuffle(idx)
        if 0 in idx:                 # the leading coefficient first: it must never be left zero
            idx.remove(0)
            idx = [0] + idx
    return [{"op": "set", "t": t, "part": part, "i": i, "v": enc(new[i] if i < len(new) else F(0)), "fl": fl} for i in idx]


def _mkop(num, den, fl="F", how="list"):
    return {"op": "mk", "num": encl(num), "den": encl(den), "fl": fl, "how": how}


def _lev(r, order=None, fl="F", cont="list", given=None, rsame=None):
    o = {"op": "lev", "r": encl(r), "order": len(r) - 1 if order is None else order,
         "given": (order is not None) if given is None else given, "fl": fl, "cont": cont}
    if rsame is not None:
        o["rsame"] = rsame
    return o


def _poles(rng, where, dyadic):
    """(reals, pairs) with every pole inside except as `where` says ("in", "on", "out")"""
    c11 = _c11()
    q = 8 if dyadic else rng.choice([8, 10, 20])
    nr = rng.choice([0, 1, 1, 2, 3])
    npair = rng.choice([0, 0, 1, 1, 2]) if not dyadic else rng.choice([0, 0, 1])
    if nr + npair == 0:
        nr = 1
    reals = [F(rng.randint(-q + 1, q - 1), q) for _ in range(nr)]
    if dyadic:
        pairs = [rng.choice([(F(0), F(1, 2)), (F(1, 2), F(1, 2)), (F(-1, 4), F(3, 4)), (F(1, 2), F(-1, 4))]) for _ in range(npair)]
    else:
        pairs = [rng.choice(c11.IN_PAIR) for _ in range(npair)]
    if where == "on":
        t = rng.random()
        if t < 0.4:
            reals.append(F(1))
        elif t < 0.8:
            reals.append(F(-1))
        else:
            pairs.append((F(0), F(1)) if dyadic else rng.choice(c11.ON_PAIR))
    elif where == "out":
        if rng.random() < 0.6 or dyadic:
            reals.append(rng.choice([F(2), F(-3, 2), F(5, 4), F(-9, 8), F(-4)]))
        else:
            pairs.append(rng.choice(c11.OUT_PAIR))
    rng.shuffle(reals)
    return reals, pairs


def _den(rng, where, dyadic=False, gain=None):
    c11 = _c11()
    reals, pairs = _poles(rng, where, dyadic)
    g = gain if gain is not None else F(1)
    return c11.from_poles(g, reals, pairs)


def _flipping_den(rng, tries=40):
    """a critical dyadic denominator for which binary64 step-down says `stable`"""
    den = None
    for _ in range(tries):
        den = _den(rng, "on", dyadic=True)
        if len(den) > 2 and float_stepdown_verdict(den):
            return den, True
    return den, False


HOWS = ["list", "list", "list", "dict", "poly", "expr"]


def t_edit_levinson(rng, long=0):
    """f = levinson_durbin(r); edited in place; parcor(f) must be about the CURRENT coefficients"""
    n0 = long or rng.choice([1, 2, 2, 3, 3, 4, 5])
    if long:
        ks0 = [F(0)] * n0
        for i in rng.sample(range(n0), 4):
            ks0[i] = F(rng.randint(-5, 5) or 1, 8)
        ks0[-1] = F(rng.choice([-3, -1, 1, 3]), 8)
    else:
        ks0 = _ks_well(rng, n0, rng.choice([4, 8, 10]))
    c11 = _c11()
    r = c11.acorr_from_ks(ks0, rng.choice([F(1), F(2), F(3), F(5, 2)]))
    fl = _fl_for(rng, r) if rng.random() < 0.5 else "F"
    if fl == "F" and rng.random() < 0.15:
        r = _to_ints(r)
        fl = "int"
    ops = [_lev(r, None if rng.random() < 0.6 else n0, fl, rng.choice(["list", "list", "tuple", "deque"]))]
    if rng.random() < 0.6:
        ops.append({"op": "parcor", "t": 0})
    rounds = rng.choice([1, 1, 2])
    cur = n0 + 1
    for _ in range(rounds):
        n1 = max(1, n0 + rng.choice([-1, 0, 0, 0, 1, 2])) if not long else n0 + rng.choice([0, 1])
        ks1 = _ks_any(rng, n1) if rng.random() < 0.35 and not long else _ks_well(rng, n1)
        if long:
            ks1 = [k if rng.random() < 0.3 else F(0) for k in ks1[:-1]] + [ks1[-1]]
        new = c11.step_up(ks1)
        g = F(1)
        if rng.random() < 0.2:
            g = rng.choice([F(2), F(-1), F(1, 3), F(-5, 2)])
            new = [g * x for x in new]
        ops += _edit_ops(rng, 0, "num", cur, new, style="setpoly" if long and rng.random() < 0.7 else None)
        cur = len(new)
        ops.append({"op": "parcor", "t": 0})
        if rng.random() < 0.25:
            ops.append({"op": "stable", "t": 0})
    if rng.random() < 0.3 and not long:
        # the filter returned by levinson_durbin given a denominator by the caller
        ops += [{"op": "setpoly", "t": 0, "part": "den", "cs": encl(_den(rng, rng.choice(["in", "on", "out"]))), "fl": "F"},
                {"op": "stable", "t": 0}]
        if rng.random() < 0.5:
            ops.append({"op": "parcor", "t": 0})
    if rng.random() < 0.35:
        ops.append(dict(_lev(r, ops[0]["order"] if ops[0]["given"] else None, fl, ops[0]["cont"]), rsame=0)
                   if rng.random() < 0.6 else _lev(r, None, "F"))
        ops.append({"op": "parcor", "t": 1})
    return ops


def t_types(rng):
    """the same denominator values asked as machine numbers and as Fractions, in both orders"""
    t = rng.random()
    if t < 0.55:
        den, flips = _flipping_den(rng)
        kind = "critical-float-flips" if flips else "critical"
    elif t < 0.7:
        den, kind = _den(rng, "on", dyadic=True), "critical"
    elif t < 0.85:
        den, kind = _den(rng, "in", dyadic=True), "inside"
    else:
        den, kind = _den(rng, "out", dyadic=True), "outside"
    mfl = rng.choice(["float", "float", "int"])
    if mfl == "int":
        den = _to_ints(den)
        m = rng.choice([1, 1, 1, 7, -3])
        den = [m * x for x in den]
        if kind.startswith("critical") and not float_stepdown_verdict(den) and rng.random() < 0.5:
            den = [F(49), F(0), F(49)]          # 49 / 49. rounds: the ints' verdict is True
    elif rng.random() < 0.3:
        g = rng.choice([F(2), F(-4), F(1, 2), F(3), F(-5, 8)])
        den = [g * x for x in den]
    near = None
    if mfl == "float" and rng.random() < 0.2:
        # nearly equal instead of equal: thirds / fifths and the binary64 numbers next to them
        c11 = _c11()
        exact = c11.from_poles(F(1), [rng.choice([F(1), F(-1)]), F(rng.randint(-2, 2), 3)], [rng.choice(c11.ON_PAIR + c11.IN_PAIR)])
        near = [F(float(x)) for x in exact]
        den = exact
    first_machine = rng.random() < 0.75
    a = _mkop([F(1)], near if near is not None else den, mfl, rng.choice(HOWS + ["inv"]))
    b = _mkop([F(1)], den, "F", rng.choice(HOWS + ["inv"]))
    objs = [a, b] if first_machine else [b, a]
    ops = []
    if rng.random() < 0.5:
        ops = [objs[0], {"op": "stable", "t": 0}, objs[1], {"op": "stable", "t": 1}]
    else:
        ops = [objs[0], objs[1], {"op": "stable", "t": 0}, {"op": "stable", "t": 1}]
    extra = rng.random()
    if extra < 0.25:
        ops.append({"op": "stable", "t": rng.choice([0, 1]), "via": "inv"})
    elif extra < 0.4:
        ops += [{"op": "parcor", "t": 0}, {"op": "stable", "t": 1}]
    elif extra < 0.5:
        ops.append({"op": "stable", "t": 0})
    return ops


def t_types_parcor(rng):
    """parcor on the same numerator values as machine numbers and as Fractions"""
    c11 = _c11()
    n = rng.choice([1, 2, 3, 4])
    t = rng.random()
    ks = _ks_well(rng, n, 8) if t < 0.5 else [rng.choice([F(1), F(-1), F(1, 2), F(-3, 4), F(0), F(2)]) for _ in range(n)]
    if ks[-1] == 0:
        ks[-1] = F(1, 2)
    num = c11.step_up(ks)
    mfl = rng.choice(["float", "int"])
    if mfl == "int":
        num = _to_ints(num)
    ops = [_mkop(num, [F(1)], mfl), _mkop(num, [F(1)], "F")]
    if rng.random() < 0.3:
        ops.reverse()
    ops += [{"op": "parcor", "t": 0}, {"op": "parcor", "t": 1}]
    if rng.random() < 0.4:
        ops.append({"op": "parcor_il", "t": 0, "s": 1})
    return ops


def t_types_lev(rng):
    """levinson_durbin on equal autocorrelation values of different types / on the same object again, the
    returned filters edited in between"""
    c11 = _c11()
    n = rng.choice([1, 2, 3, 4])
    ks = _ks_well(rng, n, 8)
    r = c11.acorr_from_ks(ks, rng.choice([F(1), F(2), F(4)]))
    ri = _to_ints(r)
    variants = [(r, "float"), (r, "F"), (ri, "int"), (ri, "F")]
    rng.shuffle(variants)
    ops, made = [], 0
    for rr, fl in variants[:rng.choice([2, 2, 3])]:
        ops.append(_lev(rr, None if rng.random() < 0.5 else n + rng.choice([0, 0, 1]), fl, rng.choice(["list", "tuple"])))
        made += 1
        if rng.random() < 0.5:
            ops.append({"op": "parcor", "t": made - 1})
        if rng.random() < 0.5:
            new = c11.step_up(_ks_well(rng, n))
            ops += _edit_ops(rng, made - 1, "num", n + 1, new)
    if rng.random() < 0.5:
        j = [i for i, o in enumerate(ops) if o["op"] == "lev"][0]
        ops.append(dict(ops[j], rsame=j))
        made += 1
    for t in range(made):
        ops.append({"op": "parcor", "t": t})
    return ops


def t_den_edit(rng):
    """the denominator of a filter edited in place between parcor_stable calls"""
    c11 = _c11()
    where0 = rng.choice(["in", "in", "on", "out"])
    d0 = _den(rng, where0, gain=rng.choice([F(1), F(1), F(2), F(-3, 7)]))
    num = [F(1)] if rng.random() < 0.6 else [F(rng.randint(1, 4)), F(rng.randint(-3, 3), 4)]
    ops = [_mkop(num, d0, "F", rng.choice(HOWS)), {"op": "stable", "t": 0}]
    cur = len(d0)
    for _ in range(rng.choice([1, 1, 2])):
        where1 = rng.choice(["in", "on", "out", "out"] if where0 == "in" else ["in", "in", "on", "out"])
        d1 = _den(rng, where1, gain=rng.choice([F(1), F(1), F(-2), F(5, 3)]))
        t = rng.random()
        if t < 0.3:
            # a single coefficient edit: whatever polynomial results (verdict from the Lean specification)
            i = rng.randrange(1, cur) if cur > 1 else 1
            ops.append({"op": "set", "t": 0, "part": "den", "i": i, "v": enc(F(rng.randint(-12, 12), rng.choice([1, 2, 4, 5]))), "fl": "F"})
        else:
            ops += _edit_ops(rng, 0, "den", cur, d1)
            cur = len(d1)
        ops.append({"op": "stable", "t": 0})
        where0 = where1
    t = rng.random()
    if t < 0.25:
        ops.append({"op": "parcor", "t": 0})                 # feedback -> ValueError, nothing changes
        ops.append({"op": "stable", "t": 0})
    elif t < 0.45:
        ops += [{"op": "setpoly", "t": 0, "part": "den", "cs": [enc(rng.choice([F(1), F(2), F(-1, 3)]))], "fl": "F"},
                {"op": "parcor", "t": 0}, {"op": "stable", "t": 0}]
    return ops


def t_alias(rng):
    """one Poly object bound to two filters (plain Python aliasing by the caller), edited through one of them"""
    d0 = _den(rng, rng.choice(["in", "in", "on"]))
    d1 = _den(rng, rng.choice(["in", "out"]))
    ops = [_mkop([F(1)], d0), _mkop([F(2), F(1)], d1),
           {"op": "share", "t": 1, "part": "den", "s": 0, "spart": "den"}]
    if rng.random() < 0.5:
        ops.append({"op": "stable", "t": 1})
    d2 = _den(rng, rng.choice(["in", "on", "out"]))
    ops += _edit_ops(rng, rng.choice([0, 1]), "den", len(d0), d2, style=rng.choice(["items", "items_shuffled"]))
    ops += [{"op": "stable", "t": 0}, {"op": "stable", "t": 1}]
    t = rng.random()
    if t < 0.4:
        ops.append({"op": "stable_casc", "t": 0, "s": 1})
    elif t < 0.7:
        # numerator of f1 := denominator object of f0; parcor(f1) needs a constant denominator
        ops += [{"op": "share", "t": 1, "part": "num", "s": 0, "spart": "den"},
                {"op": "setpoly", "t": 1, "part": "den", "cs": [1], "fl": "F"}, {"op": "parcor", "t": 1}]
        if rng.random() < 0.5:
            d3 = _den(rng, "in")
            ops += _edit_ops(rng, 0, "den", len(d2), d3, style="items") + [{"op": "parcor", "t": 1}, {"op": "stable", "t": 0}]
    return ops


def t_cascade(rng):
    a = _den(rng, rng.choice(["in", "in", "on", "out"]))
    b = _den(rng, rng.choice(["in", "in", "in", "out"]))
    fl = "F"
    ops = [_mkop([F(1)], a, fl), _mkop([F(1), F(1, 2)], b, fl), {"op": "stable_casc", "t": 0, "s": 1}]
    if rng.random() < 0.5:
        ops += _edit_ops(rng, 1, "den", len(b), _den(rng, rng.choice(["in", "on", "out"])))
        ops.append({"op": "stable_casc", "t": rng.choice([0, 1]), "s": rng.choice([0, 1])})
    return ops


def t_soup(rng):
    """random operations on up to three filters"""
    c11 = _c11()
    ops, lens = [], []          # lens[t] = [len(num), len(den)] (upper bounds)
    nf = rng.choice([1, 2, 2, 3])
    for _ in range(nf):
        if rng.random() < 0.35:
            n = rng.choice([1, 2, 3])
            r = c11.acorr_from_ks(_ks_well(rng, n, 8), F(rng.choice([1, 2])))
            ops.append(_lev(r, None, _fl_for(rng, r)))
            lens.append([n + 1, 1])
        else:
            num = c11.step_up(_ks_any(rng, rng.choice([1, 2, 3])))
            den = _den(rng, rng.choice(["in", "on", "out"])) if rng.random() < 0.6 else [rng.choice([F(1), F(2), F(-1, 2)])]
            fl = _fl_for(rng, num + den) if rng.random() < 0.3 else "F"
            ops.append(_mkop(num, den, fl, rng.choice(HOWS)))
            lens.append([len(num), len(den)])
    if rng.random() < 0.3:
        # a levinson_durbin call that raises ParCorError (zero prediction error met): its id stays unused and
        # nothing else may change
        k = rng.choice([F(1), F(-1)])
        bad = c11.acorr_from_ks([F(1, 2), k][rng.choice([0, 1]):], F(rng.choice([1, 2, 3]))) + [F(rng.randint(-2, 2))]
        ops.append(_lev(bad, None, _fl_for(rng, bad)))
    for _ in range(rng.randint(3, 9)):
        t = rng.randrange(nf)
        u = rng.random()
        if u < 0.3:
            part = rng.choice(PARTS)
            pi = PARTS.index(part)
            i = rng.randrange(0, lens[t][pi] + 1)
            v = F(rng.randint(-8, 8), rng.choice([1, 2, 4, 8]))
            if i == 0 and v == 0:
                v = F(1)
            ops.append({"op": "set", "t": t, "part": part, "i": i, "v": enc(v), "fl": _fl_for(rng, [v])})
            lens[t][pi] = max(lens[t][pi], i + 1)
        elif u < 0.4:
            part = rng.choice(PARTS)
            cs = c11.step_up(_ks_any(rng, rng.choice([0, 1, 2, 3])))
            ops.append({"op": "setpoly", "t": t, "part": part, "cs": encl(cs), "fl": _fl_for(rng, cs)})
            lens[t][PARTS.index(part)] = len(cs)
        elif u < 0.47 and nf > 1:
            s = rng.randrange(nf)
            p, q = rng.choice(PARTS), rng.choice(PARTS)
            ops.append({"op": "share", "t": t, "part": p, "s": s, "spart": q})
            m = max(lens[t][PARTS.index(p)], lens[s][PARTS.index(q)])
            lens[t][PARTS.index(p)] = lens[s][PARTS.index(q)] = m
        elif u < 0.7:
            ops.append({"op": "parcor", "t": t})
        elif u < 0.93:
            ops.append({"op": "stable", "t": t})
        elif nf > 1:
            ops.append({"op": "parcor_il", "t": t, "s": rng.randrange(nf)})
    return ops


TEMPLATES = [("edit_levinson", t_edit_levinson, 5), ("types_stable", t_types, 5), ("types_parcor", t_types_parcor, 1),
             ("types_lev", t_types_lev, 2), ("den_edit", t_den_edit, 3), ("alias", t_alias, 2), ("cascade", t_cascade, 1),
             ("soup", t_soup, 3)]


def generate(rng, tier, scale=1):
    quick = tier == "quick"
    n = (260 if quick else 3500) * scale
    bag = [t for t in TEMPLATES for _ in range(t[2])]
    cases = []
    for i in range(n):
        name, fn, _ = bag[i % len(bag)] if i < 2 * len(bag) else rng.choice(bag)
        for _ in range(20):
            ops = fn(rng)
            if simulate(ops)[0]:
                cases.append({"entry": "hist", "tmpl": name, "ops": ops})
                break
    if scale == 1:
        for order in ([32] if quick else [31, 32, 33, 64]):
            for _ in range(20):
                ops = t_edit_levinson(rng, long=order)
                if simulate(ops)[0]:
                    cases.append({"entry": "hist", "tmpl": "edit_levinson_long", "ops": ops})
                    break
    return cases


# ------------------------------------------------------------------------------------------------
# tally, shrink
# ------------------------------------------------------------------------------------------------
def nontrivial(c, io):
    ks = [o["op"] for o in c["ops"]]
    return "invalid" not in io and any(k in ("parcor", "stable", "parcor_il", "stable_casc") for k in ks)


def tally(eng, c, io):
    if "invalid" in io:
        eng.count("hist", "invalid (outside the assumptions)")
        return
    ops = c["ops"]
    eng.count("hist_template", c.get("tmpl", "corpus"))
    eng.count("hist_isolated", io.get("isolated"))
    eng.count("hist_length", min(len(ops), 16) if len(ops) <= 16 else "17+")
    for note in io.get("compared", []):
        eng.count("hist_compared", note)
    ok, _, trace = simulate(ops)
    fls = set()
    edited_before_query = shared = False
    edited = set()
    for n, op in enumerate(ops):
        k = op["op"]
        eng.count("hist_op", k)
        if "fl" in op:
            eng.count("hist_flavour", op["fl"])
            fls.add(op["fl"])
        if k == "mk":
            eng.count("hist_mk_how", op.get("how", "list"))
        if k == "lev":
            eng.count("hist_lev_container", op.get("cont", "list") + ("/same object again" if "rsame" in op else ""))
            eng.count("hist_order", "lev order %s" % (op["order"] if op["order"] < 8 else "8-31" if op["order"] < 32 else "32+"))
        if k in ("set", "setpoly", "share") and ok:
            cell = trace[n]["filts"][op["t"]][PARTS.index(op["part"])]
            edited.add(cell)
            if sum(1 for f in trace[n]["filts"] if f for x in f if x == cell) > 1:
                shared = True
        if k in ("parcor", "stable", "parcor_il", "stable_casc") and ok:
            cl = trace[n]["filts"][op["t"]]
            if cl[0] in edited or cl[1] in edited:
                edited_before_query = True
                eng.count("hist_query_on", "%s of an object edited in place%s" % (
                    k, " (levinson_durbin result)" if cl[0] in trace[n]["levcells"] else ""))
            else:
                eng.count("hist_query_on", "%s of an unedited object" % k)
    eng.count("hist_shape", ("edited-then-queried" if edited_before_query else "no edit before a query") +
              (", Poly shared by two filters" if shared else ""))
    eng.count("hist_flavours_in_one_history", "+".join(sorted(fls)) or "none")
    # equal values, different types, both queried
    sig = {}
    for op in ops:
        if op["op"] == "mk":
            sig.setdefault(json.dumps([op["num"], op["den"]]), set()).add(op.get("fl", "F"))
        if op["op"] == "lev":
            sig.setdefault(json.dumps(op["r"]), set()).add(op.get("fl", "F"))
    if any(len(v) > 1 for v in sig.values()):
        eng.count("hist_equal_values_different_types", "yes")


def _renumber(ops, removed_id):
    out = []
    for op in ops:
        o = dict(op)
        for key in ("t", "s"):
            if key in o:
                if o[key] == removed_id:
                    return None
                if o[key] > removed_id:
                    o[key] -= 1
        out.append(o)
    return out


def _drop_op(ops, i):
    """ops without #i (ids and rsame references renumbered); None when something still needs it"""
    op = ops[i]
    rest = ops[:i] + ops[i + 1:]
    if op["op"] in CREATES:
        fid = sum(1 for q in ops[:i] if q["op"] in CREATES)
        head, tail = rest[:i], _renumber(rest[i:], fid)
        if tail is None:
            return None
        rest = head + tail
    out = []
    for j, o in enumerate(rest):
        if "rsame" in o:
            o = dict(o)
            if o["rsame"] == i:
                del o["rsame"]
            elif o["rsame"] > i:
                o["rsame"] -= 1
        out.append(o)
    return out


def shrink(c):
    c11 = _c11()
    ops = c["ops"]

    def mk(new):
        return {"entry": "hist", "tmpl": c.get("tmpl", "shrunk"), "ops": new}

    def valid(new):
        return new is not None and new != ops and simulate(new)[0]

    cands = []
    # fewer operations: one at a time (last first), then pairs of adjacent ones
    for i in reversed(range(len(ops))):
        cands.append(_drop_op(ops, i))
    for i in reversed(range(len(ops) - 1)):
        a = _drop_op(ops, i + 1)
        if a is not None:
            cands.append(_drop_op(a, i))
    # plainer flavours / containers
    for i, op in enumerate(ops):
        for key, plain in (("fl", "F"), ("how", "list"), ("cont", "list"), ("via", "direct")):
            if key in op and op[key] != plain:
                cands.append(ops[:i] + [dict(op, **{key: plain})] + ops[i + 1:])
        if "rsame" in op:
            cands.append(ops[:i] + [dict((k, v) for k, v in op.items() if k != "rsame")] + ops[i + 1:])
        if op["op"] == "lev" and not op.get("given", True):
            cands.append(ops[:i] + [dict(op, given=True)] + ops[i + 1:])
        if op["op"] == "parcor_il":
            cands.append(ops[:i] + [{"op": "parcor", "t": op["t"]}, {"op": "parcor", "t": op["s"]}] + ops[i + 1:])
        if op["op"] == "stable_casc":
            cands.append(ops[:i] + [{"op": "stable", "t": op["t"]}] + ops[i + 1:])
    # every machine flavour at once
    if any(op.get("fl", "F") != "F" for op in ops):
        cands.append([dict(op, fl="F") if "fl" in op else op for op in ops])
    # shorter / simpler coefficient lists
    for i, op in enumerate(ops):
        for key in ("num", "den", "cs", "r"):
            if key in op:
                xs = decl(op[key])
                fl = op.get("fl", "F")
                if len(xs) > 1:
                    o2 = dict(op, **{key: encl(xs[:-1])})
                    if key == "r":
                        o2["order"] = min(op["order"], len(xs) - 2) if op.get("given", True) else len(xs) - 2
                    cands.append(ops[:i] + [o2] + ops[i + 1:])
                for j in range(len(xs)):
                    for y in c11._simpler(xs[j])[:3]:
                        if fl_ok([enc(y)], fl):
                            cands.append(ops[:i] + [dict(op, **{key: encl(xs[:j] + [y] + xs[j + 1:])})] + ops[i + 1:])
        if op["op"] == "lev" and op.get("given", True) and op["order"] > 1:
            cands.append(ops[:i] + [dict(op, order=op["order"] - 1)] + ops[i + 1:])
        if op["op"] == "set":
            for y in c11._simpler(dec(op["v"]))[:4]:
                if fl_ok([enc(y)], op.get("fl", "F")):
                    cands.append(ops[:i] + [dict(op, v=enc(y))] + ops[i + 1:])
    seen = set()
    for new in cands:
        if valid(new):
            # references to rsame must still point at a lev op with the same list
            key = json.dumps(new, sort_keys=True)
            if key not in seen:
                seen.add(key)
                yield mk(new)


def neighbours(c):
    for s in shrink(c):
        yield s
