"""C06, entry "hub" — the tee / thub bookkeeping (Lean machine `ALV.C06.Hub`).

Leaves are REAL library objects built the way a user builds them — `Stream(itertools.repeat(c, n))`
(finite: the countdown lives in the repeat object), `Stream(itertools.count(a, d))`,
`Stream(itertools.islice(src, n))`, `Stream(generator)`, `Stream(iter(list))`, `Stream(counting source)`,
`ControlStream` — and each is used m >= 2 times by `Poly.__mul__` / `Poly.__truediv__` / the Stream-gain
rewriting of `__call__`, or stored directly in two coefficients.  Observed: outputs (exact), how the
output ends, the pulls of every SOURCE after every single output and when the generator has ended, and
the pulls when `filt(x)` has returned (nothing asked yet).  Pull counts of an itertools object are read
off the object itself (`__length_hint__` of repeat / list_iterator, a `copy.copy` of count).
"""
import copy
import itertools as it
import operator
import warnings
from fractions import Fraction

from common import enc, err_kind
from props.c04 import val, exact

KINDS = ("src", "repeat", "count", "islice", "gen", "list", "raising", "control")


class CSrc(object):
    """counting iterator (finite; `raising`: ValueError instead of the end)"""

    def __init__(self, vals, raising=False):
        self.vals, self.pulls, self.raising = list(vals), 0, raising

    def __iter__(self):
        return self

    def __next__(self):
        if self.pulls >= len(self.vals):
            if self.raising:
                raise ValueError("coefficient source failed")
            raise StopIteration
        self.pulls += 1
        return self.vals[self.pulls - 1]

    next = __next__


def items(d, n):
    """the items source `d` delivers (a long enough prefix of an endless one)"""
    k = d["kind"]
    if k == "repeat":
        return [d["c"]] * d["n"]
    if k == "count":
        a, s = val(d["a"]), val(d["d"])
        return [enc(a + i * s) for i in range(2 * n + 4)]
    if k == "islice":
        return list(d["vals"][:d["n"]])
    if k == "control":
        return [d["v1"]] * (2 * n + 4)
    return list(d["vals"])


class Leaf(object):
    """one leaf Stream and the way to read its source's pull count"""

    def __init__(self, d):
        from audiolazy import Stream, ControlStream
        k = d["kind"]
        self.kind = k
        self.counted = True
        if k == "repeat":
            self.obj = it.repeat(val(d["c"]), d["n"])
            self.stream = Stream(self.obj)
            self.pulls = lambda: d["n"] - operator.length_hint(self.obj)
        elif k == "count":
            a, s = val(d["a"]), val(d["d"])
            self.obj = it.count(a, s)
            self.stream = Stream(self.obj)
            self.pulls = lambda: int((next(copy.copy(self.obj)) - a) / s)
        elif k == "islice":
            self.obj = CSrc([val(v) for v in d["vals"]])
            self.stream = Stream(it.islice(self.obj, d["n"]))
            self.pulls = lambda: self.obj.pulls
        elif k == "gen":
            self.obj = CSrc([val(v) for v in d["vals"]])
            self.stream = Stream(v for v in self.obj)
            self.pulls = lambda: self.obj.pulls
        elif k == "list":
            lst = [val(v) for v in d["vals"]]
            self.obj = iter(lst)
            self.stream = Stream(self.obj)
            self.pulls = lambda: len(lst) - operator.length_hint(self.obj)
        elif k == "control":
            self.stream = ControlStream(val(d["v0"]))
            self.counted = False
            self.pulls = lambda: None
        else:
            self.obj = CSrc([val(v) for v in d["vals"]], raising=(k == "raising"))
            self.stream = Stream(self.obj)
            self.pulls = lambda: self.obj.pulls


def _coef(c, leaves):
    return leaves[c["src"]].stream if isinstance(c, dict) else val(c)


def _poly(pe, leaves):
    from audiolazy import Poly
    if pe[0] == "poly":
        return Poly(dict((k, _coef(v, leaves)) for k, v in pe[1]), zero=Fraction(0))
    if pe[0] == "mul":
        return _poly(pe[1], leaves) * _poly(pe[2], leaves)
    if pe[0] == "divs":
        return _poly(pe[1], leaves) / _coef(pe[2], leaves)
    raise ValueError(pe[0])


def impl(c):
    from audiolazy import ZFilter
    obs = {}
    stage = "build"
    out, trace = [], []
    with warnings.catch_warnings():
        warnings.simplefilter("ignore")
        leaves = [Leaf(d) for d in c["srcs"]]
        pulls = lambda: [l.pulls() for l in leaves]
        try:
            filt = ZFilter(_poly(c["num"], leaves), _poly(c["den"], leaves))
            obs["at_build"] = pulls()
            stage = "call"
            res = filt([val(x) for x in c["xs"]], zero=val(c["zero"]))
            obs["at_call"] = pulls()
            for l, d in zip(leaves, c["srcs"]):
                if d["kind"] == "control":          # the value is changed between filt(x) and the first take
                    l.stream.value = val(d["v1"])
            stage = "iter"
            g = iter(res)
            while True:
                try:
                    y = next(g)
                except StopIteration:
                    break
                out.append(y)
                trace.append(pulls())
            obs["end"] = "ended"
        except Exception as e:
            obs["err"] = err_kind(e)
            obs["stage"] = stage
            obs["msg"] = str(e)[:80]
        obs["out"] = [enc(y) for y in out]
        obs["trace"] = trace
        obs["final"] = pulls()
        del leaves
    return obs


def _creq(v):
    return {"src": v["src"]} if isinstance(v, dict) else exact(v)


def _pereq(pe):
    if pe[0] == "poly":
        return ["poly", [[k, _creq(v)] for k, v in pe[1]]]
    if pe[0] == "mul":
        return ["mul", _pereq(pe[1]), _pereq(pe[2])]
    return ["divs", _pereq(pe[1]), _creq(pe[2])]


def request(c):
    n = len(c["xs"])
    return {"entry": "hub", "zero": exact(c["zero"]), "xs": [exact(x) for x in c["xs"]],
            "srcs": [{"items": [exact(v) for v in items(d, n)], "raises": d["kind"] == "raising"} for d in c["srcs"]],
            "num": _pereq(c["num"]), "den": _pereq(c["den"])}


def _used(pe):
    if pe[0] == "poly":
        return set(v["src"] for _, v in pe[1] if isinstance(v, dict))
    if pe[0] == "mul":
        return _used(pe[1]) | _used(pe[2])
    return _used(pe[1]) | (set([pe[2]["src"]]) if isinstance(pe[2], dict) else set())


def _mask(c, row):
    return [None if d["kind"] == "control" else p for d, p in zip(c["srcs"], row)]


def compare(c, io, drv):
    m = drv["model"]
    out = []
    if io.get("err") == "ZeroDivisionError":
        return []       # a zero inside a Stream gain / divisor: outside the property (ASSUMPTIONS)
    if io.get("stage") in ("build", "call"):
        return [("model", "hub: %s at %s: %s (the model builds and applies every generated shape)" % (
            io.get("err"), io["stage"], io.get("msg")))]
    if any(p for p in io.get("at_build", []) if p) or any(p for p in io.get("at_call", []) if p):
        out.append(("spec", "hub: a coefficient source is read before the first output is asked for: at build %r, "
                    "at call %r (reads at call time must be 0 for every coefficient, a0 included)" % (
                        io.get("at_build"), io.get("at_call"))))
    if io["out"] != m["out"]:
        out.append(("spec" if len(io["out"]) != len(m["out"]) else "model",
                    "hub: outputs %r, the machine gives %r" % (io["out"], m["out"])))
    want_end = "raise" if io.get("err") == "ValueError" else ("ended" if "err" not in io else io["err"])
    have_end = "raise" if m["end"] == "raise" else "ended"
    if want_end != have_end:
        out.append(("model", "hub: the output ends with %s, the machine says %s" % (want_end, m["end"])))
    tr = [_mask(c, r) for r in m["trace"]]
    if io["trace"] != tr:
        out.append(("spec", "hub: pulls per source after every output %r, the machine (every source advanced once per "
                    "output, max over its copies) gives %r" % (io["trace"], tr)))
    if io["final"] != _mask(c, m["final"]):
        out.append(("model", "hub: pulls per source at the end %r, the machine gives %r" % (io["final"], _mask(c, m["final"]))))
    # the property, stated directly: after k outputs every source has been pulled exactly k times
    # (a source stored directly in two coefficients: the assumption of the property is broken — 2k)
    if c["shape"] != "twice":
        used = _used(c["num"]) | _used(c["den"])
        for j, row in enumerate(io["trace"]):
            if any(p is not None and p != (j + 1 if k in used else 0) for k, p in enumerate(row)):
                out.append(("spec", "hub: after %d outputs the sources have been pulled %r times (every coefficient "
                            "stream is read exactly once per output sample)" % (j + 1, row)))
                break
        for j, row in enumerate(m["trace"]):
            if any(p not in (0, j + 1) for p in row):      # the statement hub_nested_reads_once_PENDING on this input
                out.append(("model", "hub: machine row %d is %r, not 0 / %d everywhere" % (j, row, j + 1)))
                break
    return out


def nontrivial(c, io):
    return bool(io.get("out")) or "err" in io


def classify(c, io, drv):
    return "hub:" + ("err-" + io["err"] if "err" in io else "mismatch")


def tally(eng, c, io):
    eng.count("entry", "hub")
    eng.count("hub_shape", c["shape"])
    for d in c["srcs"]:
        eng.count("hub_leaf", d["kind"])
    eng.count("hub_end", io.get("err", "ended") + ("/short" if len(io.get("out", [])) < len(c["xs"]) else "/full"))
    eng.count("hub_outputs", min(len(io.get("out", [])), 12))


# ---------------------------------------------------------------------------------------------
# generation
# ---------------------------------------------------------------------------------------------
VALS = ["1/1", "-1/1", "1/2", "-1/2", "2/1", "3/1", "-3/2", "2/3", "5/4", "-2/1"]
NZ = ["1/1", "-1/1", "1/2", "2/1", "3/1", "-3/2", "2/3"]
NZI = ["1/1", "-1/1", "2/1", "3/1", "-2/1", "5/1", "1/1"]     # constants stay integers (exact regime of the exec'd source)


def _leaf(rng, n, kinds=None, nonzero=False, full=False):
    k = rng.choice(kinds or ("src", "repeat", "repeat", "count", "islice", "gen", "list", "raising"))
    pool = NZ if nonzero else VALS
    ln = rng.choice([n + 2, n, max(0, n - 1), max(1, n // 2), n + 1]) if not full else n + 2
    if k == "repeat":
        return {"kind": k, "c": rng.choice(pool), "n": ln}
    if k == "count":
        return {"kind": k, "a": rng.choice(["1/1", "1/2", "2/1", "3/1", "2/3"] if nonzero else NZ),
                "d": rng.choice(["1/1", "1/2", "2/1"])}
    if k == "control":
        return {"kind": k, "v0": rng.choice(NZ), "v1": rng.choice(NZ)}
    vals = [rng.choice(pool) for _ in range(ln + (2 if k == "islice" else 0))]
    if k == "islice":
        return {"kind": k, "vals": vals, "n": ln}
    return {"kind": k, "vals": vals}


def _cpoly(rng, nterms, lo=0):
    ks = sorted(rng.sample(range(lo, lo + 4), nterms))
    return ["poly", [[k, rng.choice(NZI)] for k in ks]]


def gen_case(rng, max_len):
    n = rng.randint(0, max_len)
    xs = [rng.choice(VALS) for _ in range(n)]
    srcs = []

    def leaf(**kw):
        srcs.append(_leaf(rng, n, **kw))
        return {"src": len(srcs) - 1}

    shape = rng.choice(["g*poly", "g*poly", "poly*poly", "poly/g", "gain", "gain*", "twice", "control-gain", "mul3"])
    den = ["poly", [[0, rng.choice(NZI)]]]
    if rng.random() < 0.4:
        den[1].append([rng.randint(1, 2), leaf() if rng.random() < 0.5 else rng.choice(NZI)])
    if shape == "g*poly":
        num = ["mul", ["poly", [[0, leaf()]]], _cpoly(rng, rng.randint(2, 4))]
        if rng.random() < 0.5:
            num = ["mul", num[2], num[1]]
    elif shape == "poly*poly":
        p = ["poly", [[k, leaf() if rng.random() < 0.7 else rng.choice(NZI)] for k in range(rng.randint(2, 3))]]
        q = ["poly", [[k, leaf() if rng.random() < 0.5 else rng.choice(NZI)] for k in range(rng.randint(2, 3))]]
        num = ["mul", p, q]
    elif shape == "mul3":
        num = ["mul", ["mul", ["poly", [[0, rng.choice(NZI)], [1, leaf()]]], ["poly", [[0, leaf()], [1, rng.choice(NZI)]]]],
               ["poly", [[0, rng.choice(NZI)], [1, leaf() if rng.random() < 0.5 else rng.choice(NZI)]]]]
    elif shape == "poly/g":
        num = ["divs", _cpoly(rng, rng.randint(2, 4)), leaf(nonzero=True)]
    elif shape in ("gain", "gain*", "control-gain"):
        g = leaf(nonzero=True, kinds=("control",) if shape == "control-gain" else
                 ("src", "repeat", "repeat", "count", "islice", "gen", "list"))
        den = ["poly", [[0, g]] + [[k, leaf() if rng.random() < 0.4 else rng.choice(NZI)]
                                     for k in range(1, rng.randint(1, 3))]]
        num = _cpoly(rng, rng.randint(1, 3)) if shape != "gain*" else \
            ["mul", ["poly", [[0, leaf()]]], _cpoly(rng, 2)]
    else:  # "twice": the SAME Stream object stored directly in two coefficients
        s = leaf(kinds=("src", "repeat", "count", "list", "gen"))
        num = ["poly", [[0, s], [rng.randint(1, 2), s]] + ([[3, rng.choice(NZI)]] if rng.random() < 0.5 else [])]
    return {"entry": "hub", "shape": shape, "srcs": srcs, "num": num, "den": den, "zero": rng.choice(["0/1", "0/1", "7/2"]),
            "xs": xs}


def fixed_cases():
    x12 = ["3/1", "-1/1", "4/1", "1/1", "-5/1", "9/1", "2/1", "-6/1", "5/1", "3/1", "-5/1", "8/1"]
    cs = []
    for n in (1, 2, 3, 7):
        for m in (2, 3, 4):
            cs.append({"entry": "hub", "shape": "g*poly", "srcs": [{"kind": "repeat", "c": "1/2", "n": n}],
                       "num": ["mul", ["poly", [[0, {"src": 0}]]], ["poly", [[k, "1/1"] for k in range(m)]]],
                       "den": ["poly", [[0, "1/1"]]], "zero": "0/1", "xs": x12})
            cs.append({"entry": "hub", "shape": "poly/g", "srcs": [{"kind": "repeat", "c": "2/1", "n": n}],
                       "num": ["divs", ["poly", [[k, "1/1"] for k in range(m)]], {"src": 0}],
                       "den": ["poly", [[0, "1/1"]]], "zero": "0/1", "xs": x12})
            cs.append({"entry": "hub", "shape": "gain", "srcs": [{"kind": "repeat", "c": "2/1", "n": n}],
                       "num": ["poly", [[k, "1/1"] for k in range(m)]],
                       "den": ["poly", [[0, {"src": 0}], [1, "1/2"]]], "zero": "0/1", "xs": x12})
    cs.append({"entry": "hub", "shape": "control-gain", "srcs": [{"kind": "control", "v0": "2/1", "v1": "4/1"}],
               "num": ["poly", [[0, "1/1"]]], "den": ["poly", [[0, {"src": 0}], [1, "-1/1"]]], "zero": "0/1", "xs": x12[:5]})
    cs.append({"entry": "hub", "shape": "twice", "srcs": [{"kind": "src", "vals": [str(i) + "/1" for i in range(1, 13)]}],
               "num": ["poly", [[0, {"src": 0}], [1, {"src": 0}]]], "den": ["poly", [[0, "1/1"]]], "zero": "0/1", "xs": x12[:5]})
    return cs


def shrink(c):
    if c["xs"]:
        yield dict(c, xs=c["xs"][:-1])
        yield dict(c, xs=c["xs"][1:])
    if c["zero"] != "0/1":
        yield dict(c, zero="0/1")
    for i, d in enumerate(c["srcs"]):
        if d["kind"] in ("src", "gen", "list", "raising") and d["vals"]:
            yield dict(c, srcs=c["srcs"][:i] + [dict(d, vals=d["vals"][:-1])] + c["srcs"][i + 1:])
        if d["kind"] == "repeat" and d["n"] > 0:
            yield dict(c, srcs=c["srcs"][:i] + [dict(d, n=d["n"] - 1)] + c["srcs"][i + 1:])
        if d["kind"] not in ("repeat", "control") and d["kind"] != "src":
            vals = d.get("vals") or items(d, len(c["xs"]))
            yield dict(c, srcs=c["srcs"][:i] + [{"kind": "src", "vals": list(vals)}] + c["srcs"][i + 1:])


def neighbours(c):
    yield dict(c, xs=["3/1", "-1/1", "4/1", "1/1", "-5/1", "9/1", "2/1", "-6/1"], zero="0/1")
    for i, d in enumerate(c["srcs"]):
        if d["kind"] == "repeat":
            yield dict(c, srcs=c["srcs"][:i] + [dict(d, n=7)] + c["srcs"][i + 1:],
                       xs=["3/1", "-1/1", "4/1", "1/1", "-5/1", "9/1", "2/1", "-6/1"])
