"""C01 — operand flavours: every kind of iterator the library can hand out or accept.

The Lean model sees an iterable operand abstractly (`Py.iterable tag xs`: an iterator over these elements,
`Py.stream1 (…)` when it is a Stream).  What the REAL operand is made of is the harness' business: a leaf
node {"k": "iterable", "kind": K, "xs": [...], "inf": B?, "al": bool?} is turned into a python object here.

  finite leaf   : "xs" are the elements; `kind` says which python object delivers them
  endless leaf  : "inf" = "repeat" | "count" | "cycle" names the endless base, "xs" its DESCRIPTION
                  (repeat: [v]; count: [start] or [start, step]; cycle: the period, not empty) and `kind`
                  the wrapper put around the base ("raw" = the itertools object itself).
                  An observer that calls next() at most n times cannot tell an endless iterator from a finite
                  one with more than n + 1 elements (every next() of an operator expression asks every leaf
                  at most once), so the driver is given the first n + 2 elements (`items`).
  "al": true    : built with the lazy_itertools wrapper of the same name (`audiolazy.repeat`, `count`, `cycle`,
                  `chain`, `islice`, `imap`, `ifilter`, `izip`, `takewhile`, `tee`, ...): the value is a plain
                  `Stream`, so the driver sees `stream1(iterable)`.
"""
import itertools as it
from collections import deque, UserList
from collections.abc import Iterable

# kind -> constraint on the elements ("any", "same": all equal, "ints": consecutive ints, "ap": ints with a constant step != 1, "bytes": ints 0..255,
#         "text": 1-char strings, "hash": hashable+distinct, "tup": 1-tuples, "enum": (i, x) pairs, "none": no element)
FINITE_KINDS = {
    "list": "any", "tuple": "any", "deque": "any", "iter": "any", "gen": "any", "str": "text", "dictkeys": "hash",
    "range": "ints", "range_step": "ap",
    # itertools objects
    "repeat_n": "same", "chain": "any", "chain_star": "any", "islice": "any", "islice_count": "ints", "tee": "any",
    "takewhile": "any", "dropwhile": "any", "starmap": "any", "accumulate_first": "any", "cycle_empty": "none",
    "compress": "any", "zip_longest1": "tup",
    # builtins that are lazy iterators
    "map": "any", "filter": "any", "zip1": "tup", "enumerate": "enum", "reversed": "any", "genexp": "any",
    # buffer-like containers of small ints
    "bytes": "bytes", "bytearray": "bytes", "array": "bytes", "memoryview": "bytes",
    # user classes
    "iterclass": "any", "sizedclass": "any", "userlist": "any", "getitemclass": "any",
}
# wrappers that can be put around an endless base
INF_KINDS = ["raw", "gen", "map", "filter", "chain", "islice", "tee", "takewhile", "dropwhile", "iterclass", "genexp", "starmap"]
INF_BASES = ["repeat", "count", "cycle"]
# kinds that have a lazy_itertools wrapper (the value is a Stream)
AL_FINITE = ["repeat_n", "chain", "chain_star", "islice", "islice_count", "tee", "takewhile", "dropwhile", "starmap", "map",
             "filter", "zip1", "zip_longest1", "cycle_empty", "compress", "accumulate_first"]
AL_INF = ["raw", "map", "filter", "chain", "islice", "tee", "takewhile", "dropwhile", "starmap", "streamN"]
COUNTING = ("gen", "map", "filter", "chain", "takewhile", "genexp", "starmap")      # built over a read-counting source


def constraint(node):
    if node.get("inf"):
        return {"repeat": "same", "count": "ints", "cycle": "any"}[node["inf"]]
    return FINITE_KINDS.get(node.get("kind", "list"), "any")


def is_endless(node):
    return bool(node.get("inf"))


def is_stream_valued(node):
    return bool(node.get("al"))


def items(node, n):
    """ element encodings the model is given: all of them (finite) or the first n + 2 (endless) """
    xs = node["xs"]
    b = node.get("inf")
    if not b:
        return xs
    m = n + 2
    if b == "repeat":
        return [xs[0]] * m
    if b == "count":
        step = xs[1] if len(xs) > 1 else 1
        return [xs[0] + i * step for i in range(m)]
    if b == "cycle":
        return [xs[i % len(xs)] for i in range(m)]
    raise ValueError("unknown endless base %r" % b)


def flavour_name(node):
    """ name of the flavour for the histograms """
    k = node.get("kind", "list")
    b = node.get("inf")
    name = ("%s(%s)" % (k, b) if k != "raw" else b) if b else k
    return ("al." if node.get("al") else "") + name


class IterClass(object):
    """ a hand-written iterator """
    def __init__(self, src):
        self.src = iter(src)

    def __iter__(self):
        return self

    def __next__(self):
        return next(self.src)


class SizedClass(object):
    """ an iterable with a length that is not a sequence """
    def __init__(self, xs):
        self.xs = list(xs)

    def __iter__(self):
        return iter(self.xs)

    def __len__(self):
        return len(self.xs)


class GetItemClass(object):
    """ old-style sequence protocol AND __iter__ (so that it is an Iterable); __getitem__ must not be used """
    def __init__(self, xs):
        self.xs = list(xs)

    def __iter__(self):
        return iter(self.xs)

    def __getitem__(self, i):
        raise AssertionError("an operand is read through iter(), not through __getitem__")

    def __len__(self):
        raise AssertionError("an operand is read through iter(), not through len()")


def _ident(v):
    return v


def _true(v):
    return True


def _false(v):
    return False


def _first(a, b):
    return a


def inf_base(node, vals):
    b = node["inf"]
    if b == "repeat":
        return it.repeat(vals[0])
    if b == "count":
        return it.count(vals[0], vals[1]) if len(vals) > 1 else it.count(vals[0])
    if b == "cycle":
        return it.cycle(list(vals))
    raise ValueError(b)


def make(node, vals, al, counter=None):
    """ the real operand.  `vals`: decoded elements (finite) / decoded description (endless); `al`: the audiolazy
        package; `counter`: None or a function src(vals) -> generator counting its reads (finite kinds only) """
    kind = node.get("kind", "list")
    use_al = bool(node.get("al"))
    I = al if use_al else it           # noqa: E741   where `repeat`, `chain`, ... come from
    imap = al.imap if use_al else map
    ifilter = al.ifilter if use_al else filter
    if node.get("inf"):
        if kind == "streamN":           # Stream(a, b, c): periodic constructor
            if node["inf"] == "repeat":
                return al.Stream(vals[0])
            return al.Stream(*vals)
        if kind == "raw":
            b = node["inf"]
            if b == "repeat":
                return I.repeat(vals[0])
            if b == "count":
                return I.count(vals[0], vals[1]) if len(vals) > 1 else I.count(vals[0])
            return I.cycle(list(vals))
        base = inf_base(node, vals)
        src = base
    else:
        base = None
        src = counter(vals) if (counter is not None and kind in COUNTING) else None
    xs = vals

    def data():
        return src if src is not None else iter(xs)
    if kind == "list":
        return list(xs)
    if kind == "tuple":
        return tuple(xs)
    if kind == "deque":
        return deque(xs)
    if kind == "iter":
        return iter(xs)
    if kind == "str":
        return "".join(xs)
    if kind == "dictkeys":
        return dict((x, None) for x in xs)
    if kind == "range":
        return range(xs[0], xs[0] + len(xs)) if xs else range(0)
    if kind == "range_step":
        step = (xs[1] - xs[0]) if len(xs) > 1 else 3
        return range(xs[0], xs[0] + len(xs) * step, step) if xs else range(4, 4, 3)
    if kind == "gen":
        d = data()

        def g():
            for x in d:
                yield x
        return g()
    if kind == "genexp":
        return (x for x in data())
    if kind == "repeat_n":
        return I.repeat(xs[0] if xs else None, len(xs))
    if kind == "cycle_empty":
        return I.cycle(())
    if kind == "chain":
        if base is not None:
            return I.chain(base)
        h = len(xs) // 2
        if src is not None:
            return I.chain(src, iter(()))
        return I.chain(xs[:h], iter(xs[h:]))
    if kind == "chain_star":
        h = len(xs) // 2
        return (I.chain.star if use_al else it.chain.from_iterable)([xs[:h], (), tuple(xs[h:])])
    if kind == "islice":
        if base is not None:
            return I.islice(base, None)
        return I.islice(it.chain(xs, it.repeat("beyond the slice")), len(xs))
    if kind == "islice_count":
        return I.islice(it.count(xs[0] if xs else 0), len(xs))
    if kind == "tee":
        if use_al:
            return al.tee(data(), 1)[0]
        return it.tee(data(), 1)[0]
    if kind == "takewhile":
        return I.takewhile(_true, data())
    if kind == "dropwhile":
        return I.dropwhile(_false, data())
    if kind == "starmap":
        return I.starmap(_ident, ((x,) for x in data()))
    if kind == "accumulate_first":        # accumulate(xs, lambda a, b: b) delivers xs itself
        return (al.accumulate["itertools"] if use_al else it.accumulate)(data(), _second)
    if kind == "compress":
        return I.compress(list(xs) + ["dropped"], [1] * len(xs) + [0])
    if kind == "map":
        return imap(_ident, data())
    if kind == "filter":
        return ifilter(_true, data())
    if kind == "zip1":
        return (al.izip if use_al else zip)([x[0] for x in xs])
    if kind == "zip_longest1":
        return (al.izip.longest if use_al else it.zip_longest)([x[0] for x in xs])
    if kind == "enumerate":
        return enumerate([x[1] for x in xs], xs[0][0] if xs else 0)
    if kind == "reversed":
        return reversed(list(xs)[::-1])
    if kind == "bytes":
        return bytes(xs)
    if kind == "bytearray":
        return bytearray(xs)
    if kind == "array":
        import array
        return array.array("i", xs)
    if kind == "memoryview":
        return memoryview(bytes(xs))
    if kind == "iterclass":
        return IterClass(data())
    if kind == "sizedclass":
        return SizedClass(xs)
    if kind == "getitemclass":
        return GetItemClass(xs)
    if kind == "userlist":
        return UserList(xs)
    raise ValueError("unknown iterable kind %r" % kind)


def _second(a, b):
    return b


def render(node, elem_repr):
    """ python source of the leaf (for the replay's detail line) """
    kind = node.get("kind", "list")
    mod = "audiolazy." if node.get("al") else "itertools."
    xs = ", ".join(elem_repr(x) for x in node["xs"])
    if node.get("inf"):
        b = node["inf"]
        if kind == "streamN":
            return "Stream(%s)" % xs
        base = {"repeat": "repeat(%s)", "count": "count(%s)", "cycle": "cycle([%s])"}[b] % xs
        if kind == "raw":
            return mod + base
        base = "itertools." + base
        return {"gen": "gen_over(%s)", "genexp": "(x for x in %s)", "map": (mod if node.get("al") else "") + ("imap" if node.get("al") else "map") + "(ident, %s)",
                "filter": (mod + "ifilter" if node.get("al") else "filter") + "(true, %s)", "chain": mod + "chain(%s)",
                "islice": mod + "islice(%s, None)", "tee": (mod if node.get("al") else "itertools.") + "tee(%s, 1)[0]",
                "takewhile": mod + "takewhile(true, %s)", "dropwhile": mod + "dropwhile(false, %s)",
                "starmap": mod + "starmap(ident, ((x,) for x in %s))", "iterclass": "IterClass(%s)"}.get(kind, kind + "(%s)") % base
    n = len(node["xs"])
    first = elem_repr(node["xs"][0]) if n else "None"
    table = {
        "list": "[%s]" % xs, "tuple": "tuple([%s])" % xs, "gen": "gen_over([%s])" % xs, "genexp": "(x for x in [%s])" % xs,
        "deque": "deque([%s])" % xs, "iter": "iter([%s])" % xs, "str": "''.join([%s])" % xs, "dictkeys": "dict.fromkeys([%s])" % xs,
        "range": "range_of([%s])" % xs, "range_step": "range_of([%s])" % xs, "repeat_n": mod + "repeat(%s, %d)" % (first, n), "cycle_empty": mod + "cycle(())",
        "chain": mod + "chain([%s][:%d], iter([%s][%d:]))" % (xs, n // 2, xs, n // 2),
        "chain_star": (mod + ("chain.star" if node.get("al") else "chain.from_iterable")) + "(halves_of([%s]))" % xs,
        "islice": mod + "islice(chain([%s], repeat('beyond')), %d)" % (xs, n),
        "islice_count": mod + "islice(count(%s), %d)" % (first if n else "0", n),
        "tee": mod + "tee(iter([%s]), 1)[0]" % xs, "takewhile": mod + "takewhile(true, [%s])" % xs,
        "dropwhile": mod + "dropwhile(false, [%s])" % xs, "starmap": mod + "starmap(ident, ((x,) for x in [%s]))" % xs,
        "accumulate_first": mod + "accumulate([%s], second)" % xs, "compress": mod + "compress([%s] + ['dropped'], ones_then_zero)" % xs,
        "map": ("audiolazy.imap" if node.get("al") else "map") + "(ident, [%s])" % xs,
        "filter": ("audiolazy.ifilter" if node.get("al") else "filter") + "(true, [%s])" % xs,
        "zip1": ("audiolazy.izip" if node.get("al") else "zip") + "(firsts_of([%s]))" % xs,
        "zip_longest1": ("audiolazy.izip.longest" if node.get("al") else "itertools.zip_longest") + "(firsts_of([%s]))" % xs,
        "enumerate": "enumerate_giving([%s])" % xs, "reversed": "reversed([%s][::-1])" % xs,
        "bytes": "bytes([%s])" % xs, "bytearray": "bytearray([%s])" % xs, "array": "array('i', [%s])" % xs,
        "memoryview": "memoryview(bytes([%s]))" % xs, "iterclass": "IterClass([%s])" % xs, "sizedclass": "SizedClass([%s])" % xs,
        "getitemclass": "GetItemClass([%s])" % xs, "userlist": "UserList([%s])" % xs,
    }
    return table.get(kind, "%s([%s])" % (kind, xs))
