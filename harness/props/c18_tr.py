"""C18 — translator of the SOURCE of the anchored functions into Lean (`lean/ALV/Gen/C18Src.lean`).

Reads `audiolazy/lazy_wav.py` and `audiolazy/lazy_io.py` of the repo under test with `ast` (nothing is imported from the
repo) and emits, in the vocabulary of `ALV/Model/C18Src.lean` + `Model/C18.lean` + `Model/C18Call.lean`:

  WavStream._unpackers             deep     program values `List (Nat x IExp)` (keys sorted)
  WavStream.__init__ (signature)   data     parameter names, the default of `keep`
  WavStream.__init__ (body)        shallow  `wavStream` (header attributes, the chain of the three generators)
  block_reader                     shallow  `blockReader := readLoop N` (loop shape checked statement by statement)
  sample_reader                    shallow  `sampleReader` (`for ... yield a; yield b` -> flatMap, slices -> take / drop)
  data_generator                   shallow  `dataGenerator` (table lookup, keep branch, `d`, the 8-bit override, division)
  chunks.struct                    shallow  `chunksStruct` (format string as parts, Struct, blocks, pack)
  chunks.array (order / swap)      data + shallow  `arrayOrderTable`, `arraySwap`
  chunks.array (the rest)          shallow  `arrayExport` (the `export()` closure), `arrayStep` (one pass of the fill loop),
                                            `arrayTail` (end-of-input test, pad loop, last chunk), `chunksArray` (working
                                            array as a cell list, `forGen` over the input)

`Props/C18.lean` proves `src_*_is_model`: each of these IS the hand-written model function.  Whatever does not fit the
small grammar below is a TranslationError (= broken obligation), never a silent skip.  Nothing of `chunks.array` is
pinned by a hash any more: `src_chunks_array_is_model` ties the whole body to the model's `chunksArrayPy`."""
import ast
import os
import re
import subprocess

import common

GEN_REL = os.path.join("ALV", "Gen", "C18Src.lean")

TRANSLATED = [
    ("lazy_wav.WavStream._unpackers", "deep: IExp program values; src_unpackers_is_model (decide) + unpacker_eq_table"),
    ("lazy_wav.WavStream.__init__ signature", "data: parameter names and the default of keep; src_init_signature_is_model"),
    ("lazy_wav.WavStream.__init__ body", "shallow: header attributes and the generator chain; src_wavstream_is_model"),
    ("lazy_wav.WavStream.__init__.block_reader", "shallow: loop shape checked, readframes(N) -> readLoop N; src_block_reader_is_model"),
    ("lazy_wav.WavStream.__init__.sample_reader", "shallow: flatMap of the yields; src_sample_reader_is_model"),
    ("lazy_wav.WavStream.__init__.data_generator", "shallow: lookup / keep / d / 8-bit override / division; src_data_generator_is_model"),
    ("lazy_io.chunks.struct", "shallow: format string as parts, Struct, blocks, pack; src_chunks_struct_is_model"),
    ("lazy_io.chunks.array: order table and swap", "data + shallow: src_array_order_is_model (decide), src_array_swap_is_model"),
    ("lazy_io.chunks.array: working array, export(), the fill loop, the pad loop and the last partial chunk",
     "shallow: arrayExport / arrayStep / arrayTail / chunksArray over a cell list with set (forGen / forRange of Model/C18Src); "
     "src_chunks_array_is_model, src_array_export_is_model; corollary src_chunks_array_eq_src_chunks_struct"),
]
NOT_TRANSLATED = [
    ("lazy_io.chunks.*: `if size is None: size = chunks.size` and the parameter defaults",
     "recognised and required by the translator but mapped to nothing: the model takes the resolved size; defaults are tied by "
     "the call-shape cases of the differential tie"),
    ("try/finally of block_reader as a state machine (wavNext / wavTake, Model/C18Res)",
     "the translator checks that the finally clause is exactly `w.close()`; the laziness / life-cycle machines stay hand-written"),
    ("struct.Struct / array.array / wave.Wave_read themselves", "standard library: vocabulary of the model, not source of the repo"),
]

LEAN_RESERVED = set("at in from end do then fun let if else match with open def theorem where have show by "
                    "instance structure inductive namespace section variable import mut for return "
                    "native f data bits keep channels samples frames rate".split())


class TranslationError(Exception):
    pass


def fail(msg, node=None):
    where = " (line %d)" % node.lineno if node is not None and hasattr(node, "lineno") else ""
    raise TranslationError(msg + where)


def _dump(x):
    if isinstance(x, list):
        return "[" + ", ".join(ast.dump(s) for s in x) + "]"
    return ast.dump(x)


def _same_stmts(stmts, src, what):
    """the statements are exactly the ones of `src` (whitespace / comments do not matter)"""
    if _dump(stmts) != _dump(ast.parse(src).body):
        fail("%s is not of the expected shape:\n%s" % (what, src), stmts[0] if stmts else None)


def _body(fn):
    """statements of a function without its docstring"""
    b = fn.body
    if b and isinstance(b[0], ast.Expr) and isinstance(b[0].value, ast.Constant) and isinstance(b[0].value.value, str):
        b = b[1:]
    return b


def _ident(name, node=None):
    if not re.fullmatch(r"[a-z_][a-z0-9_]*", name) or name in LEAN_RESERVED:
        fail("local name %r cannot be used as a Lean binder" % (name,), node)
    return name


def _name(node, what):
    if not isinstance(node, ast.Name):
        fail("%s: a plain name expected" % what, node)
    return node.id


def _int(node, what, lo=None):
    if not (isinstance(node, ast.Constant) and type(node.value) is int) or (lo is not None and node.value < lo):
        fail("%s: an int literal expected" % what, node)
    return node.value


def _paren(s):
    return s if re.fullmatch(r"[A-Za-z0-9_.]+", s) else "(" + s + ")"


# ------------------------------------------------------------------------------------------------
# int expressions of Python ints that are natural numbers here (bits, channels, sample widths)
# ------------------------------------------------------------------------------------------------
NOPS = {ast.Mult: "*", ast.Add: "+", ast.Sub: "-", ast.FloorDiv: "/", ast.LShift: "<<<"}
COPS = {ast.Eq: "=", ast.NotEq: "≠", ast.Lt: "<", ast.LtE: "≤", ast.Gt: ">", ast.GtE: "≥"}


def nexp(node, env):
    """env: Python spelling (ast.dump of the atom) -> Lean term; local names -> themselves"""
    if isinstance(node, ast.Constant) and type(node.value) is int and node.value >= 0:
        return str(node.value)
    k = ast.dump(node)
    if k in env:
        return env[k]
    if isinstance(node, ast.BinOp) and type(node.op) in NOPS:
        return "%s %s %s" % (_paren(nexp(node.left, env)), NOPS[type(node.op)], _paren(nexp(node.right, env)))
    fail("integer expression not understood: %s" % ast.unparse(node), node)


def cexp(node, env):
    if isinstance(node, ast.Compare) and len(node.ops) == 1 and type(node.ops[0]) in COPS:
        return "%s %s %s" % (_paren(nexp(node.left, env)), COPS[type(node.ops[0])], _paren(nexp(node.comparators[0], env)))
    fail("comparison not understood: %s" % ast.unparse(node), node)


def _atom(src):
    return ast.dump(ast.parse(src, mode="eval").body)


# ------------------------------------------------------------------------------------------------
# lambdas of the _unpackers table -> IExp programs
# ------------------------------------------------------------------------------------------------
PFX = {"<": ".lt", ">": ".gt", "!": ".bang"}
IFMT = {"b": ".b", "h": ".h", "i": ".i"}


def _struct_fmt(node):
    if not (isinstance(node, ast.Constant) and isinstance(node.value, str)):
        fail("Struct(...): a string literal expected", node)
    s = node.value
    if len(s) != 2 or s[0] not in PFX or s[1] not in IFMT:
        fail("struct format %r is outside the vocabulary (explicit byte order + one of b h i)" % (s,), node)
    return PFX[s[0]], IFMT[s[1]]


def bexp(node, env):
    if isinstance(node, ast.Name) and env.get(node.id) == "v":
        return ".v"
    if isinstance(node, ast.Constant) and isinstance(node.value, bytes):
        return "(.lit [%s])" % ", ".join(str(b) for b in node.value)
    if isinstance(node, ast.BinOp) and isinstance(node.op, ast.Add):
        return "(.cat %s %s)" % (bexp(node.left, env), bexp(node.right, env))
    fail("bytes expression not understood: %s" % ast.unparse(node), node)


def iexp(node, env):
    """-> Lean IExp term with outer parentheses"""
    if (isinstance(node, ast.Subscript) and isinstance(node.value, ast.Call) and isinstance(node.value.func, ast.Name)
            and isinstance(env.get(node.value.func.id), tuple) and len(node.value.args) == 1 and not node.value.keywords):
        if _int(node.slice, "index of the unpacked tuple") != 0:
            fail("only item 0 of the unpacked tuple is in the vocabulary", node)
        pfx, fmt = env[node.value.func.id]
        return "(.unpack0 %s %s %s)" % (pfx, fmt, bexp(node.value.args[0], env))
    if isinstance(node, ast.Call) and isinstance(node.func, ast.Name) and node.func.id == "ord" and "ord" not in env \
            and len(node.args) == 1 and not node.keywords:
        return "(.ord %s)" % bexp(node.args[0], env)
    if isinstance(node, ast.BinOp) and isinstance(node.op, ast.RShift):
        return "(.shr %s %d)" % (iexp(node.left, env), _int(node.right, "shift count", 0))
    if isinstance(node, ast.BinOp) and isinstance(node.op, ast.Sub):
        return "(.sub %s %d)" % (iexp(node.left, env), _int(node.right, "subtrahend", 0))
    fail("int expression of a lambda not understood: %s" % ast.unparse(node), node)


def _lambda1(node, what):
    if not (isinstance(node, ast.Lambda) and len(node.args.args) == 1 and not node.args.defaults and not node.args.vararg
            and not node.args.kwarg and not node.args.kwonlyargs):
        fail("%s: a one-parameter lambda expected" % what, node)
    return node.args.args[0].arg, node.body


def unpacker_prog(node):
    """one value of the table, or the override lambda"""
    if isinstance(node, ast.Name) and node.id == "ord":
        return "(.ord .v)"
    if isinstance(node, ast.Lambda):
        v, body = _lambda1(node, "unpacker")
        return iexp(body, {v: "v"})
    if isinstance(node, ast.Call) and len(node.args) == 1 and not node.keywords:     # (lambda a: lambda v: E)(Struct(F).unpack)
        a, inner = _lambda1(node.func, "unpacker")
        v, body = _lambda1(inner, "unpacker")
        arg = node.args[0]
        if not (isinstance(arg, ast.Attribute) and arg.attr == "unpack" and isinstance(arg.value, ast.Call)
                and isinstance(arg.value.func, ast.Name) and arg.value.func.id == "Struct" and len(arg.value.args) == 1
                and not arg.value.keywords):
            fail("the argument of the outer lambda is not Struct(<format>).unpack", arg)
        if a == v:
            fail("the two lambdas use the same parameter name", node)
        return iexp(body, {a: _struct_fmt(arg.value.args[0]), v: "v"})
    fail("table value not understood: %s" % ast.unparse(node), node)


def _strip(t):
    return t[1:-1] if t.startswith("(") and t.endswith(")") else t


# ------------------------------------------------------------------------------------------------
# lazy_wav.py
# ------------------------------------------------------------------------------------------------
def _find(body, kind, name, what):
    for n in body:
        if isinstance(n, kind) and getattr(n, "name", None) == name:
            return n
    fail("%s not found" % what)


def tr_wav(text):
    tree = ast.parse(text)
    cls = _find(tree.body, ast.ClassDef, "WavStream", "class WavStream")
    out = []
    # --- _unpackers
    tbl = [n for n in cls.body if isinstance(n, ast.Assign) and len(n.targets) == 1 and isinstance(n.targets[0], ast.Name)
           and n.targets[0].id == "_unpackers"]
    if len(tbl) != 1 or not isinstance(tbl[0].value, ast.Dict):
        fail("WavStream._unpackers: one dict literal expected")
    rows = {}
    for k, v in zip(tbl[0].value.keys, tbl[0].value.values):
        key = _int(k, "key of _unpackers", 0)
        if key in rows:
            fail("duplicate key %d in _unpackers" % key, k)
        rows[key] = _strip(unpacker_prog(v))
    out += ["/-- `WavStream._unpackers` (keys sorted) -/", "def unpackers : List (Nat × IExp) := ["]
    out.append(",\n".join("  (%d, %s)" % (k, rows[k]) for k in sorted(rows)) + "]")
    # --- __init__: signature
    init = _find(cls.body, ast.FunctionDef, "__init__", "WavStream.__init__")
    a = init.args
    if a.vararg or a.kwarg or a.kwonlyargs or getattr(a, "posonlyargs", None) or init.decorator_list:
        fail("__init__: *args / **kwargs / keyword-only / positional-only parameters / decorators", init)
    names = [p.arg for p in a.args]
    if len(names) != 3 or names[0] != "self" or len(a.defaults) != 1:
        fail("__init__: (self, <file>, <keep>=<default>) expected", init)
    wf, keep = names[1], names[2]
    dv = a.defaults[0]
    if isinstance(dv, ast.Constant) and isinstance(dv.value, bool):
        dflt = ".bool %s" % ("true" if dv.value else "false")
    elif isinstance(dv, ast.Constant) and dv.value is None:
        dflt = ".none"
    elif isinstance(dv, ast.Constant) and type(dv.value) is int:
        dflt = ".int (%d)" % dv.value
    else:
        fail("__init__: default of %s not understood" % keep, dv)
    for n in names[1:]:
        if not re.fullmatch(r"[A-Za-z_][A-Za-z0-9_]*", n):
            fail("parameter name %r" % n, init)
    out += ["", "/-- `def __init__(self, %s, %s=%s)` -/" % (wf, keep, ast.unparse(dv)),
            "def initParams : List String := [%s]" % ", ".join('"%s"' % n for n in names[1:]),
            "def keepDefault : PyV := %s" % dflt]
    # --- __init__: body
    body = _body(init)
    if len(body) != 8:
        fail("__init__: 8 statements expected (open, rate, channels, bits, three readers, super().__init__), got %d" % len(body), init)
    _same_stmts(body[0:1], 'self._file = wave.open(%s, "rb")' % wf, "the opening of the file")
    henv = {_atom("self._file.getframerate()"): "f.rate", _atom("self._file.getnchannels()"): "f.channels",
            _atom("self._file.getsampwidth()"): "f.sampwidth"}
    lets, seen = [], []
    for st in body[1:4]:
        if not (isinstance(st, ast.Assign) and len(st.targets) == 1 and isinstance(st.targets[0], ast.Attribute)
                and isinstance(st.targets[0].value, ast.Name) and st.targets[0].value.id == "self"
                and st.targets[0].attr in ("rate", "channels", "bits") and st.targets[0].attr not in seen):
            fail("__init__: an assignment to self.rate / self.channels / self.bits expected", st)
        seen.append(st.targets[0].attr)
        lets.append("  let %s := %s" % (st.targets[0].attr, nexp(st.value, henv)))
    fns = body[4:7]
    for fn, nm in zip(fns, ("block_reader", "sample_reader", "data_generator")):
        if not (isinstance(fn, ast.FunctionDef) and fn.name == nm and not fn.args.args and not fn.decorator_list
                and not fn.args.vararg and not fn.args.kwarg and not fn.args.kwonlyargs):
            fail("__init__: `def %s():` expected" % nm, fn)
    _same_stmts(body[7:8], "super(WavStream, self).__init__(data_generator())", "the call of Stream.__init__")
    # --- block_reader
    b = _body(fns[0])
    try:
        w = b[0].targets[0].id
        loop = b[1].body[0].body
        el = loop[0].targets[0].id
        n = _int(loop[0].value.args[0], "readframes(n)", 1)
    except TranslationError:
        raise
    except Exception:
        fail("block_reader: `w = self._file; try: while True: el = w.readframes(n); if not el: break; yield el; finally: w.close()` expected", fns[0])
    _same_stmts(b, "%s = self._file\ntry:\n  while True:\n    %s = %s.readframes(%d)\n    if not %s:\n      break\n    yield %s\n"
                   "finally:\n  %s.close()\n" % (w, el, w, n, el, el, w), "block_reader")
    out += ["", "/-- `block_reader`: `while True: el = w.readframes(%d); if not el: break; yield el` (finally: `w.close()`) -/" % n,
            "def blockReader (fs : Nat) (data : Bytes) : List Bytes := readLoop %d fs data" % n]
    # --- sample_reader
    senv = {_atom("self.channels"): "channels", _atom("self.bits"): "bits"}
    b = _body(fns[1])
    if len(b) != 4 or not isinstance(b[0], ast.If) or b[0].orelse:
        fail("sample_reader: `if <mono>: return block_reader()`, a width, the stereo generator, its return expected", fns[1])
    mono = cexp(b[0].test, senv)
    _same_stmts(b[0].body, "return block_reader()", "the mono branch of sample_reader")
    if not (isinstance(b[1], ast.Assign) and len(b[1].targets) == 1 and isinstance(b[1].targets[0], ast.Name)):
        fail("sample_reader: `sample_width = <expr>` expected", b[1])
    sw = _ident(b[1].targets[0].id, b[1])
    swv = nexp(b[1].value, senv)
    g = b[2]
    if not (isinstance(g, ast.FunctionDef) and not g.args.args and not g.decorator_list and len(_body(g)) == 1
            and isinstance(_body(g)[0], ast.For) and not _body(g)[0].orelse):
        fail("sample_reader: a generator `def ...(): for el in block_reader(): yield ...` expected", g)
    loop = _body(g)[0]
    el = _ident(_name(loop.target, "loop variable"), loop)
    if ast.dump(loop.iter) != _atom("block_reader()"):
        fail("sample_reader: the loop must run over block_reader()", loop)
    lenv = dict(senv)
    lenv[_atom(sw)] = sw
    ys = []
    for st in loop.body:
        if not (isinstance(st, ast.Expr) and isinstance(st.value, ast.Yield) and isinstance(st.value.value, ast.Subscript)
                and ast.dump(st.value.value.value) == _atom(el) and isinstance(st.value.value.slice, ast.Slice)
                and st.value.value.slice.step is None):
            fail("sample_reader: `yield el[:k]` / `yield el[k:]` expected", st)
        sl = st.value.value.slice
        if sl.lower is None and sl.upper is not None:
            ys.append("%s.take %s" % (el, _paren(nexp(sl.upper, lenv))))
        elif sl.upper is None and sl.lower is not None:
            ys.append("%s.drop %s" % (el, _paren(nexp(sl.lower, lenv))))
        else:
            fail("sample_reader: slice with both or no bounds", st)
    if not ys:
        fail("sample_reader: no yield", loop)
    _same_stmts(b[3:4], "return %s()" % g.name, "the return of the stereo generator")
    out += ["", "/-- `sample_reader` (`frames` = what `block_reader()` yields) -/",
            "def sampleReader (channels bits : Nat) (frames : List Bytes) : List Bytes :=",
            "  if %s then frames" % mono, "  else", "    let %s := %s" % (sw, swv),
            "    frames.flatMap fun %s => [%s]" % (el, ", ".join(ys))]
    # --- data_generator
    b = _body(fns[2])
    if len(b) != 2:
        fail("data_generator: the table lookup and `if keep: ... else: ...` expected", fns[2])
    st = b[0]
    if not (isinstance(st, ast.Assign) and len(st.targets) == 1 and isinstance(st.targets[0], ast.Name)
            and isinstance(st.value, ast.Subscript) and ast.dump(st.value.value) == _atom("WavStream._unpackers")):
        fail("data_generator: `unpacker = WavStream._unpackers[<key>]` expected", st)
    up = _ident(st.targets[0].id, st)
    key = nexp(st.value.slice, senv)
    br = b[1]
    if not (isinstance(br, ast.If) and ast.dump(br.test) == _atom(keep) and len(br.body) == 1 and len(br.orelse) == 3):
        fail("data_generator: `if %s:` one loop `else:` d, the 8-bit override, one loop expected" % keep, br)

    def yield_loop(loop, what):
        if not (isinstance(loop, ast.For) and not loop.orelse and ast.dump(loop.iter) == _atom("sample_reader()")
                and len(loop.body) == 1 and isinstance(loop.body[0], ast.Expr) and isinstance(loop.body[0].value, ast.Yield)):
            fail("data_generator: `for el in sample_reader(): yield ...` expected in the %s branch" % what, loop)
        return _ident(_name(loop.target, "loop variable"), loop), loop.body[0].value.value

    el1, y1 = yield_loop(br.body[0], "keep")
    if ast.dump(y1) != _atom("%s(%s)" % (up, el1)):
        fail("data_generator: `yield %s(%s)` expected" % (up, el1), y1)
    dst, ov, l2 = br.orelse
    if not (isinstance(dst, ast.Assign) and len(dst.targets) == 1 and isinstance(dst.targets[0], ast.Name)):
        fail("data_generator: `d = <expr>` expected", dst)
    d = _ident(dst.targets[0].id, dst)
    dv = nexp(dst.value, senv)
    if not (isinstance(ov, ast.If) and not ov.orelse and len(ov.body) == 1 and isinstance(ov.body[0], ast.Assign)
            and len(ov.body[0].targets) == 1 and ast.dump(ov.body[0].targets[0]) == ast.dump(st.targets[0])):
        fail("data_generator: `if <cond>: %s = lambda v: ...` expected" % up, ov)
    ocond = cexp(ov.test, senv)
    oprog = _strip(unpacker_prog(ov.body[0].value))
    if not isinstance(ov.body[0].value, ast.Lambda):
        fail("data_generator: the override must be a lambda", ov)
    el2, y2 = yield_loop(l2, "normalising")
    if ast.dump(y2) != _atom("%s(%s) / %s" % (up, el2, d)):
        fail("data_generator: `yield %s(%s) / %s` expected" % (up, el2, d), y2)
    out += ["", "section", "variable {K : Type} [IntCast K] [Div K]", "",
            "/-- `data_generator` (`samples` = what `sample_reader()` yields) -/",
            "def dataGenerator (bits : Nat) (keep : Bool) (samples : List Bytes) : Gen (Sample K) WavErr :=",
            "  match lookupNat %s unpackers with" % _paren(key),
            "  | none => ⟨[], some .noUnpacker⟩",
            "  | some %s =>" % up,
            "    if keep then",
            "      genMap (fun %s => (%s.run %s).map fun n => Sample.raw n) samples" % (el1, up, el1),
            "    else",
            "      let %s := %s" % (d, dv),
            "      let %s := if %s then IExp%s else %s" % (up, ocond, oprog if oprog.startswith(".") else " " + oprog, up),
            "      genMap (fun %s => (%s.run %s).map fun n => Sample.scaled (trueDiv n %s)) samples" % (el2, up, el2, d),
            "",
            "/-- `WavStream.__init__`: the header attributes and `Stream(data_generator())`; `readframes` counts in frames of",
            "`sampwidth * channels` bytes -/",
            "def wavStream (f : WavFile) (keep : Bool) : WavObs K :="] + lets + [
            "  { rate := rate, channels := channels, bits := bits,",
            "    gen := dataGenerator bits keep (sampleReader channels bits (blockReader (f.sampwidth * f.channels) f.data)) }",
            "", "end"]
    return out


# ------------------------------------------------------------------------------------------------
# lazy_io.py
# ------------------------------------------------------------------------------------------------
def _strategy(tree, name):
    found = []
    for n in tree.body:
        if isinstance(n, ast.FunctionDef) and len(n.decorator_list) == 1:
            dd = n.decorator_list[0]
            if ast.dump(dd) == _atom('chunks.strategy("%s")' % name):
                found.append(n)
    if len(found) != 1:
        fail("one function decorated with chunks.strategy(\"%s\") expected, found %d" % (name, len(found)))
    fn = found[0]
    a = fn.args
    if a.vararg or a.kwarg or a.kwonlyargs or getattr(a, "posonlyargs", None) or len(a.args) != 5:
        fail("chunks.%s: five plain parameters (seq, size, dfmt, byte_order, padval) expected" % name, fn)
    return fn, [_ident(p.arg, fn) for p in a.args]


def sexp(node, kinds):
    """string expression of a struct format -> Lean `List SPart` term; kinds: name -> 'fmt' | 'pfx' | 'parts' | 'size'"""
    if isinstance(node, ast.Name) and kinds.get(node.id) == "parts":
        return node.id
    if isinstance(node, ast.Name) and kinds.get(node.id) == "fmt":
        return "[SPart.fmt %s]" % node.id
    if isinstance(node, ast.Name) and kinds.get(node.id) == "pfx":
        return "[SPart.pfx %s]" % node.id
    if (isinstance(node, ast.Call) and isinstance(node.func, ast.Name) and node.func.id == "str" and len(node.args) == 1
            and not node.keywords and isinstance(node.args[0], ast.Name) and kinds.get(node.args[0].id) == "size"):
        return "[SPart.count %s]" % node.args[0].id
    if isinstance(node, ast.BinOp) and isinstance(node.op, ast.Add):
        return "%s ++ %s" % (sexp(node.left, kinds), sexp(node.right, kinds))
    fail("format-string expression not understood: %s" % ast.unparse(node), node)


def tr_io(text):
    tree = ast.parse(text)
    out = []
    # --- chunks.struct
    fn, (seq, size, dfmt, bo, pad) = _strategy(tree, "struct")
    b = _body(fn)
    if len(b) != 5:
        fail("chunks.struct: 5 statements expected (size default, dfmt, struct_string, Struct, loop), got %d" % len(b), fn)
    _same_stmts(b[0:1], "if %s is None:\n  %s = chunks.size" % (size, size), "the default of size")
    kinds = {size: "size", dfmt: "fmt", bo: "pfx"}
    lets = []

    def assign_parts(st, what):
        if not (isinstance(st, ast.Assign) and len(st.targets) == 1 and isinstance(st.targets[0], ast.Name)):
            fail("chunks.struct: `%s = <format string>` expected" % what, st)
        nm = _ident(st.targets[0].id, st)
        if nm in (seq, size, bo, pad):
            fail("chunks.struct: %s is rebound" % nm, st)
        return nm, sexp(st.value, kinds)

    nm, v = assign_parts(b[1], "dfmt")
    lets.append("  let %s := %s" % (nm, v))
    kinds[nm] = "parts"
    st = b[2]
    if not (isinstance(st, ast.If) and ast.dump(st.test) == _atom("%s is None" % bo) and len(st.body) == 1 and len(st.orelse) == 1):
        fail("chunks.struct: `if %s is None: s = ... else: s = ...` expected" % bo, st)
    n1, v1 = assign_parts(st.body[0], "struct_string")
    n2, v2 = assign_parts(st.orelse[0], "struct_string")
    if n1 != n2:
        fail("chunks.struct: the two branches bind different names", st)
    lets.append("  let %s := if %s.isNone then %s else %s" % (n1, bo, v1, v2))
    kinds[n1] = "parts"
    st = b[3]
    if not (isinstance(st, ast.Assign) and len(st.targets) == 1 and isinstance(st.targets[0], ast.Name)
            and isinstance(st.value, ast.Call) and ast.dump(st.value.func) == _atom("struct.Struct") and len(st.value.args) == 1
            and not st.value.keywords and isinstance(st.value.args[0], ast.Name) and kinds.get(st.value.args[0].id) == "parts"):
        fail("chunks.struct: `s = struct.Struct(<format string variable>)` expected", st)
    s = _ident(st.targets[0].id, st)
    lets.append("  let %s := mkStruct %s" % (s, st.value.args[0].id))
    loop = b[4]
    if not (isinstance(loop, ast.For) and not loop.orelse and len(loop.body) == 1):
        fail("chunks.struct: `for block in blocks(...): yield s.pack(*block)` expected", loop)
    blk = _ident(_name(loop.target, "loop variable"), loop)
    if ast.dump(loop.iter) != _atom("blocks(%s, %s, padval=%s)" % (seq, size, pad)):
        fail("chunks.struct: the loop must run over blocks(%s, %s, padval=%s)" % (seq, size, pad), loop)
    _same_stmts(loop.body, "yield %s.pack(*%s)" % (s, blk), "the body of the loop of chunks.struct")
    out += ["", "/-- `chunks.struct` (`blocks(seq, size, padval=p)` = C08's `blocks` with hop = size) -/",
            "def chunksStruct (native : Order) (%s : OrderArg) (%s : Fmt) (%s : Nat) (%s : PVal)" % (bo, dfmt, size, pad),
            "    (%s : List PVal) : Gen Bytes (Option PackErr) :=" % seq] + lets + [
            "  genMap (fun %s => packWith native %s %s) (ALV.C08.blocks %s %s %s %s)" % (blk, s, blk, size, size, pad, seq)]
    # --- chunks.array: order table, swap; the rest pinned
    fn, (seq, size, dfmt, bo, pad) = _strategy(tree, "array")
    b = _body(fn)
    if len(b) != 9:
        fail("chunks.array: 9 statements expected, got %d" % len(b), fn)
    _same_stmts(b[0:1], "if %s is None:\n  %s = chunks.size" % (size, size), "the default of size")
    st = b[3]
    if not (isinstance(st, ast.Assign) and len(st.targets) == 1 and isinstance(st.targets[0], ast.Name)
            and isinstance(st.value, ast.Call) and isinstance(st.value.func, ast.Attribute) and st.value.func.attr == "get"
            and isinstance(st.value.func.value, ast.Dict) and not st.value.keywords and len(st.value.args) == 2
            and ast.dump(st.value.args[0]) == _atom(bo) and ast.dump(st.value.args[1]) == _atom("sys.byteorder")):
        fail("chunks.array: `order = {...}.get(%s, sys.byteorder)` expected" % bo, st)
    order = _ident(st.targets[0].id, st)
    rows = []
    ARG = {"<": ".lt", ">": ".gt", "!": ".bang", "@": ".at", "=": ".eq"}
    ORD = {"little": ".little", "big": ".big"}
    for k, v in zip(st.value.func.value.keys, st.value.func.value.values):
        if not (isinstance(k, ast.Constant) and k.value in ARG and isinstance(v, ast.Constant) and v.value in ORD):
            fail("chunks.array: entry of the byte-order table not understood", k)
        if ARG[k.value] in [r[0] for r in rows]:
            fail("chunks.array: duplicate key in the byte-order table", k)
        rows.append((ARG[k.value], ORD[v.value]))
    rows.sort(key=lambda r: list(ARG.values()).index(r[0]))
    st = b[4]
    if not (isinstance(st, ast.Assign) and len(st.targets) == 1 and isinstance(st.targets[0], ast.Name)
            and isinstance(st.value, ast.Compare) and len(st.value.ops) == 1 and type(st.value.ops[0]) in (ast.Eq, ast.NotEq)):
        fail("chunks.array: `swap = order != sys.byteorder` expected", st)
    swap = st.targets[0].id
    oenv = {_atom(order): order, _atom("sys.byteorder"): "native"}
    for side in (st.value.left, st.value.comparators[0]):
        if ast.dump(side) not in oenv:
            fail("chunks.array: swap compares something else than order and sys.byteorder", st)
    sw = "%s %s %s" % (oenv[ast.dump(st.value.left)], "!=" if isinstance(st.value.ops[0], ast.NotEq) else "==",
                       oenv[ast.dump(st.value.comparators[0])])
    out += ["", "/-- `chunks.array`: `%s` -/" % ast.unparse(b[3]).replace("/-", "").replace("-/", ""),
            "def arrayOrderTable : List (OrderArg × Order) := [%s]" % ", ".join("(%s, %s)" % r for r in rows),
            "/-- `%s` -/" % ast.unparse(b[4]),
            "def arraySwap (native : Order) (%s : OrderArg) : Bool :=" % bo,
            "  let %s := orderGet arrayOrderTable native %s" % (order, bo),
            "  %s" % sw]
    out += _tr_array_body(b, (seq, size, dfmt, bo, pad), _ident(swap, b[4]), order)
    return out, ""


def _assign1(st, what):
    if not (isinstance(st, ast.Assign) and len(st.targets) == 1 and isinstance(st.targets[0], ast.Name)):
        fail("chunks.array: `%s = ...` expected" % what, st)
    return st.targets[0].id, st.value


def _tr_array_body(b, params, swap, order):
    """the working array, `export()`, the fill loop, the end-of-input pad loop and the last partial chunk of chunks.array
    -> arrayExport / arrayStep / arrayTail / chunksArray over a cell list (vocabulary: Model/C18Src.lean, section arr)"""
    seq, size, dfmt, bo, pad = params
    ARGS = "(native : Order) (%s : OrderArg) (%s : Fmt) (%s : Nat)" % (bo, dfmt, size)
    CALL = "native %s %s %s" % (bo, dfmt, size)
    ENC = "(arrEnc native %s)" % dfmt
    # --- chunk = array.array(dfmt, [0] * size)
    chunk, v = _assign1(b[1], "chunk")
    chunk = _ident(chunk, b[1])
    if not (isinstance(v, ast.Call) and ast.dump(v.func) == _atom("array.array") and len(v.args) == 2 and not v.keywords
            and ast.dump(v.args[0]) == _atom(dfmt) and isinstance(v.args[1], ast.BinOp) and isinstance(v.args[1].op, ast.Mult)
            and isinstance(v.args[1].left, ast.List) and len(v.args[1].left.elts) == 1
            and ast.dump(v.args[1].right) == _atom(size)):
        fail("chunks.array: `%s = array.array(%s, [<int>] * %s)` expected" % (chunk, dfmt, size), b[1])
    zero = _int(v.args[1].left.elts[0], "the initial item of the working array")
    # --- idx = 0
    idx, v = _assign1(b[2], "idx")
    idx = _ident(idx, b[2])
    idx0 = _int(v, "the initial write position", 0)
    taken = {seq, size, dfmt, bo, pad, swap, order}
    if len({chunk, idx} | taken) != 9 or {"out", "ifres", "e", "export"} & ({chunk, idx} | taken):
        fail("chunks.array: local names clash", b[1])
    # --- tobytes
    tob, v = _assign1(b[5], "tobytes")
    _same_stmts(b[5:6], '%s = getattr(array.array, "tobytes", None) or array.array.tostring' % tob, "the choice of tobytes")
    # --- def export():
    ex = b[6]
    if not (isinstance(ex, ast.FunctionDef) and not ex.args.args and not ex.decorator_list and not ex.args.vararg
            and not ex.args.kwarg and not ex.args.kwonlyargs):
        fail("chunks.array: `def export():` expected", ex)
    export = ex.name

    def export_stmts(stmts, arrs, ind):
        """-> Lean lines of a statement list that ends with `return tobytes(<array>)`; arrs: names of arrays in scope"""
        lines = []
        for k, st in enumerate(stmts):
            last = k == len(stmts) - 1
            if isinstance(st, ast.Return):
                if not last:
                    fail("export: statements after a return", st)
                r = st.value
                if not (isinstance(r, ast.Call) and ast.dump(r.func) == _atom(tob) and len(r.args) == 1 and not r.keywords
                        and isinstance(r.args[0], ast.Name) and r.args[0].id in arrs):
                    fail("export: `return %s(<array>)` expected" % tob, st)
                return lines + [ind + "arrTobytes %s" % r.args[0].id]
            if isinstance(st, ast.If) and not st.orelse:
                neg = isinstance(st.test, ast.UnaryOp) and isinstance(st.test.op, ast.Not)
                tst = st.test.operand if neg else st.test
                if ast.dump(tst) != _atom(swap):
                    fail("export: `if %s:` / `if not %s:` expected" % (swap, swap), st)
                if not st.body or not isinstance(st.body[-1], ast.Return):
                    fail("export: the branch of the if must end with a return", st)
                lines.append(ind + "if %s%s then" % ("!" if neg else "", swap))
                lines += export_stmts(st.body, arrs, ind + "  ")
                lines.append(ind + "else")
                return lines + export_stmts(stmts[k + 1:], arrs, ind + "  ")
            if isinstance(st, ast.Assign):
                nm, v = _assign1(st, "swapped")
                nm = _ident(nm, st)
                if nm in taken or nm in (idx, "out", "ifres", "e"):
                    fail("export: %s is rebound" % nm, st)
                if not (isinstance(v, ast.Call) and ast.dump(v.func) == _atom("array.array") and len(v.args) == 2
                        and not v.keywords and ast.dump(v.args[0]) == _atom(dfmt) and isinstance(v.args[1], ast.Name)
                        and v.args[1].id in arrs):
                    fail("export: `%s = array.array(%s, <array>)` expected" % (nm, dfmt), st)
                lines.append(ind + "let %s := arrCopy %s" % (nm, v.args[1].id))
                arrs = arrs | {nm}
                continue
            if (isinstance(st, ast.Expr) and isinstance(st.value, ast.Call) and isinstance(st.value.func, ast.Attribute)
                    and st.value.func.attr == "byteswap" and isinstance(st.value.func.value, ast.Name)
                    and st.value.func.value.id in arrs and not st.value.args and not st.value.keywords):
                nm = st.value.func.value.id
                if nm == chunk:
                    fail("export: byteswap of the working array itself (it would stay swapped)", st)
                lines.append(ind + "let %s := arrByteswap %s" % (nm, nm))
                continue
            fail("export: statement not understood: %s" % ast.unparse(st).splitlines()[0], st)
        fail("export: no return at the end", ex)

    out = ["", "/-- `%s()` of `chunks.array` (`%s` = the working array at the moment of the call) -/" % (export, chunk),
           "def arrayExport (native : Order) (%s : OrderArg) (%s : List Bytes) : Bytes :=" % (bo, chunk),
           "  let %s := arraySwap native %s" % (swap, bo)] + export_stmts(_body(ex), {chunk}, "  ")
    EXPORT = "arrayExport native %s %s" % (bo, chunk)
    env = {_atom(idx): idx, _atom(size): size}

    def is_yield_export(st):
        return isinstance(st, ast.Expr) and isinstance(st.value, ast.Yield) and st.value.value is not None \
            and ast.dump(st.value.value) == _atom("%s()" % export)

    def set_stmt(st, index, values):
        """`chunk[index] = <one of values>` -> the value name"""
        if not (isinstance(st, ast.Assign) and len(st.targets) == 1 and isinstance(st.targets[0], ast.Subscript)
                and ast.dump(st.targets[0].value) == _atom(chunk) and ast.dump(st.targets[0].slice) == _atom(index)
                and isinstance(st.value, ast.Name) and st.value.id in values):
            return None
        return st.value.id

    def idx_assign(st):
        if isinstance(st, ast.AugAssign) and ast.dump(st.target).replace("Store", "Load") == _atom(idx) and type(st.op) in NOPS:
            return "%s %s %s" % (idx, NOPS[type(st.op)], _paren(nexp(st.value, env)))
        if isinstance(st, ast.Assign) and len(st.targets) == 1 and ast.dump(st.targets[0]).replace("Store", "Load") == _atom(idx):
            return nexp(st.value, env)
        return None

    # --- for el in seq: ...
    loop = b[7]
    if not (isinstance(loop, ast.For) and not loop.orelse and ast.dump(loop.iter) == _atom(seq)):
        fail("chunks.array: `for el in %s:` expected" % seq, loop)
    el = _ident(_name(loop.target, "loop variable"), loop)
    if el in taken or el in (chunk, idx, "out", "ifres", "e"):
        fail("chunks.array: the loop variable %s clashes" % el, loop)

    def body_stmts(stmts, ind, top, yielded):
        lines = []
        for st in stmts:
            if top and set_stmt(st, idx, {el, pad}):
                if yielded[0]:
                    fail("chunks.array: an item assignment after a yield in the same pass (outside the vocabulary)", st)
                lines += [ind + "match arrSet %s %s %s %s with" % (ENC, chunk, idx, set_stmt(st, idx, {el, pad})),
                          ind + "| .error e => .error e", ind + "| .ok %s =>" % chunk]
            elif idx_assign(st) is not None:
                lines.append(ind + "let %s := %s" % (idx, idx_assign(st)))
            elif is_yield_export(st):
                yielded[0] = True
                lines.append(ind + "let out := out ++ [%s]" % EXPORT)
            elif isinstance(st, ast.If) and not st.orelse and top:
                lines.append(ind + "let ifres :=")
                lines.append(ind + "  if %s then" % cexp(st.test, env))
                lines += body_stmts(st.body, ind + "    ", False, yielded)
                lines += [ind + "    (%s, out)" % idx, ind + "  else (%s, out)" % idx,
                          ind + "let %s := ifres.1" % idx, ind + "let out := ifres.2"]
            else:
                fail("chunks.array: statement of the fill loop not understood: %s" % ast.unparse(st).splitlines()[0], st)
        return lines

    out += ["", "/-- one pass of `for %s in %s:` of `chunks.array`: the new array and write position, the chunks yielded -/" % (el, seq),
            "def arrayStep %s (%s : List Bytes) (%s : Nat) (%s : PVal) :" % (ARGS, chunk, idx, el),
            "    Except PackErr ((List Bytes × Nat) × List Bytes) :=",
            "  let out : List Bytes := []"] + body_stmts(loop.body, "  ", True, [False]) + [
            "  .ok ((%s, %s), out)" % (chunk, idx)]
    # --- if idx != 0: for idx in xrange(idx, size): chunk[idx] = padval; yield export()
    tail = b[8]
    if not (isinstance(tail, ast.If) and not tail.orelse and len(tail.body) == 2 and isinstance(tail.body[0], ast.For)
            and not tail.body[0].orelse and len(tail.body[0].body) == 1 and is_yield_export(tail.body[1])):
        fail("chunks.array: `if <test>: for i in xrange(lo, hi): %s[i] = %s` + `yield %s()` expected" % (chunk, pad, export), tail)
    ttest = cexp(tail.test, env)
    pl = tail.body[0]
    it = pl.iter
    if not (isinstance(it, ast.Call) and isinstance(it.func, ast.Name) and it.func.id in ("xrange", "range") and len(it.args) == 2
            and not it.keywords):
        fail("chunks.array: the pad loop must run over xrange(lo, hi)", pl)
    lo, hi = nexp(it.args[0], env), nexp(it.args[1], env)
    lv = _ident(_name(pl.target, "loop variable of the pad loop"), pl)
    if lv != idx and (lv in taken or lv in (chunk, el, "out", "ifres", "e")):
        fail("chunks.array: the loop variable %s of the pad loop clashes" % lv, pl)
    if set_stmt(pl.body[0], lv, {pad}) is None:
        fail("chunks.array: `%s[%s] = %s` expected in the pad loop" % (chunk, lv, pad), pl.body[0])
    out += ["", "/-- the end of the input: `if %s:` the pad loop `for %s in xrange(%s, %s)` and the last chunk -/" % (
                ast.unparse(tail.test), lv, ast.unparse(it.args[0]), ast.unparse(it.args[1])),
            "def arrayTail %s (%s : PVal) (%s : List Bytes) (%s : Nat) : Gen Bytes PackErr :=" % (ARGS, pad, chunk, idx),
            "  if %s then" % ttest,
            "    match forRange (fun %s %s => arrSet %s %s %s %s) (%s - %s) %s %s with" % (
                lv, chunk, ENC, chunk, lv, pad, _paren(hi), _paren(lo), _paren(lo), chunk),
            "    | .error e => ⟨[], some e⟩",
            "    | .ok %s => ⟨[%s], none⟩" % (chunk, EXPORT),
            "  else ⟨[], none⟩"]
    # --- the whole strategy
    out += ["", "/-- `chunks.array`: the working array of `%s` items %d, the write position %d, the fill loop, the end of the input -/" % (
                size, zero, idx0),
            "def chunksArray %s (%s : PVal) (%s : List PVal) : Gen Bytes PackErr :=" % (ARGS, pad, seq),
            "  match arrNew %s (.int %s) %s with" % (ENC, "(%d)" % zero if zero < 0 else str(zero), size),
            "  | .error e => ⟨[], some e⟩",
            "  | .ok %s =>" % chunk,
            "    let %s : Nat := %d" % (idx, idx0),
            "    forGen (fun st %s => arrayStep %s st.1 st.2 %s) (fun st => arrayTail %s %s st.1 st.2) (%s, %s) %s" % (
                el, CALL, el, CALL, pad, chunk, idx, seq)]
    return out


HEADER = ["/- GENERATED by harness/props/c18_tr.py from audiolazy/lazy_wav.py and audiolazy/lazy_io.py (read with `ast`).",
          "   Do not edit: rewritten on every check. -/",
          "import ALV.Model.C18Src", "namespace ALV.Gen.C18", "open ALV.C18", ""]


def translate(wav_text, io_text):
    """-> (Lean text, "")  (the second component was the sha1 of a pinned part; nothing is pinned any more)"""
    io_lines, sha = tr_io(io_text)
    lines = HEADER + tr_wav(wav_text) + io_lines + ["", "end ALV.Gen.C18", ""]
    return "\n".join(lines), sha


def read_source():
    out = []
    for name in ("lazy_wav.py", "lazy_io.py"):
        with open(os.path.join(common.REPO, "audiolazy", name)) as f:
            out.append(f.read())
    return tuple(out)


def committed():
    """the last committed translation (what the build falls back to)"""
    try:
        r = subprocess.run(["git", "-C", common.VERIF, "show", "HEAD:lean/" + GEN_REL.replace(os.sep, "/")],
                           capture_output=True, text=True, timeout=30)
        return r.stdout if r.returncode == 0 and r.stdout else None
    except Exception:
        return None


def regenerate(eng=None):
    """Rewrite lean/ALV/Gen/C18Src.lean from the repo under test.  On a translation failure the last COMMITTED file is put
    back (so that the build and the driver work) and the error propagates (= broken obligation)."""
    path = os.path.join(common.LEAN, GEN_REL)
    try:
        text, _sha = translate(*read_source())
    except Exception:
        good = committed()
        if good and (not os.path.exists(path) or open(path).read() != good):
            with open(path, "w") as f:
                f.write(good)
        raise
    old = open(path).read() if os.path.exists(path) else None
    if old != text:
        os.makedirs(os.path.dirname(path), exist_ok=True)
        with open(path, "w") as f:
            f.write(text)
        return "rewritten (%d bytes)" % len(text)
    return "unchanged (%d bytes)" % len(text)


# ------------------------------------------------------------------------------------------------
# self-test: edited copies of the source text must change the translation (or be refused)
# ------------------------------------------------------------------------------------------------
EDITS = [   # (name, file index 0 = wav / 1 = io, old, new)
    ("24-bit shift 8 -> 7", 0, "[0] >> 8)", "[0] >> 7)"),
    ("16-bit format <h -> >h", 0, 'Struct("<h")', 'Struct(">h")'),
    ("8-bit offset 128 -> 127", 0, "ord(v) - 128", "ord(v) - 127"),
    ("normaliser 1 << (bits - 1) -> 1 << bits", 0, "1 << (self.bits - 1)", "1 << self.bits"),
    ("mono test == 1 -> != 1", 0, "self.channels == 1", "self.channels != 1"),
    ("stereo halves swapped", 0, "yield el[:sample_width]\n          yield el[sample_width:]",
     "yield el[sample_width:]\n          yield el[:sample_width]"),
    ("readframes(1) -> readframes(2)", 0, "w.readframes(1)", "w.readframes(2)"),
    ("yield before the end test (reorder)", 0, "if not el:\n            break\n          yield el",
     "yield el\n          if not el:\n            break"),
    ("finally clause dropped", 0, "finally:\n        w.close()", "finally:\n        pass"),
    ("bits = 8 * sampwidth -> 4 *", 0, "8 * self._file.getsampwidth()", "4 * self._file.getsampwidth()"),
    ("keep=False -> keep=True", 0, "keep=False", "keep=True"),
    ("struct: str(size) dropped", 1, "dfmt = str(size) + dfmt", "dfmt = dfmt"),
    ("struct: byte_order appended instead of prefixed", 1, "struct_string = byte_order + dfmt", "struct_string = dfmt + byte_order"),
    ("struct: branches of `byte_order is None` swapped", 1, "if byte_order is None:\n    struct_string = dfmt\n  else:\n    struct_string = byte_order + dfmt",
     "if byte_order is None:\n    struct_string = byte_order + dfmt\n  else:\n    struct_string = dfmt"),
    ("struct: padval not passed to blocks", 1, "blocks(seq, size, padval=padval)", "blocks(seq, size)"),
    ("array: '!' -> little", 1, '"!": "big"', '"!": "little"'),
    ("array: swap test != -> ==", 1, "swap = order != sys.byteorder", "swap = order == sys.byteorder"),
    ("array: pad loop starts at idx + 1", 1, "for idx in xrange(idx, size):", "for idx in xrange(idx + 1, size):"),
    ("array: export() swaps when NOT swap", 1, "    if not swap:\n      return tobytes(chunk)", "    if swap:\n      return tobytes(chunk)"),
    ("array: byteswap dropped", 1, "    swapped.byteswap()\n", ""),
    ("array: byteswap of the working array itself", 1, "    swapped = array.array(dfmt, chunk)\n    swapped.byteswap()\n    return tobytes(swapped)",
     "    chunk.byteswap()\n    return tobytes(chunk)"),
    ("array: idx reset before the yield is dropped", 1, "      yield export()\n      idx = 0", "      yield export()"),
    ("array: chunk full test idx == size -> idx + 1 == size", 1, "    if idx == size:", "    if idx + 1 == size:"),
    ("array: idx += 1 before the item assignment (reorder)", 1, "    chunk[idx] = el\n    idx += 1", "    idx += 1\n    chunk[idx] = el"),
    ("array: end-of-input test idx != 0 -> idx != size", 1, "  if idx != 0:", "  if idx != size:"),
    ("array: working array one item longer", 1, "[0] * size)", "[0] * (size + 1))"),
]
HARMLESS = [  # edits that must NOT change the translation: comments, whitespace, docstrings
    ("comment + blank lines", 0, "    def data_generator():", "    # a comment\n\n    def data_generator():"),
    ("docstring of block_reader", 0, '""" Raw wave data block generator (following block align) """', '""" other words """'),
    ("spaces in an expression", 1, "dfmt = str(size) + dfmt", "dfmt = str( size )+dfmt"),
    ("comment inside export()", 1, "    swapped.byteswap()\n", "    swapped.byteswap()  # in place\n"),
]


def selftest(texts=None, base=None):
    """-> list of (name, ok, detail).  `base` = the committed Gen text."""
    texts = texts or read_source()
    res = []
    try:
        ref, sha = translate(*texts)
    except Exception as ex:
        return [("translator-selftest: unchanged source translates", False, "%s: %s" % (type(ex).__name__, ex))]
    if base is not None:
        res.append(("translator-selftest: unchanged source reproduces the committed Gen file byte for byte", ref == base,
                    "" if ref == base else "differs (%d vs %d bytes)" % (len(ref), len(base))))
    for name, which, old, new in EDITS + HARMLESS:
        harmless = (name, which, old, new) in HARMLESS
        t = list(texts)
        if t[which].count(old) != 1:
            # the edit does not apply to this version of the source (e.g. a mutant): not a verdict about the translator
            res.append(("translator-selftest: " + name, True, "edit not applicable to this source text (skipped)"))
            continue
        t[which] = t[which].replace(old, new)
        try:
            got = translate(*t)
            differs = got != (ref, sha)
            how = "different Gen text" if differs else "SAME translation"
        except TranslationError as ex:
            differs, how = True, "TranslationError: %s" % str(ex).splitlines()[0][:100]
        except SyntaxError as ex:
            differs, how = True, "SyntaxError %s" % ex
        ok = (not differs) if harmless else differs
        res.append(("translator-selftest: " + name + (" (harmless: same translation wanted)" if harmless else ""), ok, how))
    return res
