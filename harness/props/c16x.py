"""C16 — histories WITH FAILING OPERATIONS on one or several Streamix objects (entry "streamix_sys").

A case is one interleaved history on `mixers` (each {keep, kk, zero, zk, shape}) and `hubs`
(StreamTeeHub objects with a fixed number of copies, shared by every mixer of the case):

  {"m": i, "op": "add", delta, dk, data: [item…], vk, c, kw}       good add; an item is a number, a list of
                                                                   ints (a tuple), null (None) or {"raise": kind}
  {"m": i, "op": "add", delta, dk, "hub": name, data: [...]}       the data is a copy of the hub (data = its items)
  {"m": i, "op": "add", delta, dk, "from": j}                      the data is MIXER j itself (closed: keep off, no
                                                                   operation on j afterwards)
  {"m": i, "op": "addfail", delta, dk, how, err}                   add whose iter(data) raises: how = none | int |
                                                                   float | hub (exhausted) | iterraise (__iter__ raises err)
  {"m": i, "op": "next"}, {"m": i, "op": "keep", "v": b, "kv": spelling}

The model side gets, per mixer, its own sub-history (the hubs' copies are independent lists there;
a mixer used as data is sent as {"mix": its history so far}); the driver answers one payload per
mixer: the machine with exceptions step by step and the spec's view of the history without the
failed adds.
"""
import warnings
from fractions import Fraction
import common
from common import enc, dec, err_kind

NEXT = {"op": "next"}
RAISE_KINDS = ["KeyError", "ZeroDivisionError", "IndexError", "TypeError", "ValueError", "RuntimeError",
               "AttributeError", "StopIteration"]   # StopIteration inside a generator = RuntimeError (PEP 479)
EXC = {"KeyError": KeyError, "ZeroDivisionError": ZeroDivisionError, "IndexError": IndexError,
       "TypeError": TypeError, "ValueError": ValueError, "RuntimeError": RuntimeError,
       "AttributeError": AttributeError, "StopIteration": StopIteration}
ZERO_TYPE = {"int": "int", "float": "float", "negzero": "float", "frac": "Fraction", "bool": "bool",
             "tuple": "tuple", "none": "NoneType"}
DEFAULT_ZERO_SHAPES = ("none", "keep-only", "keep-only-kw")
TRUE_SPELL = {"bool": True, "int": 1, "str": "yes", "list": [0], "float": 0.5}
FALSE_SPELL = {"bool": False, "int": 0, "str": "", "list": [], "none": None, "float": 0.0}


def keep_value(v, kk):
    return (TRUE_SPELL if v else FALSE_SPELL).get(kk, bool(v))


# ----------------------------------------------------------------------------------------------
# values
# ----------------------------------------------------------------------------------------------
def num(j, kind):
    f = dec(j)
    if kind == "float":
        return float(f)
    if kind == "negzero":
        return -0.0 if f == 0 else float(f)
    if kind == "frac":
        return Fraction(f)
    if kind == "bool" and f in (0, 1):
        return bool(f)
    if f.denominator != 1:
        return Fraction(f)
    return int(f)


def value(j, kind):
    """an item / a zero: None, a tuple of ints, or a number of the given kind"""
    if j is None:
        return None
    if isinstance(j, list):
        return tuple(j)
    return num(j, kind)


def enc_value(v):
    if v is None:
        return None
    if isinstance(v, tuple):
        return list(v)
    return enc(v)


class _BadIter(object):
    """an iterable whose __iter__ raises"""
    def __init__(self, exc):
        self.exc = exc

    def __iter__(self):
        raise self.exc("iter fails")


def _raising_gen(items, vk):
    for x in items:
        if isinstance(x, dict):
            raise EXC[x.get("py", x["raise"])]("event fails")
        yield value(x, vk)


def container(items, vk, how):
    if any(isinstance(x, dict) for x in items):
        g = _raising_gen(items, vk)
        if how == "stream":
            from audiolazy import Stream
            return Stream(g)
        return g
    xs = [value(x, vk) for x in items]
    if how == "tuple":
        return tuple(xs)
    if how == "iter":
        return iter(xs)
    if how == "gen":
        return (x for x in xs)
    if how == "stream":
        from audiolazy import Stream
        return Stream(xs)
    if how == "deque":
        from collections import deque
        return deque(xs)
    return xs


# ----------------------------------------------------------------------------------------------
# validity of a case (the generator, the shrinker and the neighbours all go through this)
# ----------------------------------------------------------------------------------------------
def valid(c):
    hubs = dict((k, h["n"]) for k, h in c.get("hubs", {}).items())
    nm = len(c["mixers"])
    closed = [False] * nm
    keep = [bool(m["keep"]) for m in c["mixers"]]
    floaty = c.get("family") == "float"
    nums = []
    for m in c["mixers"]:
        if m["zero"] is not None and not isinstance(m["zero"], list):
            nums.append(dec(m["zero"]))
        if m["zk"] in ("float", "negzero") and not floaty:
            return False
    for k in c.get("ctls", {}).values():
        if k["init"] is not None and not isinstance(k["init"], list):
            nums.append(dec(k["init"]))
        if k.get("vk") in ("float", "negzero") and not floaty:
            return False
    for h in c.get("hubs", {}).values():
        nums.extend(dec(x) for x in h["data"] if not isinstance(x, (list, dict)) and x is not None)
    ctl_used = set()
    has_ctl = [False] * nm
    for op in c["ops"]:
        if op["op"] == "ctlset":
            if op.get("ctl") not in c.get("ctls", {}):
                return False
            if op["v"] is not None and not isinstance(op["v"], list):
                nums.append(dec(op["v"]))
            continue
        i = op.get("m", 0)
        if not (0 <= i < nm) or closed[i]:
            return False
        if op["op"] == "add" and "ctl" in op:      # a ControlStream as the event: once (its generator is one object)
            if op["ctl"] not in c.get("ctls", {}) or op["ctl"] in ctl_used or dec(op["delta"]) < 0:
                return False
            ctl_used.add(op["ctl"])
            has_ctl[i] = True
            d = dec(op["delta"])
            if abs(d) >= 2 ** 20 or 64 % d.denominator != 0:
                return False
            continue
        if op["op"] in ("add", "addfail"):
            d = dec(op["delta"])
            if abs(d) >= 2 ** 20 or 64 % d.denominator != 0:     # the frame's count is a float: keep it exact
                return False
            if op.get("dk") == "bool" and d not in (0, 1):
                return False
            if op.get("dk") == "negzero" and d != 0:
                return False
            if op.get("dk") == "int" and d.denominator != 1:
                return False
        if op["op"] == "add":
            if "from" in op:
                j = op["from"]
                if not (0 <= j < nm) or j == i or closed[j] or keep[j] or has_ctl[j]:
                    return False
                if d >= 0:
                    closed[j] = True
                else:
                    return False          # keep it simple: a mixer is only ever offered with an accepted delta
            elif "hub" in op:
                if op["hub"] not in hubs:
                    return False
                if d >= 0:
                    if hubs[op["hub"]] <= 0:
                        return False
                    hubs[op["hub"]] -= 1
                if op["data"] != c["hubs"][op["hub"]]["data"]:
                    return False
            else:
                for x in op["data"]:
                    if isinstance(x, dict):
                        if op.get("c", "list") not in ("gen", "stream"):
                            return False
                    elif x is not None and not isinstance(x, list):
                        nums.append(dec(x))
                if op.get("vk") in ("float", "negzero") and not floaty:
                    return False
        elif op["op"] == "addfail":
            if op["how"] == "hub":
                if op.get("hub") not in hubs or (hubs[op["hub"]] != 0):
                    return False
                if op["err"] != "IndexError":
                    return False
            elif op["how"] in ("none", "int", "float"):
                if op["err"] != "TypeError":
                    return False
            elif op["how"] != "iterraise" or op["err"] not in EXC or op["err"] == "StopIteration":
                return False
        elif op["op"] == "keep":
            keep[i] = bool(op["v"])
    if floaty:
        return all(abs(x) < 2 ** 20 and 64 % x.denominator == 0 for x in nums)
    return True


# ----------------------------------------------------------------------------------------------
# the real code
# ----------------------------------------------------------------------------------------------
def _make(m):
    from audiolazy import Streamix
    k = keep_value(m["keep"], m.get("kk", "bool"))
    z = value(m["zero"], m["zk"])
    shape = m.get("shape", "kw")
    if shape == "none":
        return Streamix()
    if shape == "zero-only":
        return Streamix(zero=z)
    if shape == "keep-only":
        return Streamix(k)
    if shape == "keep-only-kw":
        return Streamix(keep=k)
    if shape == "pos":
        return Streamix(k, z)
    if shape == "pos-kw":
        return Streamix(k, zero=z)
    if shape == "kw-rev":
        return Streamix(zero=z, keep=k)
    return Streamix(keep=k, zero=z)


def _len(obj, name):
    try:
        return len(getattr(obj, name, None))
    except TypeError:
        return None


def _call_add(smix, d, data, kw):
    if kw == "kw":
        return smix.add(delta=d, data=data)
    if kw == "kw-rev":
        return smix.add(data=data, delta=d)
    if kw == "mixed":
        return smix.add(d, data=data)
    return smix.add(d, data)


def impl(c):
    with warnings.catch_warnings():
        warnings.simplefilter("ignore")            # MemoryLeakWarning of a hub with unused copies (freed inside)
        return _impl(c)


class _Timeout(Exception):
    pass


def _alarm(signum, frame):
    raise _Timeout()


def _guarded_add(smix, d, data, kw):
    """an endless event: an `add` that tried to run through it would never come back"""
    import signal
    old = signal.signal(signal.SIGALRM, _alarm)
    signal.setitimer(signal.ITIMER_REAL, 0.5)
    try:
        return _call_add(smix, d, data, kw)
    finally:
        signal.setitimer(signal.ITIMER_REAL, 0)
        signal.signal(signal.SIGALRM, old)


def _impl(c):
    from audiolazy import thub, ControlStream
    ctls = dict((k, ControlStream(value(v["init"], v.get("vk", "int")))) for k, v in c.get("ctls", {}).items())
    hubs = dict((k, thub([value(x, h.get("vk", "int")) for x in h["data"]], h["n"]))
                for k, h in c.get("hubs", {}).items())
    mixers = [_make(m) for m in c["mixers"]]
    its = [iter(s) for s in mixers]
    steps = [[] for _ in mixers]
    for op in c["ops"]:
        if op["op"] == "ctlset":
            ctls[op["ctl"]].value = value(op["v"], op.get("vk", "int"))
            continue
        i = op.get("m", 0)
        smix, it = mixers[i], its[i]
        if op["op"] == "add" and "ctl" in op:
            try:
                r = _guarded_add(smix, num(op["delta"], op.get("dk", "int")), ctls[op["ctl"]], op.get("kw", "pos"))
                o = "ok" if r is None else {"err": "OTHER:add returned %r" % (r,)}
            except _Timeout:
                o = {"err": "OTHER:add of an endless event does not return"}
            except Exception as e:
                o = {"err": err_kind(e)}
        elif op["op"] in ("add", "addfail"):
            d = num(op["delta"], op.get("dk", "int"))
            if op["op"] == "addfail":
                how = op["how"]
                data = {"none": None, "int": 7, "float": 2.5}.get(how)
                if how == "hub":
                    data = hubs[op["hub"]]
                elif how == "iterraise":
                    data = _BadIter(EXC[op["err"]])
            elif "from" in op:
                data = mixers[op["from"]]
            elif "hub" in op:
                data = hubs[op["hub"]]
            else:
                data = container(op["data"], op.get("vk", "int"), op.get("c", "list"))
            try:
                r = _call_add(smix, d, data, op.get("kw", "pos"))
                o = "ok" if r is None else {"err": "OTHER:add returned %r" % (r,)}
            except Exception as e:
                o = {"err": err_kind(e)}
        elif op["op"] == "next":
            qb = _len(smix, "_not_playing")
            try:
                v = next(it)
                qa = _len(smix, "_not_playing")
                o = {"out": enc_value(v), "started": (qb - qa) if qb is not None and qa is not None else None,
                     "t": type(v).__name__}
            except StopIteration:
                o = "stop"
            except Exception as e:
                o = {"err": err_kind(e)}
        else:
            smix.keep = keep_value(op["v"], op.get("kv", "bool"))
            o = "ok"
        cnt = None
        fr = getattr(it, "gi_frame", None)
        if fr is not None and "count" in fr.f_locals:
            try:
                cnt = enc(fr.f_locals["count"])
            except TypeError:
                cnt = None
        steps[i].append([o, _len(smix, "_not_playing"), _len(smix, "_playing"), cnt])
    return {"mixers": steps}


# ----------------------------------------------------------------------------------------------
# the request: one sub-history per mixer
# ----------------------------------------------------------------------------------------------
def _clean_item(x):
    return {"raise": ("RuntimeError" if x.get("py", x["raise"]) == "StopIteration" else x["raise"])} \
        if isinstance(x, dict) else x


def _model_op(op, subs, c):
    if op["op"] == "add":
        if "from" in op:
            j = op["from"]
            mj = c["mixers"][j]
            # keep as it is NOW on that mixer: the sub-history contains its keep assignments
            return {"op": "add", "delta": op["delta"],
                    "mix": {"keep": bool(mj["keep"]), "zero": mj["zero"], "ops": list(subs[j])}}
        return {"op": "add", "delta": op["delta"], "data": [_clean_item(x) for x in op["data"]]}
    if op["op"] == "addfail":
        return {"op": "addfail", "delta": op["delta"], "err": op["err"]}
    if op["op"] == "keep":
        return {"op": "keep", "v": bool(op["v"])}
    return {"op": "next"}


def _ctl_items(c, g0):
    """A ControlStream added as an event (operation number g0 of the case) yields, at every sample, the
    value it has when that sample is read.  For the model the event is the finite list of these values
    for the reads of the history: item j is read by the (start+j+1)-th `next` of that mixer, with
    start = max(ceil(T - 1/2), samples delivered before the add) — the spec's start formula."""
    import math
    op0 = c["ops"][g0]
    i = op0["m"]
    T = Fraction(0)
    n = 0
    for op in c["ops"][:g0]:
        if op.get("m") != i or op["op"] == "ctlset":
            continue
        if op["op"] == "add" and dec(op["delta"]) >= 0:
            T += dec(op["delta"])
        elif op["op"] == "next":
            n += 1
    T += dec(op0["delta"])
    start = max(math.ceil(T - Fraction(1, 2)), n)
    cur = c["ctls"][op0["ctl"]]["init"]
    items = []
    k = 0
    for g, op in enumerate(c["ops"]):
        if op["op"] == "ctlset":
            if op["ctl"] == op0["ctl"]:
                cur = op["v"]
        elif op.get("m") == i and op["op"] == "next":
            if k >= start and g > g0:
                items.append(cur)
            k += 1
    return items


def sub_histories(c):
    subs = [[] for _ in c["mixers"]]
    for g, op in enumerate(c["ops"]):
        if op["op"] == "ctlset":
            continue
        if op["op"] == "add" and "ctl" in op:
            subs[op["m"]].append({"op": "add", "delta": op["delta"], "data": _ctl_items(c, g)})
            continue
        subs[op.get("m", 0)].append(_model_op(op, subs, c))
    return subs


def request(c):
    subs = sub_histories(c)
    return {"entry": "streamix_sys",
            "mixers": [{"keep": bool(m["keep"]), "zero": m["zero"], "ops": s} for m, s in zip(c["mixers"], subs)]}


# ----------------------------------------------------------------------------------------------
# comparison
# ----------------------------------------------------------------------------------------------
def _val_eq(x, y, ordered=True):
    if x is None or y is None:
        return x is None and y is None
    if isinstance(x, list) or isinstance(y, list):
        if not (isinstance(x, list) and isinstance(y, list)):
            return False
        return x == y if ordered else sorted(x) == sorted(y)
    return dec(x) == dec(y)


def same_obs(a, b, ordered=True):
    if isinstance(a, dict) and isinstance(b, dict):
        if "out" in a and "out" in b:
            if not _val_eq(a["out"], b["out"], ordered):
                return False
            return a.get("started") is None or a["started"] == b["started"]
        return a.get("err") is not None and a.get("err") == b.get("err")
    return a == b


def first_diffs(c, io, drv):
    """(mixer, k, what) of the first model difference, (mixer, k) of the first spec difference"""
    dm = ds = None
    for i, (steps, pay) in enumerate(zip(io["mixers"], drv["mixers"])):
        if len(steps) != len(pay["model"]) or len(steps) != len(pay["spec"]):
            return (i, -1, "step count"), (i, -1)
        for k, (st, mo) in enumerate(zip(steps, pay["model"])):
            if dm is not None:
                break
            if not same_obs(st[0], mo[0]):
                dm = (i, k, "obs")
            elif st[1] is not None and st[1] != mo[1]:
                dm = (i, k, "len(_not_playing)")
            elif st[2] is not None and st[2] != mo[2]:
                dm = (i, k, "len(_playing)")
            elif st[3] is not None and mo[3] is not None and dec(st[3]) != dec(mo[3]):
                dm = (i, k, "count")
        for k, (st, so) in enumerate(zip(steps, pay["spec"])):
            if ds is not None:
                break
            if not same_obs(st[0], so, ordered=False):
                ds = (i, k)
    return dm, ds


def _op_of(c, i, k):
    n = -1
    for op in c["ops"]:
        if op["op"] != "ctlset" and op.get("m", 0) == i:
            n += 1
            if n == k:
                return op
    return {"op": "?"}


def compare(c, io, drv):
    if "err" in io:
        return [("model", "impl raised " + io["err"]), ("spec", "impl raised " + io["err"])]
    out = []
    dm, ds = first_diffs(c, io, drv)
    if dm is not None:
        i, k, what = dm
        out.append(("model", "mixer %d step %d (%s): %s differs: impl=%r model=%r" % (
            i, k, _op_of(c, i, k)["op"], what, io["mixers"][i][k] if k >= 0 else None,
            drv["mixers"][i]["model"][k] if k >= 0 else None)))
    if ds is not None:
        i, k = ds
        out.append(("spec", "mixer %d step %d (%s): impl=%r spec=%r (starts of the accepted events=%r, accepted time=%r)" % (
            i, k, _op_of(c, i, k)["op"], io["mixers"][i][k][0] if k >= 0 else None,
            drv["mixers"][i]["spec"][k] if k >= 0 else None, drv["mixers"][i].get("starts"),
            drv["mixers"][i].get("accepted"))))
    # an idle sample IS the zero value (theorem zero_after_end / outAt over no due item): same Python type as
    # the zero the mixer was built with — 0.0 when `zero` is left to its default; a float zero makes every
    # sample a float
    for i, (steps, pay) in enumerate(zip(io["mixers"], drv["mixers"])):
        m = c["mixers"][i]
        zt = "float" if m.get("shape") in DEFAULT_ZERO_SHAPES else ZERO_TYPE[m["zk"]]
        for k, (st, mo) in enumerate(zip(steps, pay["model"])):
            o = st[0]
            if isinstance(o, dict) and "t" in o and isinstance(mo[0], dict) and "out" in mo[0]:
                idle = mo[2] == 0 and mo[0]["started"] == 0
                if (idle and o["t"] != zt) or (zt == "float" and o["t"] != "float"):
                    out.append(("spec", "mixer %d step %d: sample of Python type %s, the zero value is a %s%s" % (
                        i, k, o["t"], zt, " (idle sample: must be the zero value itself)" if idle else "")))
                    break
    # the spec's clock is the sum of the deltas of the adds the REAL object accepted
    for i, (steps, pay) in enumerate(zip(io["mixers"], drv["mixers"])):
        T = Fraction(0)
        n = -1
        for op in c["ops"]:
            if op["op"] == "ctlset" or op.get("m", 0) != i:
                continue
            n += 1
            if op["op"] in ("add", "addfail") and n < len(steps) and steps[n][0] == "ok":
                T += dec(op["delta"])
        if dec(pay["T"]) != T or dec(pay["accepted"]) != T:
            out.append(("spec", "mixer %d: accepted time of the spec %r is not the sum of the deltas of the adds "
                                "that returned (%s)" % (i, pay["T"], T)))
    return out


def _kind(o):
    if isinstance(o, dict):
        return "out" if "out" in o else "err:" + str(o.get("err"))
    return str(o)


def classify(c, io, drv):
    if "err" in io:
        return "sys:" + io["err"]
    dm, ds = first_diffs(c, io, drv)
    if ds is None:
        if dm is None:
            return "sys:clock-or-type"
        return "sys:model:%s:%s" % (_op_of(c, dm[0], dm[1])["op"], dm[2])
    i, k = ds
    a, b = io["mixers"][i][k][0], drv["mixers"][i]["spec"][k]
    ka, kb = _kind(a), _kind(b)
    if ka == "out" and kb == "out":
        what = "value" if not _val_eq(a["out"], b["out"], False) else "started"
        return "sys:%s:out-%s" % (_op_of(c, i, k)["op"], what)
    return "sys:%s:impl=%s,spec=%s" % (_op_of(c, i, k)["op"], ka, kb)


def nontrivial(c, io):
    if "err" in io:
        return False
    for steps in io["mixers"]:
        for st in steps:
            o = st[0]
            if o == "stop" or (isinstance(o, dict) and ("err" in o or (st[2] or 0) > 0)):
                return True
    return False


# ----------------------------------------------------------------------------------------------
# generation
# ----------------------------------------------------------------------------------------------
def _rand_delta(rng):
    r = rng.random()
    if r < 0.3:
        d = rng.choice([0, 0, 1, 2, 3, 5])
        return Fraction(d), rng.choice(["int", "int", "float", "frac"] + (["bool"] if d in (0, 1) else []) +
                                       (["negzero"] if d == 0 else []))
    if r < 0.65:
        return Fraction(rng.randint(0, 12), 2), rng.choice(["float", "frac"])
    if r < 0.9:
        return Fraction(rng.randint(0, 40), rng.choice([4, 8])), rng.choice(["float", "frac"])
    return Fraction(rng.randint(0, 4000), 64), "float"


class _Gen(object):
    def __init__(self, rng, big):
        self.rng = rng
        self.big = big
        self.family = rng.choice(["int", "int", "float", "tuple"])
        self.k = 0

    def zero(self):
        rng = self.rng
        if rng.random() < 0.04:
            return None, "none"
        if self.family == "tuple":
            return rng.choice([[], [], [0]]), "tuple"
        if self.family == "float":
            return rng.choice([(0, "float"), (0, "float"), (0, "int"), (enc(Fraction(1, 2)), "float"), (-3, "int"),
                               (0, "negzero")])
        return rng.choice([(0, "int"), (0, "int"), (0, "frac"), (0, "bool"), (1, "bool"), (7, "int"),
                           (enc(Fraction(2, 3)), "frac"), (2 ** 70, "int")])

    def vk(self):
        if self.family == "float":
            return self.rng.choice(["float", "float", "int"])
        if self.family == "int":
            return self.rng.choice(["int", "int", "frac", "bool"])
        return "tuple"

    def items(self, n, vk):
        rng = self.rng
        if self.family == "tuple":
            self.k += n
            return [[x] for x in range(self.k - n + 1, self.k + 1)]
        if vk == "bool":
            return [rng.randint(0, 1) for _ in range(n)]
        if vk == "frac":
            return [enc(Fraction(rng.randint(-20, 20), rng.choice([1, 2, 3, 5, 7]))) for _ in range(n)]
        if vk == "float" or self.family == "float":
            return [enc(Fraction(rng.randint(-64, 64), rng.choice([1, 2, 4, 8]))) for _ in range(n)]
        if rng.random() < 0.5:                      # distinct powers of two: every item visible in every sum
            self.k += n
            return [1 << (self.k - n + i) for i in range(n)]
        if rng.random() < 0.1:
            return [rng.choice([-1, 1]) * (2 ** 70 + rng.randint(0, 9)) for _ in range(n)]
        return [rng.randint(-9, 9) for _ in range(n)]

    def wrong_item(self):
        """an item the running sum cannot take"""
        if self.family == "tuple":
            return self.rng.choice([None, 3, 0])
        return self.rng.choice([None, [1], []])


def _drain(c, i):
    """nexts that certainly pass the end of everything mixer i was given"""
    def length(ops, mixers_ops):
        T = Fraction(0)
        n = last = 0
        for op in ops:
            if op["op"] == "add" and dec(op["delta"]) >= 0:
                T += dec(op["delta"])
                ln = len(op["data"]) if "data" in op else (3 if "ctl" in op else length(mixers_ops[op["from"]], mixers_ops))
                last = max(last, max(int(T) + 1, n) + ln)
            elif op["op"] == "next":
                n += 1
        return last
    per = [[op for op in c["ops"] if op["op"] != "ctlset" and op.get("m", 0) == j] for j in range(len(c["mixers"]))]
    n = sum(1 for op in per[i] if op["op"] == "next")
    return max(0, length(per[i], per) - n) + 2


def random_case(rng, big=False, nm=None):
    g = _Gen(rng, big)
    if nm is None:
        nm = rng.choice([1, 1, 1, 1, 2, 2, 3])
    mixers = []
    for _ in range(nm):
        shape = rng.choice(["kw", "kw", "pos", "pos-kw", "kw-rev", "zero-only", "keep-only", "keep-only-kw", "none"])
        keep = rng.random() < 0.3
        kk = rng.choice(["bool", "bool", "int", "str", "list"] + ([] if keep else ["none"]) +
                        (["float"] if g.family == "float" else []))
        z, zk = g.zero()
        if shape in ("keep-only", "keep-only-kw", "none"):
            if g.family != "float":
                shape = "kw"
            else:
                z, zk = 0, "float"
        if shape in ("zero-only", "none"):
            keep, kk = False, "bool"
        mixers.append({"keep": keep, "kk": kk, "zero": z, "zk": zk, "shape": shape})
    hubs = {}
    for h in range(rng.choice([0, 0, 1, 1, 2])):
        vk = g.vk()
        hubs["h%d" % h] = {"data": g.items(rng.choice([0, 1, 2, 3, 5]), vk), "vk": vk, "n": rng.choice([1, 2, 2, 3])}
    left = dict((k, h["n"]) for k, h in hubs.items())
    ctls = {}
    if g.family != "tuple" and rng.random() < 0.2:
        vk = g.vk()
        ctls["c0"] = {"init": g.items(1, vk)[0], "vk": vk}
    ctl_free = set(ctls)
    has_ctl = [False] * nm
    c = {"entry": "streamix_sys", "family": g.family, "mixers": mixers, "hubs": hubs, "ctls": ctls, "ops": []}
    ops = c["ops"]
    closed = [False] * nm
    keep = [m["keep"] for m in mixers]
    p_next = rng.choice([0.0, 0.25, 0.5, 0.75])
    p_fail = rng.choice([0.08, 0.15, 0.3])
    for _ in range(rng.randint(2, 36 if big else 14)):
        live = [i for i in range(nm) if not closed[i]]
        if not live:
            break
        i = rng.choice(live)
        r = rng.random()
        kw = rng.choice(["pos", "pos", "pos", "kw", "kw-rev", "mixed"])
        if r < p_next:
            ops.extend([{"m": i, "op": "next"}] * rng.choice([1, 1, 1, 2, 3, 5]))
            continue
        r = rng.random()
        d, dk = _rand_delta(rng)
        if ctls and rng.random() < 0.25:                     # the ControlStream: assign it / add it as an event
            k = "c0"
            if k in ctl_free and rng.random() < 0.4:
                ctl_free.discard(k)
                has_ctl[i] = True
                ops.append({"m": i, "op": "add", "delta": enc(min(d, Fraction(6))), "dk": dk if d <= 6 else "float",
                            "ctl": k, "kw": kw})
            else:
                v = None if rng.random() < 0.06 else g.items(1, ctls[k]["vk"])[0]
                ops.append({"op": "ctlset", "ctl": k, "v": v, "vk": ctls[k]["vk"]})
            continue
        if r < p_fail:                                       # an add whose iter(data) raises
            hows = ["none", "int", "float", "iterraise"] + [("hub", k) for k, n in left.items() if n == 0] * 3
            how = rng.choice(hows)
            if rng.random() < 0.12:                           # … with a negative delta as well: ValueError wins
                d, dk = -Fraction(rng.randint(1, 8), rng.choice([1, 2, 4])), rng.choice(["float", "frac", "int"])
                if dk == "int":
                    d = Fraction(int(d) or -1)
            op = {"m": i, "op": "addfail", "delta": enc(d), "dk": dk, "kw": kw}
            if isinstance(how, tuple):
                op.update(how="hub", hub=how[1], err="IndexError")
            elif how == "iterraise":
                op.update(how=how, err=rng.choice(RAISE_KINDS[:-1]))
            else:
                op.update(how=how, err="TypeError")
            ops.append(op)
        elif r < p_fail + 0.05:                              # rejected negative delta, good data
            d = -Fraction(rng.randint(1, 8), rng.choice([1, 2, 4]))
            vk = g.vk()
            ops.append({"m": i, "op": "add", "delta": enc(d), "dk": rng.choice(["float", "frac"]),
                        "data": g.items(rng.randint(0, 3), vk), "vk": vk, "c": "list", "kw": kw})
        elif r < p_fail + 0.10:
            v = rng.random() < 0.5
            ops.append({"m": i, "op": "keep", "v": v,
                        "kv": rng.choice(["bool", "int", "str", "list"] + ([] if v else ["none"]))})
            keep[i] = v
        elif r < p_fail + 0.16 and nm > 1:                   # a whole mixer as the data of another one
            cand = [j for j in live if j != i and not keep[j] and not has_ctl[j] and any(o.get("m") == j for o in ops)]
            if cand:
                j = rng.choice(cand)
                ops.append({"m": i, "op": "add", "delta": enc(d), "dk": dk, "from": j, "kw": kw})
                closed[j] = True
        elif r < p_fail + 0.30 and any(n > 0 for n in left.values()):   # a copy of a hub
            k = rng.choice([k for k, n in left.items() if n > 0])
            left[k] -= 1
            ops.append({"m": i, "op": "add", "delta": enc(d), "dk": dk, "hub": k, "data": list(hubs[k]["data"]),
                        "vk": hubs[k]["vk"], "kw": kw})
        else:
            vk = g.vk()
            n = rng.choice([0, 1, 1, 2, 3, 4, 7])
            data = g.items(n, vk)
            cont = rng.choice(["list", "list", "tuple", "iter", "gen", "stream", "deque"])
            r2 = rng.random()
            if r2 < 0.10:                                     # an item the sum cannot take
                data.insert(rng.randint(0, len(data)), g.wrong_item())
            elif r2 < 0.20:                                   # the event's iterator raises in the middle
                kind = rng.choice(RAISE_KINDS)
                item = {"raise": "RuntimeError", "py": "StopIteration"} if kind == "StopIteration" else {"raise": kind}
                data.insert(rng.randint(0, len(data)), item)
                cont = rng.choice(["gen", "gen", "stream"])
            ops.append({"m": i, "op": "add", "delta": enc(d), "dk": dk, "data": data, "vk": vk, "c": cont, "kw": kw})
    # drain every mixer that is still open; a little more for a kept one
    for i in range(nm):
        if not closed[i] and rng.random() < 0.85:
            for _ in range(_drain(c, i) + rng.choice([0, 0, 1, 3])):
                ops.append({"m": i, "op": "next"})
                if has_ctl[i] and rng.random() < 0.3:       # the value assigned between two reads
                    ops.append({"op": "ctlset", "ctl": "c0", "v": g.items(1, ctls["c0"]["vk"])[0], "vk": ctls["c0"]["vk"]})
    # life after the end / after a raise: more adds (good and failing) and nexts
    if rng.random() < 0.3:
        i = rng.choice(range(nm))
        if not closed[i]:
            for _ in range(rng.randint(1, 3)):
                d, dk = _rand_delta(rng)
                if rng.random() < 0.4:
                    ops.append({"m": i, "op": "addfail", "delta": enc(d), "dk": dk, "how": "none", "err": "TypeError"})
                else:
                    vk = g.vk()
                    ops.append({"m": i, "op": "add", "delta": enc(d), "dk": dk, "data": g.items(rng.randint(0, 2), vk),
                                "vk": vk, "c": "list"})
                ops.extend([{"m": i, "op": "next"}] * rng.randint(0, 2))
    return c


def exhaustive(tier):
    """every word over {good add, failing add (3 kinds), negative add, next} of a fixed length on one
    int mixer, failing adds at every position, keep on/off"""
    import itertools
    H = Fraction(1, 2)
    alpha = [("n",), ("a", Fraction(0), 2), ("a", H, 1), ("a", 3 * H, 2),
             ("f", Fraction(1), "none"), ("f", 3 * H, "iterraise"), ("f", Fraction(2), "float"), ("neg",)]
    wl = 4 if tier == "quick" else 5
    cases = []
    for w in itertools.product(alpha, repeat=wl):
        if not any(x[0] == "f" for x in w) or not any(x[0] == "a" for x in w):
            continue
        for keep in (False, True):
            k = 0
            ops = []
            for x in w:
                if x[0] == "n":
                    ops.append({"m": 0, "op": "next"})
                elif x[0] == "a":
                    ops.append({"m": 0, "op": "add", "delta": enc(x[1]), "dk": "float" if x[1].denominator != 1 else "int",
                                "data": [1 << (k + i) for i in range(x[2])], "vk": "int", "c": "list"})
                    k += x[2]
                elif x[0] == "f":
                    ops.append({"m": 0, "op": "addfail", "delta": enc(x[1]), "dk": "float", "how": x[2],
                                "err": "KeyError" if x[2] == "iterraise" else "TypeError"})
                else:
                    ops.append({"m": 0, "op": "addfail", "delta": -1, "dk": "int", "how": "none", "err": "TypeError"})
            c = {"entry": "streamix_sys", "family": "int", "hubs": {},
                 "mixers": [{"keep": keep, "kk": "bool", "zero": 0, "zk": "int", "shape": "kw"}], "ops": ops}
            c["ops"] = ops + [{"m": 0, "op": "next"}] * _drain(c, 0)
            cases.append(c)
    return cases


# ----------------------------------------------------------------------------------------------
# histograms, shrinking, neighbours
# ----------------------------------------------------------------------------------------------
def tally(eng, c, io):
    eng.count("sys_mixers", len(c["mixers"]))
    eng.count("sys_family", c.get("family", "?"))
    eng.count("sys_hubs", len(c.get("hubs", {})))
    for m in c["mixers"]:
        eng.count("sys_ctor_shape", m.get("shape", "kw"))
        eng.count("sys_keep_spelling", "%s:%s" % (m.get("kk", "bool"), bool(m["keep"])))
        eng.count("sys_zero_kind", m["zk"] + ("" if m["zero"] in (0, [], None) else "-nonzero"))
    if "err" in io:
        eng.count("impl_error", io["err"])
        return
    pos = [0] * len(c["mixers"])
    seen_next = [False] * len(c["mixers"])
    dead = [None] * len(c["mixers"])
    fails_then_good = False
    failed = [False] * len(c["mixers"])
    for op in c["ops"]:
        if op["op"] == "ctlset":
            eng.count("sys_branch", "ControlStream.value:=" + ("None" if op["v"] is None else "number"))
            continue
        i = op.get("m", 0)
        st = io["mixers"][i][pos[i]]
        pos[i] += 1
        o = st[0]
        when = ("after-" + dead[i]) if dead[i] else ("during-playback" if seen_next[i] else "before-playback")
        if op["op"] == "addfail":
            eng.count("sys_branch", "addfail:%s:%s" % (op["how"], _kind(o)))
            eng.count("sys_addfail_when", when)
            eng.count("sys_delta_kind", op.get("dk", "int"))
            if isinstance(o, dict) and o.get("err") != "ValueError":
                failed[i] = True
        elif op["op"] == "add":
            src = "mixer" if "from" in op else ("hub" if "hub" in op else ("ControlStream" if "ctl" in op else op.get("c", "list")))
            eng.count("sys_data_kind", src)
            eng.count("sys_delta_kind", op.get("dk", "int"))
            eng.count("sys_add_call", op.get("kw", "pos"))
            eng.count("sys_branch", "add:" + _kind(o))
            if "data" in op:
                if any(isinstance(x, dict) for x in op["data"]):
                    eng.count("sys_event", "iterator-raises:" + [x for x in op["data"] if isinstance(x, dict)][0]["raise"])
                elif any(x is None for x in op["data"]):
                    eng.count("sys_event", "has-None-item")
                eng.count("sys_item_kind", op.get("vk", "int"))
            if o == "ok" and failed[i] and not dead[i]:
                fails_then_good = True
        elif op["op"] == "next":
            seen_next[i] = True
            if o == "stop":
                eng.count("sys_branch", "next:stop" + ("-after-" + dead[i] if dead[i] else ""))
                dead[i] = dead[i] or "end"
            elif isinstance(o, dict) and "err" in o:
                eng.count("sys_branch", "next:raises:" + o["err"])
                eng.count("sys_playing_when_raised", min(st[2] or 0, 4))
                dead[i] = "raise"
            else:
                eng.count("sys_branch", "next:out")
        else:
            eng.count("sys_branch", "keep:=%s(%s)" % (op["v"], op.get("kv", "bool")))
    eng.count("sys_failed_add_followed_by_good_add", fails_then_good)


def _without_op(c, idx):
    ops = c["ops"]
    return dict(c, ops=ops[:idx] + ops[idx + 1:])


def shrink(c):
    return [x for x in _shrink(c) if valid(x)]


def _shrink(c):
    ops = c["ops"]
    n = len(ops)
    for k in (n // 2, n - 1, n - 2, n - 4):
        if 0 < k < n:
            yield dict(c, ops=ops[:k])
    for i in range(n):
        yield _without_op(c, i)
    for i in range(0, n - 3, 2):
        yield dict(c, ops=ops[:i] + ops[i + 3:])
    if len(c["mixers"]) > 1:                   # keep one mixer only
        for j in range(len(c["mixers"])):
            sub = [dict(op, m=0) for op in ops if op.get("m", 0) == j and "from" not in op]
            yield dict(c, mixers=[c["mixers"][j]], ops=sub)
    for i, op in enumerate(ops):
        if op["op"] == "add" and "data" in op and "hub" not in op:
            data = op["data"]
            if data:
                yield dict(c, ops=ops[:i] + [dict(op, data=data[:-1])] + ops[i + 1:])
                yield dict(c, ops=ops[:i] + [dict(op, data=data[1:])] + ops[i + 1:])
            if op.get("c", "list") not in ("list", "gen"):
                yield dict(c, ops=ops[:i] + [dict(op, c="list")] + ops[i + 1:])
        if op["op"] == "add" and "hub" in op:    # the same items as a plain list
            o2 = dict(op, c="list")
            del o2["hub"]
            yield dict(c, ops=ops[:i] + [o2] + ops[i + 1:])
        if op["op"] == "addfail" and op["how"] != "none":
            o2 = dict(op, how="none", err="TypeError")
            o2.pop("hub", None)
            yield dict(c, ops=ops[:i] + [o2] + ops[i + 1:])
        if op["op"] in ("add", "addfail"):
            d = dec(op["delta"])
            for d2 in (Fraction(0), Fraction(int(d)), d - 1, Fraction(int(2 * d), 2)):
                if d2 != d and d2 >= 0 and d >= 0:
                    yield dict(c, ops=ops[:i] + [dict(op, delta=enc(d2), dk=("int" if d2.denominator == 1 else "float"))] + ops[i + 1:])
            if op.get("kw", "pos") != "pos":
                yield dict(c, ops=ops[:i] + [dict(op, kw="pos")] + ops[i + 1:])
        if op["op"] == "keep" and op.get("kv", "bool") != "bool":
            yield dict(c, ops=ops[:i] + [dict(op, kv="bool")] + ops[i + 1:])
    for j, m in enumerate(c["mixers"]):
        if m.get("shape", "kw") != "kw" or m.get("kk", "bool") != "bool":
            ms = list(c["mixers"])
            ms[j] = dict(m, shape="kw", kk="bool")
            yield dict(c, mixers=ms)
        if m["zero"] not in (0, []) or m["zk"] not in ("int", "tuple"):
            ms = list(c["mixers"])
            ms[j] = dict(m, zero=([] if c.get("family") == "tuple" else 0), zk=("tuple" if c.get("family") == "tuple" else "int"),
                         shape="kw")
            yield dict(c, mixers=ms)
    used = set(op.get("hub") for op in ops)
    for k in list(c.get("hubs", {})):
        if k not in used:
            yield dict(c, hubs=dict((a, b) for a, b in c["hubs"].items() if a != k))


def neighbours(c):
    return [x for x in _neighbours(c) if valid(x)]


def _neighbours(c):
    ops = c["ops"]
    for j in range(len(c["mixers"])):
        ms = list(c["mixers"])
        ms[j] = dict(ms[j], keep=not ms[j]["keep"], kk="bool", shape="kw")
        yield dict(c, mixers=ms)
        yield dict(c, ops=ops + [{"m": j, "op": "next"}] * 2)
    H = Fraction(1, 2)
    for i, op in enumerate(ops):
        if op["op"] in ("add", "addfail"):
            d = dec(op["delta"])
            for d2 in (d + H, d - H, d + 1):
                if d2 >= 0:
                    yield dict(c, ops=ops[:i] + [dict(op, delta=enc(d2), dk="float")] + ops[i + 1:])
        if op["op"] == "addfail":      # the same call dropped: nothing else may change
            yield _without_op(c, i)
        yield dict(c, ops=ops[:i] + [{"m": op.get("m", 0), "op": "next"}] + ops[i:])
        # a failing add before this operation
        yield dict(c, ops=ops[:i] + [{"m": op.get("m", 0), "op": "addfail", "delta": 3, "dk": "int", "how": "none",
                                      "err": "TypeError"}] + ops[i:])
