"""
Deterministic scheduler offered to the code under test in place of `threading` (C17).

Real OS threads underneath, but only the thread granted by the scheduler runs: every
operation on a `Lock`, `Event`, `Thread` of this module (every call of the fake audio
backend, see fakeaudio.py, and — for the fine-grained cases — every pull of an item from a
played iterable, `iter_point`) is a *yield point*: the calling thread publishes the pending
operation and blocks on a private gate until the scheduler grants it.  A run is a function of
the schedule (list of thread ids chosen among the enabled pending operations); beyond the end
of the given schedule the default policy is non-preemptive (continue the running thread when it
is enabled, else the enabled thread of lowest id).  "No enabled operation while some thread is
unfinished" is a deadlock and is detected without timeouts.  Every run is bounded by a step
budget.

Thread ids: 0 = the control script, 1 + k = the k-th `Thread` object created.

Atomicity: granting an operation performs its effect and lets the thread run up to the
publication of its next operation.  The Lean transition system has the same granularity.
"""
import threading as _th

ThreadError = RuntimeError          # as in CPython 3
_cur = None                          # the scheduler of the run in progress


class SchedAbort(BaseException):
    """Raised inside scheduled threads to unwind them (deadlock, budget, bad schedule)."""


class _Rec(object):
    __slots__ = ("tid", "gate", "pending", "finished", "os", "crash", "obj", "ident")

    def __init__(self, tid, obj=None):
        self.tid = tid
        self.gate = _th.Lock()
        self.gate.acquire()
        self.pending = None          # (label, enabled_fn)
        self.finished = False
        self.os = None
        self.crash = None
        self.obj = obj
        self.ident = None


class Scheduler(object):
    def __init__(self, schedule=(), budget=2000, namer=None):
        self.schedule = list(schedule)
        self.budget = budget
        self.namer = namer or (lambda obj: None)
        self.recs = []               # by tid
        self.by_ident = {}
        self.thread_objs = []        # sched.Thread instances in creation order
        self.trace = []              # (chosen tid, [(tid, label, enabled)])
        self.chosen = []
        self.aborting = False
        self.outcome = None          # "done" | "deadlock" | "budget" | "bad-schedule"
        self.done_evt = _th.Event()
        self.last = None
        self.anon = {}
        self.hook_errors = []
        self.on_end = None           # called once, at the moment the outcome is decided

    # -- naming --------------------------------------------------------------------------
    def name_of(self, obj, kind):
        try:
            n = self.namer(obj)
        except Exception as e:       # the namer is harness code: never let it disturb the run
            self.hook_errors.append(repr(e))
            n = None
        if n is None:
            k = self.anon.setdefault(id(obj), len(self.anon))
            n = "%s?%d" % (kind, k)
        return n

    # -- thread records ------------------------------------------------------------------
    def me(self):
        return self.by_ident.get(_th.get_ident())

    def spawn(self, tid, fn, obj=None):
        """Create the record + OS thread of scheduled thread `tid`; its first pending
        operation is `begin` (always enabled)."""
        while len(self.recs) <= tid:
            self.recs.append(None)
        rec = _Rec(tid, obj)
        self.recs[tid] = rec
        rec.pending = ("begin", _true)

        def body():
            rec.ident = _th.get_ident()
            self.by_ident[rec.ident] = rec
            rec.gate.acquire()                   # wait for the grant of `begin`
            try:
                if self.aborting:
                    raise SchedAbort()
                rec.pending = None
                fn()
            except SchedAbort:
                rec.finished = True
                self._check_all_unwound()
                return
            except BaseException as e:           # the thread dies, as with threading.Thread
                rec.crash = type(e).__name__ + ": " + str(e)[:200]
            rec.finished = True
            rec.pending = None
            if self.aborting:
                self._check_all_unwound()
                return
            try:
                self._dispatch(rec)
            except SchedAbort:
                self._check_all_unwound()

        t = _th.Thread(target=body)
        t.daemon = True
        rec.os = t
        t.start()
        return rec

    def _check_all_unwound(self):
        if all(r is None or r.finished for r in self.recs):
            self.done_evt.set()

    # -- the yield point -----------------------------------------------------------------
    def op(self, label, enabled, effect):
        rec = self.me()
        if rec is None or rec.finished:
            # called from outside the scheduled world (controller, __del__): plain effect
            return effect()
        if self.aborting:
            # unwinding: nothing may run on (a loop in the code under test would spin for ever);
            # only releases are let through so that `with lock:` blocks unwind quietly
            if label.endswith(".rel"):
                try:
                    return effect()
                except Exception:
                    return None
            raise SchedAbort()
        rec.pending = (label, enabled)
        self._dispatch(rec)
        if self.aborting:
            raise SchedAbort()
        rec.pending = None
        return effect()

    def _end_hook(self):
        if self.on_end is not None:
            f, self.on_end = self.on_end, None
            try:
                f()
            except Exception as e:
                self.hook_errors.append("on_end: %r" % (e,))

    def _abort(self, outcome, caller):
        self.outcome = outcome
        self._end_hook()             # observables are taken before the threads are unwound
        self.aborting = True
        for r in self.recs:
            if r is not None and not r.finished and r is not caller:
                r.gate.release()
        if caller is None or caller.finished:
            self._check_all_unwound()
            return
        raise SchedAbort()

    def _dispatch(self, caller):
        """Run by the only running thread, after it published its next operation (or finished,
        or, for the controller, caller=None)."""
        live = [r for r in self.recs if r is not None and not r.finished]
        if not live:
            self.outcome = "done"
            self._end_hook()
            self.done_evt.set()
            return
        pend = []
        for r in live:
            lab, en = r.pending
            pend.append((r.tid, lab, bool(en())))
        enabled = [p[0] for p in pend if p[2]]
        k = len(self.trace)
        if not enabled:
            self.trace.append((None, pend))
            self._abort("deadlock", caller)
            return
        if k >= self.budget:
            self.trace.append((None, pend))
            self._abort("budget", caller)
            return
        if k < len(self.schedule):
            c = self.schedule[k]
            if c not in enabled:
                self.trace.append((None, pend))
                self._abort("bad-schedule", caller)
                return
        else:
            c = self.last if self.last in enabled else enabled[0]
        self.trace.append((c, pend))
        self.chosen.append(c)
        self.last = c
        if caller is not None and caller.tid == c and not caller.finished:
            return
        self.recs[c].gate.release()
        if caller is not None and not caller.finished:
            caller.gate.acquire()

    # -- controller ------------------------------------------------------------------------
    def run(self, main_fn, join_timeout=20.0):
        global _cur
        _cur = self
        try:
            self.spawn(0, main_fn)
            self._dispatch(None)
            ok = self.done_evt.wait(join_timeout)
            stuck = []
            for r in self.recs:
                if r is not None:
                    r.os.join(join_timeout if ok else 0.2)
                    if r.os.is_alive():
                        stuck.append(r.tid)
            if not ok or stuck:
                self.outcome = "INFRA-stuck:%s" % stuck
        finally:
            _cur = None
        return self.outcome


def _true():
    return True


def _op(label_fn, enabled, effect, owner=None):
    """Yield point.  `owner` = the scheduler under which the object was created: an object that
    survived from an earlier run (e.g. `AudioIO.__del__` calling `close()` at garbage-collection
    time inside some later run) acts directly and is invisible to the run in progress."""
    s = _cur
    if s is None or (owner is not s):
        return effect()
    rec = s.me()
    if rec is None or rec.finished:
        return effect()
    return s.op(label_fn(s), enabled, effect)


# ------------------------------------------------------------------------------------------
# the `threading` facade
# ------------------------------------------------------------------------------------------
class Lock(object):
    def __init__(self):
        self._owner = None           # tid of the holder, or -1 (outside), None = free
        self._s = _cur

    def _take(self):
        s = _cur
        rec = s.me() if s is not None else None
        self._owner = rec.tid if rec is not None else -1
        return True

    def acquire(self, blocking=True, timeout=-1):
        if not blocking:
            def eff():
                if self._owner is None:
                    return self._take()
                return False
            return _op(lambda s: s.name_of(self, "lock") + ".tryacq", _true, eff, self._s)
        return _op(lambda s: s.name_of(self, "lock") + ".acq",
                   lambda: self._owner is None, self._take, self._s)

    def release(self):
        def eff():
            if self._owner is None and self._s is _cur and _cur is not None and not _cur.aborting:
                raise RuntimeError("release unlocked lock")
            self._owner = None
        return _op(lambda s: s.name_of(self, "lock") + ".rel", _true, eff, self._s)

    def locked(self):
        return self._owner is not None

    __enter__ = acquire

    def __exit__(self, *a):
        self.release()


class RLock(Lock):
    """Re-entrant variant (not used by lazy_io today; offered so that a refactor still loads)."""

    def __init__(self):
        Lock.__init__(self)
        self._count = 0

    def acquire(self, blocking=True, timeout=-1):
        s = _cur
        rec = s.me() if s is not None else None
        tid = rec.tid if rec is not None else -1

        def eff():
            self._owner = tid
            self._count += 1
            return True
        return _op(lambda s: s.name_of(self, "lock") + ".acq",
                   lambda: self._owner is None or self._owner == tid, eff, self._s)

    def release(self):
        def eff():
            self._count -= 1
            if self._count == 0:
                self._owner = None
        return _op(lambda s: s.name_of(self, "lock") + ".rel", _true, eff, self._s)

    __enter__ = acquire


class Event(object):
    def __init__(self):
        self._flag = False
        self._s = _cur

    def set(self):
        def eff():
            self._flag = True
        return _op(lambda s: s.name_of(self, "event") + ".set", _true, eff, self._s)

    def clear(self):
        def eff():
            self._flag = False
        return _op(lambda s: s.name_of(self, "event") + ".clear", _true, eff, self._s)

    def is_set(self):
        return _op(lambda s: s.name_of(self, "event") + ".is_set", _true, lambda: self._flag, self._s)

    isSet = is_set

    def wait(self, timeout=None):
        if timeout is not None:
            # a timed wait never blocks for ever: it is always enabled and reports the flag
            return _op(lambda s: s.name_of(self, "event") + ".timedwait", _true, lambda: self._flag, self._s)
        return _op(lambda s: s.name_of(self, "event") + ".wait", lambda: self._flag, lambda: True, self._s)


class Thread(object):
    def __init__(self, group=None, target=None, name=None, args=(), kwargs=None, daemon=None):
        self._target, self._args, self._kwargs = target, args, kwargs or {}
        self.name = name
        self.daemon = bool(daemon)
        self._rec = None
        self._index = None
        s = self._s = _cur
        if s is not None:
            self._index = len(s.thread_objs)
            s.thread_objs.append(self)

    def run(self):
        if self._target is not None:
            self._target(*self._args, **self._kwargs)

    def _label(self, s, what):
        return "th%s.%s" % ("?" if self._index is None else self._index, what)

    def start(self):
        def eff():
            if self._rec is not None:
                raise RuntimeError("threads can only be started once")
            s = _cur
            self._rec = s.spawn(1 + self._index, self.run, self)
        if _cur is None:
            raise RuntimeError("sched.Thread started outside a scheduled run")
        return _op(lambda s: self._label(s, "start"), _true, eff, self._s)

    def join(self, timeout=None):
        if self._rec is None:
            raise RuntimeError("cannot join thread before it is started")
        if timeout is not None:
            return _op(lambda s: self._label(s, "timedjoin"), _true, lambda: None, self._s)
        return _op(lambda s: self._label(s, "join"), lambda: self._rec.finished, lambda: None, self._s)

    def is_alive(self):
        return _op(lambda s: self._label(s, "is_alive"), _true,
                   lambda: self._rec is not None and not self._rec.finished, self._s)

    isAlive = is_alive

    # inspection for the harness (not a yield point)
    def _alive_now(self):
        return self._rec is not None and not self._rec.finished


def current_thread():
    s = _cur
    rec = s.me() if s is not None else None
    return rec.obj if rec is not None else None


def iter_point(owner):
    """Yield point inside a played iterable (props/c17.py `Hooked`): the thread that asks the
    iterable for its next item publishes `it<k>.pull` (k = index of the asking Thread object) and
    waits for the grant, so that a thread switch can happen in the middle of filling a chunk."""
    s = _cur
    if s is None or owner is not s:
        return None
    rec = s.me()
    if rec is None or rec.finished:
        return None
    return s.op("it%s.pull" % ("?" if rec.tid == 0 else rec.tid - 1), _true, lambda: None)


def backend_op(label, effect, owner):
    """Yield point for a call of the fake audio backend (`owner` = scheduler of its run)."""
    return _op(lambda s: label, _true, effect, owner)
