"""Run the repository's baseline test command (guard off: there are no hooks) and compare with
/root/.vp/BASELINE.json: every stable_pass test must still pass.

  /venv/bin/python harness/baseline_check.py [repo dir]
"""
import json, os, subprocess, sys, tempfile
import xml.etree.ElementTree as ET


def main():
    repo = sys.argv[1] if len(sys.argv) > 1 else "/repo"
    base = json.load(open("/root/.vp/BASELINE.json"))
    with tempfile.TemporaryDirectory() as d:
        x = os.path.join(d, "r.xml")
        subprocess.run(["/venv/bin/python", "-m", "pytest", "-ra", "-q", "-p", "no:cacheprovider", "--timeout=900",
                        "--continue-on-collection-errors", "--junitxml=" + x], cwd=repo,
                       stdout=subprocess.DEVNULL, stderr=subprocess.DEVNULL)
        passed, failed = set(), set()
        for tc in ET.parse(x).getroot().iter("testcase"):
            tid = (tc.get("classname") or "") + "::" + (tc.get("name") or "")
            if tc.find("failure") is not None or tc.find("error") is not None:
                failed.add(tid)
            elif tc.find("skipped") is None:
                passed.add(tid)
        passed -= failed
    cov = os.path.join(repo, ".coverage")
    missing = sorted(set(base["stable_pass"]) - passed)
    print("passed=%d failed=%d stable_pass=%d missing_from_pass=%d" % (len(passed), len(failed), len(base["stable_pass"]), len(missing)))
    for m in missing[:20]:
        print("  NOT PASSING:", m)
    return 1 if missing else 0


if __name__ == "__main__":
    sys.exit(main())
