"""
Fake `pyaudio` / `_portaudio` backends for C17 and the loader that executes the *unmodified
source text* of <repo>/audiolazy/lazy_io.py as a second module whose `threading`, `pyaudio`
and `_portaudio` imports resolve to the scheduler (sched.py) and to these fakes.

The fakes follow the PortAudio protocol closely enough to turn protocol errors into
exceptions: write on a stopped / closed stream, stop/start/close of a closed stream, any call
after `terminate`.  Every backend call is a yield point of the scheduler.
"""
import builtins
import os
import sys
import types

import sched


class Backend(object):
    """State of the fake device for one run."""

    def __init__(self):
        self.streams = []            # FakeStream, in order of `open`
        self.opens = 0
        self.terminates = 0
        self.inits = 0
        self.protocol_errors = []    # backend calls that PortAudio would refuse
        self.owner = sched._cur      # set again by the run (see props/c17.py)
        # fault injection (props/c17.py): {"write": {stream index: number of writes that succeed
        # before one raises}, "open": [ordinals of the pa.open calls that raise], "terminate": True
        # (pa.terminate raises after having terminated), "close": [stream indices whose close raises]}
        self.faults = {}
        self.open_calls = 0
        self.apis = []               # host API infos (dicts) for AudioIO(api=...)
        self.input = {}              # stream index -> function(read ordinal, nframes) -> bytes

    def injected(self, what):
        raise IOError("injected %s failure" % what)

    def error(self, what):
        self.protocol_errors.append(what)
        raise IOError(what)


_backend = None                      # set per run by new_backend()


def new_backend():
    global _backend
    _backend = Backend()
    return _backend


class FakeStream(object):
    def __init__(self, pa, index, kwargs):
        self._parent = pa
        self._stream = self          # what lazy_io hands to _portaudio.write_stream
        self.index = index
        self.kwargs = dict(kwargs)
        self.state = "active" if kwargs.get("start", True) else "stopped"
        self.writes = []             # (bytes, nframes)
        self.reads = []              # nframes of each read (input streams)
        self.calls = []
        self.be = _backend

    def _name(self):
        return "st%d" % self.index

    def _check_alive(self, what):
        b = self.be
        if b.terminates:
            b.error("%s.%s after terminate" % (self._name(), what))
        if self.state == "closed":
            b.error("%s.%s on a closed stream" % (self._name(), what))

    def stop_stream(self):
        def eff():
            self._check_alive("stop")
            self.calls.append("stop")
            self.state = "stopped"
        return sched.backend_op(self._name() + ".stop", eff, self.be.owner)

    def start_stream(self):
        def eff():
            self._check_alive("start")
            self.calls.append("start")
            self.state = "active"
        return sched.backend_op(self._name() + ".start", eff, self.be.owner)

    def close(self):
        def eff():
            self._check_alive("close")
            if self.index in self.be.faults.get("close", ()):
                self.calls.append("close!")
                self.be.injected("close")    # the stream stays open (and listed in pa._streams)
            self.calls.append("close")
            self.state = "closed"
            self._parent._streams.remove(self)
        return sched.backend_op(self._name() + ".close", eff, self.be.owner)

    def write(self, frames, num_frames=None, exception_on_underflow=False):
        return write_stream(self, frames, num_frames, exception_on_underflow)

    def read(self, num_frames, exception_on_overflow=True):
        def eff():
            self._check_alive("read")
            if not self.kwargs.get("input"):
                self.be.error("%s.read on an output stream" % self._name())
            k = len(self.reads)
            self.calls.append("read")
            data = self.be.input[self.index](k, num_frames)
            self.reads.append(num_frames)
            return data
        return sched.backend_op(self._name() + ".read", eff, self.be.owner)

    def is_active(self):
        return self.state == "active"

    def is_stopped(self):
        return self.state == "stopped"


def write_stream(st, data, nframes, exception_on_underflow=False):
    def eff():
        st._check_alive("write")
        if st.state != "active":
            st.be.error("%s.write on a stopped stream" % st._name())
        ok = st.be.faults.get("write", {}).get(st.index)
        if ok is not None and len(st.writes) >= ok:
            st.calls.append("write!")
            st.be.injected("write")
        st.calls.append("write")
        st.writes.append((bytes(data), nframes))
    return sched.backend_op(st._name() + ".write", eff, st.be.owner)


class PyAudio(object):
    def __init__(self):
        self.be = _backend
        self.be.inits += 1
        self._streams = set()

    def open(self, **kwargs):
        def eff():
            b = self.be
            if b.terminates:
                b.error("pa.open after terminate")
            b.open_calls += 1
            if (b.open_calls - 1) in b.faults.get("open", ()):
                b.injected("open")
            st = FakeStream(self, len(b.streams), kwargs)
            b.streams.append(st)
            b.opens += 1
            self._streams.add(st)
            return st
        return sched.backend_op("pa.open", eff, self.be.owner)

    def _remove_stream(self, st):
        self._streams.discard(st)

    def terminate(self):
        def eff():
            b = self.be
            b.terminates += 1
            if self._streams:
                b.protocol_errors.append("pa.terminate with %d open streams" % len(self._streams))
            self._streams = set()
            if b.faults.get("terminate"):
                b.injected("terminate")      # the backend is terminated all the same; the call raises
        return sched.backend_op("pa.terminate", eff, self.be.owner)

    def get_host_api_count(self):
        return len(self.be.apis)

    def get_host_api_info_by_index(self, k):
        return dict(self.be.apis[k])


def _module(name, **attrs):
    m = types.ModuleType(name)
    m.__dict__.update(attrs)
    return m


fake_pyaudio = _module("pyaudio", PyAudio=PyAudio, Stream=FakeStream,
                       paFloat32=1, paInt32=2, paInt16=8, paInt8=16, paUInt8=32)
fake_portaudio = _module("_portaudio", write_stream=write_stream)
FAKES = {"threading": sched, "pyaudio": fake_pyaudio, "_portaudio": fake_portaudio}

_loaded = {}


def load_lazy_io(repo):
    """Execute the current source text of <repo>/audiolazy/lazy_io.py as module
    `audiolazy.lazy_io_sched` under a custom `__import__` (nothing in the repo is patched)."""
    if repo in _loaded:
        return _loaded[repo]
    import audiolazy  # noqa: F401  (the package the relative imports of lazy_io resolve in)
    path = os.path.join(repo, "audiolazy", "lazy_io.py")
    with open(path) as f:
        src = f.read()
    mod = types.ModuleType("audiolazy.lazy_io_sched")
    mod.__package__ = "audiolazy"
    mod.__file__ = path
    real_import = builtins.__import__

    def imp(name, globals=None, locals=None, fromlist=(), level=0):
        if level == 0 and name in FAKES:
            return FAKES[name]
        return real_import(name, globals, locals, fromlist, level)

    bd = dict(vars(builtins))
    bd["__import__"] = imp
    mod.__dict__["__builtins__"] = bd
    sys.modules["audiolazy.lazy_io_sched"] = mod
    exec(compile(src, path, "exec"), mod.__dict__)
    _loaded[repo] = mod
    return mod
