"""Map the anchored line ranges of properties.jsonl (which refer to the pinned snapshot of /repo) to
qualified function names, so that the anchor coverage of a check (harness/anchorcov.py) follows the
functions when later `fix:` commits move lines.

  /venv/bin/python harness/mkanchors.py        # rewrites harness/anchors.json

For every property: {"files": [...], "functions": {"audiolazy/x.py": ["qualname", ...]}}.  A range that
covers module-level statements only (tables, decorators) contributes the pseudo name "<module>".
"""
import ast, json, os, re, subprocess, warnings
warnings.simplefilter("ignore")

VERIF = os.path.dirname(os.path.dirname(os.path.abspath(__file__)))
PINNED = "a6f426e009700f82c10e275a6796461d2900a25e"


def functions(src):
    """[(qualname, first line incl. decorators, last line)] of every def, nested ones included."""
    out = []

    def walk(node, prefix):
        for ch in ast.iter_child_nodes(node):
            if isinstance(ch, (ast.FunctionDef, ast.AsyncFunctionDef)):
                q = prefix + ch.name
                lo = min([ch.lineno] + [d.lineno for d in ch.decorator_list])
                out.append((q, lo, ch.end_lineno))
                walk(ch, q + ".<locals>.")
            elif isinstance(ch, ast.ClassDef):
                walk(ch, prefix + ch.name + ".")
            else:
                walk(ch, prefix)
    walk(ast.parse(src), "")
    return out


def main():
    res = {}
    for line in open(os.path.join(VERIF, "properties.jsonl")):
        p = json.loads(line)
        a = p["anchors"]
        funcs = {}
        for m in a.get("mechanism", []):
            w = m.get("where", "")
            for part in re.split(r";\s*", w):
                mm = re.match(r"\s*([\w/\.]+\.py):(.*)", part)
                if not mm:
                    continue
                f, ranges = mm.group(1), mm.group(2)
                src = subprocess.run(["git", "-C", "/repo", "show", "%s:%s" % (PINNED, f)],
                                     stdout=subprocess.PIPE, text=True).stdout
                fl = functions(src)
                for r in re.findall(r"(\d+)\s*-\s*(\d+)|(\d+)", ranges):
                    lo, hi = (int(r[0]), int(r[1])) if r[0] else (int(r[2]), int(r[2]))
                    hit = [q for q, a0, b0 in fl if not (b0 < lo or a0 > hi)]
                    # keep the outermost functions that overlap plus their nested defs
                    names = funcs.setdefault(f, [])
                    for q in hit or ["<module>"]:
                        if q not in names:
                            names.append(q)
        res[p["id"]] = {"files": a.get("files", []), "functions": funcs}
    with open(os.path.join(VERIF, "harness", "anchors.json"), "w") as fh:
        json.dump(res, fh, indent=1, sort_keys=True)
    for k, v in sorted(res.items()):
        print(k, {f: len(q) for f, q in v["functions"].items()})


if __name__ == "__main__":
    main()
