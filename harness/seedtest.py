"""Run the owning check against a seeded change.

  /venv/bin/python harness/seedtest.py seeded/<id> [quick|thorough] [--in-repo]

Default: the patch is applied to a scratch copy of /repo (outside /repo and /verif, removed
afterwards) selected through VERIF_REPO, so that /repo is never touched.  With --in-repo the
patch is applied to /repo itself (git apply) and undone straight afterwards (git checkout -- .).
Prints the check's VIOLATION lines and whether the seeded change was caught (exit 0 = caught).
"""
import json, os, shutil, subprocess, sys, tempfile

VERIF = os.path.dirname(os.path.dirname(os.path.abspath(__file__)))


def main():
    args = [a for a in sys.argv[1:] if not a.startswith("--")]
    in_repo = "--in-repo" in sys.argv
    d = os.path.join(VERIF, args[0]) if not os.path.isabs(args[0]) else args[0]
    tier = args[1] if len(args) > 1 else "quick"
    meta = json.load(open(os.path.join(d, "meta.json")))
    pid = meta["property"]
    patch = os.path.join(d, "patch.diff")
    env = dict(os.environ)
    scratch = None
    # the evidence file must come from runs against /repo itself: keep it over this run
    evp = os.path.join(VERIF, "evidence", pid + ".json")
    saved_ev = open(evp).read() if os.path.exists(evp) else None
    try:
        if in_repo:
            subprocess.check_call(["git", "-C", "/repo", "apply", patch])
        else:
            scratch = tempfile.mkdtemp(prefix="seedrun_", dir="/tmp")
            repo = os.path.join(scratch, "repo")
            shutil.copytree("/repo", repo, ignore=shutil.ignore_patterns(".git", "__pycache__", "*.pyc"))
            subprocess.check_call(["git", "init", "-q"], cwd=repo)
            rebased = os.path.join(d, "patch.rebased.diff")
            if subprocess.call(["git", "apply", "--check", patch], cwd=repo, stderr=subprocess.DEVNULL) != 0 \
                    and os.path.exists(rebased):
                # /repo moved on under the seeded hunk (a later fix: commit): the same change re-made by hand
                print("seedtest: patch.diff no longer applies to /repo, using patch.rebased.diff")
                patch = rebased
            subprocess.check_call(["git", "apply", patch], cwd=repo)
            env["VERIF_REPO"] = repo
        p = subprocess.run([os.path.join(VERIF, "check"), pid, tier], env=env, stdout=subprocess.PIPE,
                           stderr=subprocess.STDOUT, text=True)
        out = p.stdout
    finally:
        if in_repo:
            subprocess.call(["git", "-C", "/repo", "checkout", "--", "."])
        if scratch:
            shutil.rmtree(scratch, ignore_errors=True)
        if saved_ev is not None:
            open(evp, "w").write(saved_ev)
        # translators rewrite lean/ALV/Gen/* from the tree under test: put the committed files back
        subprocess.call(["git", "-C", VERIF, "checkout", "--", "lean/ALV/Gen"])
    lines = [l for l in out.splitlines() if l.startswith(("VIOLATION", "KNOWN-FINDING", "INFRA", pid))]
    print("\n".join(lines))
    caught = p.returncode == 1 and any(l.startswith("VIOLATION property=%s " % pid) for l in lines)
    concrete = caught and not any(l.rstrip().endswith("no-failing-input-found") for l in lines if l.startswith("VIOLATION"))
    print("SEED %s property=%s tier=%s: %s%s" % (os.path.basename(d.rstrip("/")), pid, tier,
          "CAUGHT" if caught else "MISSED (exit %d)" % p.returncode,
          " with concrete failing input" if concrete else ""))
    if "--record" in sys.argv:
        meta.setdefault("check_results", {})[tier] = {
            "caught": caught, "concrete_failing_input": bool(concrete),
            "lines": [l for l in lines if l.startswith(("VIOLATION", "KNOWN-FINDING"))][:5]}
        meta["caught_by"] = ("./check %s %s" % (pid, tier)) if caught else meta.get("caught_by")
        json.dump(meta, open(os.path.join(d, "meta.json"), "w"), indent=1)
    return 0 if caught else 1


if __name__ == "__main__":
    sys.exit(main())
