#!/bin/sh
# usage: merge_slice.sh Cxx   — merge deepen3-Cxx into /verif main, regenerate evidence with a quick run
P=$1
cd /verif || exit 2
git merge --no-edit deepen7-$P > /tmp/merge_$P.log 2>&1
if git status --short | grep -q '^UU evidence/'; then
  git checkout --theirs evidence/$P.json && git add evidence/$P.json
fi
if git status --short | grep -q '^\(UU\|AA\|DU\|UD\)'; then echo "CONFLICTS:"; git status --short | grep '^\(UU\|AA\|DU\|UD\)'; exit 1; fi
git commit -qm "Merge deepen7-$P" 2>/dev/null
./check $P quick > /tmp/merge_check_$P.log 2>&1; rc=$?
tail -1 /tmp/merge_check_$P.log
git add -A evidence/$P.json && git commit -qm "$P: evidence of a clean quick run after the merge of deepen7-$P" 2>/dev/null
echo "merge $P done, check exit $rc"
