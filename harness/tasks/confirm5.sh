#!/bin/sh
# usage: confirm5.sh Cxx   — confirm both round-5 seeds of a property (needs text from notes.md) and run them blind
P=$1
cd /verif
for k in 1 2; do
  D=/tmp/seed5_$P/out/$k
  if [ -f $D/patch.diff ]; then
    N=$(python3 - "$D/notes.md" <<'PY'
import re,sys
try:
    s=open(sys.argv[1]).read()
except Exception:
    s=''
m=re.search(r'(?is)(needs?[^\n]*\n)(.*?)(\n#|\n\*\*|\Z)', s)
t=(m.group(2) if m else s[:400])
t=re.sub(r'\s+',' ',t).strip()
print(t[:380])
PY
)
    /venv/bin/python harness/confirm_seed.py /tmp/seed5_$P $D $P-r5-$k $P "$N" > /tmp/confirm_logs/r5-$P-$k.log 2>&1
    rc=$?
    echo "$P-r5-$k confirm exit $rc" >> /tmp/confirm_logs/r5_summary.txt
    if [ $rc = 0 ] && [ -z "$NOSEEDTEST" ]; then
      /venv/bin/python harness/seedtest.py seeded/$P-r5-$k quick --record > /tmp/confirm_logs/r5-seedtest-$P-$k.log 2>&1
      tail -1 /tmp/confirm_logs/r5-seedtest-$P-$k.log >> /tmp/confirm_logs/r5_seedtest_summary.txt
    fi
  fi
done
