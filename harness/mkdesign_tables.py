"""Refresh the generated tables of DESIGN.md (between <!-- BEGIN x --> / <!-- END x --> markers):
findings (from known_findings/*.json) and seeded (from seeded/*/meta.json)."""
import glob, json, os, re
VERIF = os.path.dirname(os.path.dirname(os.path.abspath(__file__)))


def findings():
    rows = ["| property | status | commit | signature | witness |", "|---|---|---|---|---|"]
    for f in sorted(glob.glob(os.path.join(VERIF, "known_findings", "C*.json"))):
        for e in json.load(open(f)).get("findings", []):
            rows.append("| %s | %s | %s | `%s` | %s |" % (e["property"], e["status"], e.get("commit", "-"),
                        e["signature"], str(e.get("witness", "")).replace("|", "\\|")[:160]))
    return "\n".join(rows)


def seeded():
    rows = ["| seeded change | property | needs, in order to manifest | first run (the slice had never seen the seed) | quick check now | concrete failing input |", "|---|---|---|---|---|---|"]
    for f in sorted(glob.glob(os.path.join(VERIF, "seeded", "*", "meta.json"))):
        m = json.load(open(f))
        r = m.get("check_results", {}).get("quick")
        res = "not run yet" if r is None else ("caught" if r["caught"] else "MISSED")
        conc = "-" if r is None else ("yes" if r.get("concrete_failing_input") else "no")
        if m.get("check_results", {}).get("thorough", {}).get("caught") and not (r and r["caught"]):
            res += " (thorough: caught)"
        if m.get("also_caught_by"):
            res += "; caught by " + m["also_caught_by"].split(" (")[0]
        b = m.get("blind_result")
        first = "-" if b is None else ("caught" if b["caught"] else "MISSED")
        rows.append("| `%s` | %s | %s | %s | %s | %s |" % (m["id"], m["property"], m["needs_to_manifest"].replace("|", "\\|")[:300], first, res, conc))
    return "\n".join(rows)


def asbuilt():
    rows = ["| property | theorems (all kernel-checked, axioms within propext / Classical.choice / Quot.sound) | PENDING statements (defs, not theorems) | quick tier: cases / distinct non-trivial / wall | anchored lines executed by the tie | driver-run definitions: in a theorem statement / all (untied theorems) |", "|---|---|---|---|---|---|"]
    for i in range(1, 21):
        pid = "C%02d" % i
        ev = os.path.join(VERIF, "evidence", pid + ".json")
        props = os.path.join(VERIF, "lean", "ALV", "Props", pid + ".lean")
        n, cases, dn, wall, acov, tie = "-", "-", "-", "-", "-", "-"
        if os.path.exists(ev):
            e = json.load(open(ev))
            c = e["coverage"]
            n = "%s / %s" % (c.get("discharged"), c.get("obligations"))
            cases, dn, wall = c.get("evaluations"), c.get("distinct_nontrivial"), "%.0f s" % e.get("wall_s", 0)
            a = c.get("anchor_coverage") or {}
            if a.get("available"):
                acov = "%s / %s" % (a.get("executed"), a.get("anchored_lines"))
            t = c.get("proof_tie") or {}
            if t.get("driver_reachable_definitions") is not None:
                tie = "%s / %s (%d)" % (t.get("definitions_in_theorem_statements_and_run"), t.get("driver_reachable_definitions"),
                                        len(t.get("untied_theorems") or []))
        pend = []
        if os.path.exists(props):
            pend = re.findall(r"^def (\w*PENDING\w*|close_returns_no_pause|close_returns_fixed|steps_bounded|gammatone_sampled_first_unit_gain_all_eta)\b", open(props).read(), re.M)
        rows.append("| %s | %s | %s | %s / %s / %s | %s | %s |" % (pid, n, ", ".join("`%s`" % x for x in pend) or "none", cases, dn, wall, acov, tie))
    return "\n".join(rows)


def main():
    p = os.path.join(VERIF, "DESIGN.md")
    s = open(p).read()
    for name, fn in (("findings", findings), ("seeded", seeded), ("asbuilt", asbuilt)):
        pat = re.compile(r"(<!-- BEGIN %s -->\n).*?(<!-- END %s -->)" % (name, name), re.S)
        if pat.search(s):
            s = pat.sub(lambda m: m.group(1) + fn() + "\n" + m.group(2), s)
    open(p, "w").write(s)


if __name__ == "__main__":
    main()
