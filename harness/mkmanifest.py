"""Regenerates /verif/MANIFEST.json from the per-property modules that exist (harness/props/cXX.py).
Each module may define MANIFEST = {"text":..., "note":..., "technique":..., "design_ref":...}."""
import importlib, json, os, sys
HERE = os.path.dirname(os.path.abspath(__file__))
sys.path.insert(0, HERE)
VERIF = os.path.dirname(HERE)
props = [json.loads(l) for l in open(os.path.join(VERIF, "properties.jsonl"))]
checks, na = [], []
PENDING = {}
pf = os.path.join(HERE, "not_applicable.json")
if os.path.exists(pf):
    PENDING = json.load(open(pf))
for p in props:
    pid = p["id"]
    path = os.path.join(HERE, "props", pid.lower() + ".py")
    if not os.path.exists(path) or pid in PENDING:
        na.append({"property_id": pid, "reason": PENDING.get(pid, "check not built yet in this session (planned in DESIGN.md section 7); nothing is claimed for it")})
        continue
    mod = importlib.import_module("props." + pid.lower())
    m = getattr(mod, "MANIFEST", {})
    checks.append({
        "property_id": pid,
        "quick_cmd": "./check %s quick" % pid,
        "thorough_cmd": "./check %s thorough" % pid,
        "evidence_file": "evidence/%s.json" % pid,
        "replay_cmd_template": "./check --replay {path}",
        "engine": "lean4-proof+correspondence",
        "level_claimed": {
            "category": "proof",
            "text": m.get("text", "Lean 4 theorems about a hand-written executable model of the code (for all inputs/histories), tied to /repo by a differential correspondence run on every check"),
            "design_ref": m.get("design_ref", "DESIGN.md section 7, " + pid),
        },
        "level_note": m.get("note", "Trusted: Lean kernel, axioms propext/Classical.choice/Quot.sound, the Python correspondence harness; the model is hand written and validated against the code differentially, not extracted from it."),
        "technique": m.get("technique", "Lean 4 machine-checked proof over an executable model + differential correspondence with the implementation"),
    })
man = {
    "version": 1,
    "setup_cmd": "cd lean && lake build ALV alvdrv",
    "hooks": {
        "guard": "AUDIOLAZY_VERIF",
        "enable": "no instrumentation hooks in /repo: all observation is done from the harness (counting iterators, monkeypatched lazy_filters._exec_eval, fake backends); the guard name is reserved and unused",
        "baseline_off_cmd": "cd /repo && /venv/bin/python -m pytest -ra -q -p no:cacheprovider --timeout=900 --continue-on-collection-errors",
        "source_commits": [],
        "add_only": True,
    },
    "engines": [{
        "name": "lean4-proof+correspondence",
        "path": "check",
        "serves_properties": [c["property_id"] for c in checks],
        "kind_free_text": "Lean 4 library lean/ALV (models, specs, theorems; audited axioms) + native driver alvdrv + Python differential harness harness/",
    }],
    "checks": checks,
    "not_applicable": na,
    "notes": "Decision procedure: DESIGN.md section 4.  known_findings.json lists recorded (known) and repaired (fixed) genuine defects.",
}
json.dump(man, open(os.path.join(VERIF, "MANIFEST.json"), "w"), indent=1)
print("checks:", [c["property_id"] for c in checks], "not_applicable:", [n["property_id"] for n in na])
