"""./check <ID> <quick|thorough>   |   ./check --replay <file>"""
import importlib, json, os, sys
sys.path.insert(0, os.path.dirname(os.path.abspath(__file__)))
import common


def load(pid):
    return importlib.import_module("props." + pid.lower())


def main(argv):
    if len(argv) >= 2 and argv[0] == "--replay":
        path = argv[1]
        if not os.path.isabs(path):
            path = os.path.join(common.VERIF, path)
        r = json.load(open(path))
        mod = load(r["property"])
        eng = common.Engine(mod, r.get("tier", "quick"), r.get("seed", 0))
        print("property:", r["property"], "kind:", r["kind"])
        print("no longer checks:", r.get("no_longer_checks"))
        if r.get("case") is None:
            print("no concrete case recorded (broken proof obligation only)")
            return 0
        ms = eng.evaluate([r["case"]], record=False)
        print("case:", json.dumps(r["case"]))
        try:
            print("impl now:", json.dumps(mod.impl(r["case"]), default=str)[:2000])
        except Exception as e:
            print("impl now raises:", repr(e))
        if ms:
            print("lean:", json.dumps(ms[0].drv)[:2000])
            print("STILL DISAGREES:", ms[0].kinds, ms[0].detail)
            return 1
        print("agrees now")
        return 0
    pid = argv[0]
    tier = argv[1] if len(argv) > 1 else os.environ.get("VERIF_TIER", "quick")
    seed = int(os.environ.get("VERIF_SEED", "0"))
    mod = load(pid)
    return common.Engine(mod, tier, seed).main()


if __name__ == "__main__":
    try:
        rc = main(sys.argv[1:])
    except SystemExit:
        raise
    except BaseException as e:  # a crash of the harness is an infrastructure error, never a violation
        import traceback
        print("INFRA-ERROR harness crashed: %s: %s\n%s" % (type(e).__name__, e, traceback.format_exc()[-1500:]))
        rc = 2
    sys.exit(rc)
