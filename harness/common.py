"""
Shared machinery of every check (DESIGN.md sections 3 and 4).

  A. translators (property module hook `regenerate`)
  B. lake build of the property's theorems + audit (axioms, forbidden tokens)
  C. correspondence impl <-> model (and impl <-> spec) on corpus + generated cases
  D. clean -> exit 0
  E. otherwise failing-input search, known findings, VIOLATION lines

Runs under /venv/bin/python (stdlib only + the repo under test).
"""
from __future__ import annotations
import hashlib, json, os, random, re, subprocess, sys, time, traceback
from fractions import Fraction

VERIF = os.path.dirname(os.path.dirname(os.path.abspath(__file__)))
REPO = os.environ.get("VERIF_REPO", "/repo")
LEAN = os.path.join(VERIF, "lean")
DRV = os.path.join(LEAN, ".lake", "build", "bin", "alvdrv")
ALLOWED_AXIOMS = {"propext", "Classical.choice", "Quot.sound"}
FORBIDDEN = re.compile(r"\bsorry\b|\badmit\b|^\s*axiom\s|native_decide|bv_decide|implemented_by|^\s*unsafe\s|maxHeartbeats\s+0\b")

if REPO not in sys.path:
    sys.path.insert(0, REPO)


# ----------------------------------------------------------------------------
# exact number transport
# ----------------------------------------------------------------------------
def enc(x):
    """Python number -> JSON (int or 'p/q'); floats are taken at their exact binary value."""
    if isinstance(x, bool):
        return int(x)
    if isinstance(x, int):
        return x
    if isinstance(x, Fraction):
        return x.numerator if x.denominator == 1 else "%d/%d" % (x.numerator, x.denominator)
    if isinstance(x, float):
        if x != x:
            return "nan"
        if x in (float("inf"), float("-inf")):
            return "inf" if x > 0 else "-inf"
        return enc(Fraction(x))
    raise TypeError("enc: %r" % (x,))


def dec(j):
    """JSON (int | 'p/q' | float) -> Fraction (or float for non-finite)."""
    if isinstance(j, bool):
        return Fraction(int(j))
    if isinstance(j, int):
        return Fraction(j)
    if isinstance(j, float):
        return Fraction(j)
    if isinstance(j, str):
        if j in ("nan", "inf", "-inf"):
            return float(j)
        return Fraction(j)
    raise TypeError("dec: %r" % (j,))


def encl(xs):
    return [enc(x) for x in xs]


def decl(js):
    return [dec(j) for j in js]


def close(a, b, tol=0):
    """a, b numbers (Fraction / int / float); tol = 0 means exact equality."""
    if isinstance(a, float) and a != a:
        return isinstance(b, float) and b != b
    if isinstance(b, float) and b != b:
        return False
    if tol == 0:
        return a == b
    try:
        return abs(Fraction(a) - Fraction(b)) <= Fraction(tol) * (1 + abs(Fraction(b)))
    except (OverflowError, ValueError):
        return a == b


def close_list(xs, ys, tol=0):
    return len(xs) == len(ys) and all(close(x, y, tol) for x, y in zip(xs, ys))


def err_kind(e):
    """Exception -> small enum."""
    n = type(e).__name__
    known = ("ValueError", "IndexError", "StopIteration", "KeyError", "ZeroDivisionError",
             "ParCorError", "TypeError", "RuntimeError", "AttributeError", "OverflowError",
             "NotImplementedError", "AssertionError")
    return n if n in known else "OTHER:" + n


# ----------------------------------------------------------------------------
# Lean side
# ----------------------------------------------------------------------------
def run(cmd, cwd=None, timeout=None, input=None):
    p = subprocess.run(cmd, cwd=cwd, stdout=subprocess.PIPE, stderr=subprocess.STDOUT,
                       timeout=timeout, input=input, text=True)
    return p.returncode, p.stdout


def lean_sources():
    for root, _dirs, files in os.walk(os.path.join(LEAN, "ALV")):
        for f in files:
            if f.endswith(".lean"):
                yield os.path.join(root, f)
    yield os.path.join(LEAN, "Main.lean")


def strip_comments(text):
    text = re.sub(r"/-.*?-/", "", text, flags=re.S)
    return re.sub(r"--.*", "", text)


def forbidden_tokens():
    hits = []
    for p in lean_sources():
        try:
            src = strip_comments(open(p).read())
        except OSError:
            continue
        for i, line in enumerate(src.splitlines(), 1):
            if FORBIDDEN.search(line):
                hits.append("%s:%d: %s" % (os.path.relpath(p, VERIF), i, line.strip()[:120]))
    return hits


def lake_build(targets, timeout=3000):
    t0 = time.time()
    rc, out = run(["lake", "build"] + list(targets), cwd=LEAN, timeout=timeout)
    return rc == 0, out, time.time() - t0


def read_audit(pid):
    p = os.path.join(LEAN, ".lake", "build", "audit", pid + ".json")
    if not os.path.exists(p):
        # olean up to date but audit file missing: re-elaborate the property file
        run(["lake", "env", "lean", "ALV/Props/%s.lean" % pid], cwd=LEAN, timeout=3000)
    if not os.path.exists(p):
        return None
    return json.load(open(p))


class Driver:
    """Batch access to the compiled Lean model (alvdrv)."""

    def __init__(self):
        self.calls = 0

    def batch(self, requests, timeout=3000):
        if not requests:
            return []
        data = "\n".join(json.dumps(r, separators=(",", ":")) for r in requests) + "\n"
        p = subprocess.run([DRV], input=data, stdout=subprocess.PIPE, stderr=subprocess.PIPE,
                           text=True, timeout=timeout)
        lines = p.stdout.split("\n")
        if lines and lines[-1] == "":
            lines.pop()
        if p.returncode != 0 or len(lines) != len(requests):
            raise RuntimeError("driver failed rc=%s, %d lines for %d requests: %s" %
                               (p.returncode, len(lines), len(requests), p.stderr[-2000:]))
        self.calls += len(requests)
        return [json.loads(l) for l in lines]


# ----------------------------------------------------------------------------
# known findings
# ----------------------------------------------------------------------------
def load_known(pid):
    """known_findings/<ID>.json: {"findings": [{property, status, signature, witness, text, commit?}]}"""
    p = os.path.join(VERIF, "known_findings", pid + ".json")
    if not os.path.exists(p):
        return []
    return [e for e in json.load(open(p)).get("findings", [])
            if e.get("property") == pid and e.get("status") == "known"]


# ----------------------------------------------------------------------------
# the engine
# ----------------------------------------------------------------------------
class Mismatch:
    __slots__ = ("case", "impl", "drv", "kinds", "detail")

    def __init__(self, case, impl, drv, kinds, detail):
        self.case, self.impl, self.drv, self.kinds, self.detail = case, impl, drv, kinds, detail


class Engine:
    def __init__(self, mod, tier, seed):
        self.mod = mod
        self.pid = mod.ID
        self.tier = tier
        self.seed = seed
        self.rng = random.Random(seed * 1000003 + int(self.pid[1:]))
        self.driver = Driver()
        self.t0 = time.time()
        self.stats = {}          # histogram name -> {bucket: count}
        self.samples = []
        self.keys = set()
        self.evaluations = 0
        self.lines = []          # VIOLATION / KNOWN-FINDING lines printed
        self.violations = 0
        self.build = {}
        self.extra = {}

    # --- histogram helper available to property modules through `eng` -------------
    def count(self, hist, bucket, n=1):
        h = self.stats.setdefault(hist, {})
        h[str(bucket)] = h.get(str(bucket), 0) + n

    # --- step A+B ------------------------------------------------------------------
    def step_build(self):
        broken = []
        info = {"regenerate": None}
        if hasattr(self.mod, "regenerate"):
            try:
                info["regenerate"] = self.mod.regenerate(self)
            except Exception as e:  # translation failure = broken obligation
                broken.append("translator: %s: %s" % (type(e).__name__, e))
                info["regenerate"] = "FAILED"
        targets = ["ALV.Props." + self.pid, "alvdrv"]
        ok, out, dt = lake_build(targets)
        info["lake_build_s"] = round(dt, 2)
        if not ok:
            errs = [l for l in out.splitlines() if "error" in l.lower()][:12]
            broken.append("lake build failed: " + " | ".join(errs))
            # the theorems may be broken while the driver still builds
            ok2, out2, _ = lake_build(["alvdrv"])
            info["driver_built"] = ok2
            if not ok2 and not os.path.exists(DRV):
                raise InfraError("driver does not build:\n" + out2[-3000:])
        # what is proved ∩ what is run (lean/ALV/Common/Tie.lean); informative, decides nothing
        info["proof_tie"] = None
        if ok and os.path.exists(os.path.join(LEAN, "ALV", "Tie", self.pid + ".lean")):
            okt, outt, _ = lake_build(["ALV.Tie." + self.pid])
            tp = os.path.join(LEAN, ".lake", "build", "audit", self.pid + ".tie.json")
            if okt and os.path.exists(tp):
                tj = json.load(open(tp))
                info["proof_tie"] = {
                    "what": "definitions reachable from the driver entry (what the correspondence runs against /repo) "
                            "versus definitions named by the theorem statements; computed at elaboration time by #write_tie",
                    "driver_entry": tj.get("driver_entry"),
                    "driver_reachable_definitions": tj.get("driver_reachable_definitions"),
                    "definitions_in_theorem_statements_and_run": tj.get("definitions_in_theorem_statements_and_run"),
                    "untied_theorems": tj.get("untied_theorems"),
                    "run_but_in_no_theorem_statement": tj.get("run_but_unproved"),
                    "tied_definitions_per_theorem": {t["name"].split(".")[-1]: [x.split(".", 1)[-1] for x in t["tied"]]
                                                     for t in tj.get("theorems", [])},
                }
            else:
                info["proof_tie"] = {"available": False, "why": outt[-300:]}
        hits = forbidden_tokens()
        if hits:
            broken.append("forbidden tokens: " + "; ".join(hits[:5]))
        audit = read_audit(self.pid) if ok else None
        thms = audit["theorems"] if audit else []
        bad = [t["name"] for t in thms if not set(t["axioms"]) <= ALLOWED_AXIOMS]
        if bad:
            broken.append("axioms outside the allowed set in: " + ", ".join(bad))
        if ok and not thms:
            broken.append("no theorem found in namespace ALV.Props." + self.pid)
        info["obligations"] = len(thms)
        info["discharged"] = len(thms) - len(bad) if ok else 0
        info["theorems"] = [t["name"] for t in thms]
        info["axioms_used"] = sorted({a for t in thms for a in t["axioms"]})
        info["statements"] = {t["name"]: t["statement"] for t in thms}
        info["broken"] = broken
        self.build = info
        return broken

    # --- step C ---------------------------------------------------------------------
    def evaluate(self, cases, record=True):
        """Run impl and driver on the cases; return list of Mismatch."""
        mod = self.mod
        impl_obs = []
        for c in cases:
            try:
                impl_obs.append(mod.impl(c))
            except Exception as e:  # an exception the property module did not map
                impl_obs.append({"err": "UNMAPPED:" + err_kind(e), "trace": traceback.format_exc()[-800:]})
        reqs = []
        for c in cases:
            r = dict(mod.request(c)) if hasattr(mod, "request") else dict(c)
            r["id"] = self.pid
            reqs.append(r)
        outs = self.driver.batch(reqs)
        mism = []
        for c, io, do in zip(cases, impl_obs, outs):
            if "fail" in do:
                raise InfraError("driver rejected case %s: %s" % (json.dumps(c)[:400], do["fail"]))
            payload = do.get("ok", do)
            problems = mod.compare(c, io, payload)
            if record:
                self.evaluations += 1
                k = mod.key(c) if hasattr(mod, "key") else json.dumps(c, sort_keys=True)
                if (mod.nontrivial(c, io) if hasattr(mod, "nontrivial") else True):
                    self.keys.add(k)
                if hasattr(mod, "tally"):
                    mod.tally(self, c, io)
                if len(self.samples) < 6 and self.evaluations % 97 in (1, 5, 23):
                    self.samples.append({"case": c, "impl": _short(io)})
            if problems:
                kinds = sorted({p[0] for p in problems})
                mism.append(Mismatch(c, io, payload, kinds, "; ".join(p[1] for p in problems)[:600]))
        return mism

    def corpus_cases(self):
        d = os.path.join(VERIF, "corpus", self.pid)
        out = []
        if os.path.isdir(d):
            for f in sorted(os.listdir(d)):
                if f.endswith(".json"):
                    j = json.load(open(os.path.join(d, f)))
                    out.extend(j["cases"] if isinstance(j, dict) and "cases" in j else [j.get("case", j)])
        return out

    # --- step E ---------------------------------------------------------------------
    def shrink(self, m, want, sig=None):
        """Greedy shrinking while a mismatch of kind `want` persists (and, when `sig` is given,
        while the case keeps its signature: a shrink path must not wander into a different,
        possibly known, failure)."""
        if not hasattr(self.mod, "shrink"):
            return m
        cur = m
        for _ in range(60):
            # shrinking only makes the replay smaller: it never decides anything, so it gets a budget
            # (a changed tree can make single cases very slow, e.g. a pad loop over 2**63 items)
            if time.time() - getattr(self, "t_search0", self.t0) > self.shrink_budget():
                self.count("result", "shrink_budget_exhausted")
                break
            cands = list(self.mod.shrink(cur.case))[:200]
            if not cands:
                break
            ms = []
            for i in range(0, len(cands), 10):
                ms.extend(self.evaluate(cands[i:i + 10], record=False))
                if time.time() - getattr(self, "t_search0", self.t0) > self.shrink_budget():
                    break
            ms = [x for x in ms if want in x.kinds]
            if sig is not None and hasattr(self.mod, "classify"):
                ms = [x for x in ms if self.mod.classify(x.case, x.impl, x.drv) == sig]
            if not ms:
                break
            cur = min(ms, key=lambda x: len(json.dumps(x.case)))
            if len(json.dumps(cur.case)) >= len(json.dumps(m.case)) and cur is not m:
                m = cur
                continue
            m = cur
        return m

    def shrink_budget(self):
        try:
            return float(os.environ.get("VERIF_SHRINK_BUDGET", "150" if self.tier == "quick" else "600"))
        except ValueError:
            return 150.0

    def search(self, mism, broken):
        mod = self.mod
        self.t_search0 = time.time()
        spec_hits = [m for m in mism if "spec" in m.kinds]
        model_only = [m for m in mism if "spec" not in m.kinds]
        if not spec_hits:
            # neighbours of the disagreeing cases, then a fresh batch 4x the tier's size
            cands = []
            if hasattr(mod, "neighbours"):
                for m in model_only[:20]:
                    cands.extend(list(mod.neighbours(m.case))[:100])
            rng2 = random.Random(self.seed * 7919 + 17)
            fresh = list(mod.generate(rng2, self.tier, 4))
            extra = self.evaluate(cands, record=False) + self.evaluate(fresh, record=True)
            spec_hits = [m for m in extra if "spec" in m.kinds]
            model_only += [m for m in extra if "spec" not in m.kinds]
        known = load_known(self.pid)
        reported = set()
        exit_code = 0

        def sig_of(m):
            return mod.classify(m.case, m.impl, m.drv) if hasattr(mod, "classify") else "unclassified"

        # group by signature, shrink one representative of each
        groups = {}
        for m in spec_hits:
            groups.setdefault(sig_of(m), []).append(m)
        for sig, ms in sorted(groups.items()):
            rep = self.shrink(min(ms, key=lambda x: len(json.dumps(x.case))), "spec", sig)
            sig2 = sig_of(rep)
            k = next((e for e in known if e["signature"] in (sig, sig2)), None)
            if k is not None:
                line = "KNOWN-FINDING: property=%s %s" % (self.pid, k.get("text", sig))
                if line not in reported:
                    reported.add(line)
                    print(line)
                    self.lines.append(line)
                continue
            names = list(broken)
            if "model" in rep.kinds:
                names.append("correspondence impl<->model (%s)" % self.pid)
            names.append("impl<->spec on this input: the spec is the right-hand side of the theorems " + ", ".join(self.build.get("theorems", [])[:4]))
            path = self.write_replay("failing-input", rep, names, sig2)
            line = "VIOLATION property=%s replay=%s" % (self.pid, path)
            print(line)
            self.lines.append(line)
            self.violations += 1
            exit_code = 1
        # correspondence broken without a failing input
        unexplained = []
        for m in model_only:
            sig = sig_of(m)
            if any(e["signature"] == sig for e in known):
                k = next(e for e in known if e["signature"] == sig)
                line = "KNOWN-FINDING: property=%s %s" % (self.pid, k.get("text", sig))
                if line not in reported:
                    reported.add(line)
                    print(line)
                    self.lines.append(line)
            else:
                unexplained.append(m)
        if exit_code == 0 and (unexplained or broken):
            rep = self.shrink(unexplained[0], "model") if unexplained else None
            names = list(broken)
            if rep is not None:
                names.append("correspondence impl<->model (%s): %s" % (self.pid, rep.detail[:300]))
            path = self.write_replay("no-failing-input-found", rep, names, None)
            line = "VIOLATION property=%s replay=%s no-failing-input-found" % (self.pid, path)
            print(line)
            self.lines.append(line)
            self.violations += 1
            exit_code = 1
        return exit_code

    def write_replay(self, kind, m, broken, sig):
        os.makedirs(os.path.join(VERIF, "replays"), exist_ok=True)
        body = {
            "property": self.pid, "kind": kind, "seed": self.seed, "tier": self.tier,
            "no_longer_checks": broken, "signature": sig,
            "case": m.case if m else None,
            "impl": m.impl if m else None,
            "lean": m.drv if m else None,
            "detail": m.detail if m else None,
            "replay_cmd": "./check --replay <this file>",
        }
        h = hashlib.sha1(json.dumps(body, sort_keys=True, default=str).encode()).hexdigest()[:10]
        path = os.path.join("replays", "%s-%s.json" % (self.pid, h))
        with open(os.path.join(VERIF, path), "w") as f:
            json.dump(body, f, indent=1, default=str)
        return path

    # --- evidence ---------------------------------------------------------------------
    def write_evidence(self):
        b = self.build
        cov = {
            "obligations": b.get("obligations", 0),
            "discharged": b.get("discharged", 0),
            "checker_cmd": "cd lean && lake build ALV.Props.%s  (Lean 4.33 kernel; thorough tier adds: lake env leanchecker ALV.Props.%s)" % (self.pid, self.pid),
            "trusted_base": [
                "Lean 4.33 kernel",
                "axioms used by the theorems of this property: " + (", ".join(b.get("axioms_used", [])) or "none"),
                "no sorry/admit/axiom/native_decide/bv_decide/implemented_by/unsafe in lean/ (grep on every run)",
                "correspondence harness harness/common.py + harness/props/%s.py (differential impl vs Lean model/spec)" % self.pid.lower(),
                "Lean compiler/runtime for the driver executable (correspondence side only)",
            ] + list(getattr(self.mod, "TRUSTED", [])),
            "theorems": b.get("theorems", []),
            "statements": b.get("statements", {}),
            "broken_obligations": b.get("broken", []),
            "evaluations": self.evaluations,
            "distinct_nontrivial": len(self.keys),
            "rule": getattr(self.mod, "RULE", "distinct JSON cases for which the module's nontrivial() holds"),
            "samples": self.samples[:6],
            "traces_validated_against_impl": self.evaluations,
            "histograms": self.stats,
            "lake_build_s": b.get("lake_build_s"),
            "translator": b.get("regenerate"),
            "proof_tie": b.get("proof_tie"),
            "reported_lines": self.lines,
        }
        cov.update(self.extra)
        ev = {
            "property_id": self.pid, "tier": self.tier, "seed": self.seed, "level": "proof",
            "coverage": cov,
            "assumptions": list(getattr(self.mod, "ASSUMPTIONS", [])) + [
                "theorems are about the Lean model; the tie to /repo is the differential correspondence counted above",
                "CPython, itertools, IEEE-754 rounding are not modelled"],
            "wall_s": round(time.time() - self.t0, 2),
            "violations": self.violations,
        }
        os.makedirs(os.path.join(VERIF, "evidence"), exist_ok=True)
        with open(os.path.join(VERIF, "evidence", self.pid + ".json"), "w") as f:
            json.dump(ev, f, indent=1, default=str)

    # --- main ---------------------------------------------------------------------------
    def main(self):
        code = 2
        cov = None
        try:
            broken = self.step_build()
            if os.environ.get("VERIF_ANCHORCOV", "1") != "0":
                try:
                    from anchorcov import AnchorCov
                    cov = AnchorCov(self.pid, REPO)
                    cov.start()
                except Exception as e:  # informative only
                    cov = None
                    self.extra["anchor_coverage"] = {"available": False, "why": repr(e)}
            cases = self.corpus_cases() + list(self.mod.generate(self.rng, self.tier, 1))
            if hasattr(self.mod, "extra_checks"):
                # property-specific non-case checks (structural translators, identity facts)
                for name, ok, detail in self.mod.extra_checks(self):
                    self.count("extra_checks", name + (":ok" if ok else ":FAILED"))
                    if not ok:
                        broken.append("%s: %s" % (name, detail))
            mism = []
            CH = 4000
            for i in range(0, len(cases), CH):
                mism.extend(self.evaluate(cases[i:i + CH]))
            self.count("result", "mismatching_cases", len(mism))
            if self.tier == "thorough" and not broken:
                rc, out = run(["lake", "env", "leanchecker", "ALV.Props." + self.pid], cwd=LEAN, timeout=3000)
                self.extra["leanchecker"] = "ok" if rc == 0 else "FAILED: " + out[-400:]
                if rc != 0:
                    broken.append("leanchecker rejected ALV.Props." + self.pid)
            if not broken and not mism:
                code = 0
            else:
                code = self.search(mism, broken)
        except InfraError as e:
            print("INFRA-ERROR property=%s %s" % (self.pid, str(e)[:2000]))
            code = 2
        except subprocess.TimeoutExpired as e:
            print("INFRA-ERROR property=%s timeout %s" % (self.pid, e))
            code = 2
        except Exception as e:  # a bug of the harness itself is never a violation
            print("INFRA-ERROR property=%s harness error %s: %s\n%s" % (self.pid, type(e).__name__, e, traceback.format_exc()[-1500:]))
            code = 2
        finally:
            if cov is not None:
                try:
                    cov.stop()
                    self.extra["anchor_coverage"] = cov.report()
                except Exception as e:
                    self.extra["anchor_coverage"] = {"available": False, "why": repr(e)}
            try:
                self.write_evidence()
            except Exception as e:
                print("could not write evidence:", e)
        print("%s %s seed=%d: obligations=%s discharged=%s cases=%d distinct_nontrivial=%d wall=%.1fs -> exit %d" % (
            self.pid, self.tier, self.seed, self.build.get("obligations"), self.build.get("discharged"),
            self.evaluations, len(self.keys), time.time() - self.t0, code))
        return code


class InfraError(Exception):
    pass


def _short(x, n=300):
    s = json.dumps(x, default=str)
    return x if len(s) <= n else s[:n] + "..."
