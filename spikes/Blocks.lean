/-! Spike: model of audiolazy.lazy_misc.blocks and its specification (core Lean only). -/
namespace ALV
variable {α : Type}

/-- `collections.deque(maxlen=size).append` -/
def dqPush (size : Nat) (res : List α) (x : α) : List α :=
  let r := res ++ [x]
  r.drop (r.length - size)

structure BState (α : Type) where
  res : List α
  idx : Int

/-- One iteration of either loop of `blocks` (for `hop ≤ size` the `idx < 0` branch is dead). -/
def bstep (size hop : Nat) (s : BState α) (x : α) : BState α × Option (List α) :=
  if s.idx < 0 then (⟨s.res, s.idx + 1⟩, none)
  else
    let res := dqPush size s.res x
    if s.idx = (size : Int) - 1 then (⟨res, (size : Int) - hop⟩, some res)
    else (⟨res, s.idx + 1⟩, none)

def bloop (size hop : Nat) : BState α → List α → List (List α) × BState α
  | s, [] => ([], s)
  | s, x :: xs =>
    let r := bstep size hop s x
    let t := bloop size hop r.1 xs
    (r.2.toList ++ t.1, t.2)

/-- padding at the end: `for _ in xrange(idx, size): res.append(padval)` -/
def padTo (size : Nat) (pad : α) (res : List α) : Nat → List α
  | 0 => res
  | n + 1 => padTo size pad (dqPush size res pad) n

def btail (size hop : Nat) (pad : α) (s : BState α) : List (List α) :=
  if s.idx > max ((size : Int) - hop) 0 then [padTo size pad s.res (size - s.idx.toNat)] else []

def blocks (size hop : Nat) (pad : α) (xs : List α) : List (List α) :=
  let t := bloop size hop ⟨[], 0⟩ xs
  t.1 ++ btail size hop pad t.2

/-- Specification in the words of property C08 (recursive form). -/
def blocksSpec (size hop : Nat) (pad : α) (xs : List α) : List (List α) :=
  if h : xs.length < size ∨ hop = 0 ∨ size = 0 then
    (if (xs.length : Int) > max ((size : Int) - hop) 0
      then [xs ++ List.replicate (size - xs.length) pad] else [])
  else xs.take size :: blocksSpec size hop pad (xs.drop hop)
termination_by xs.length
decreasing_by
  simp only [List.length_drop]
  omega

end ALV
open ALV
#eval blocks 4 2 0 [100,101,102,103,104]
#eval blocksSpec 4 2 0 [100,101,102,103,104]
#eval blocks 2 3 0 [0,1,2,3]
#eval blocksSpec 2 3 0 [0,1,2,3]
#eval (List.range 12).all fun L => (List.range 6).all fun s => (List.range 8).all fun h =>
  s = 0 || h = 0 || blocks s h 99 (List.range L) == blocksSpec s h 99 (List.range L)
