/-! Spike: LTI filter loop (`LinearFilter.__call__`) as a bounded-state machine vs. the
difference equation with unbounded histories.  Core Lean only; generic in the number type. -/
namespace ALV
variable {α : Type} [Add α] [Mul α] [Sub α] [Div α] [OfNat α 0]

def dot : List α → List α → α
  | c :: cs, v :: vs => c * v + dot cs vs
  | _, _ => 0

/-- first `n` items, padded at the end with `z` -/
def takeP (z : α) : Nat → List α → List α
  | 0, _ => []
  | n+1, [] => z :: takeP z n []
  | n+1, x :: xs => x :: takeP z n xs

structure FState (α : Type) where
  m : List α      -- m1 … m_lm   (previous outputs)
  d : List α      -- d1 … d_{lb-1} (previous inputs)

def fstep (b as : List α) (a0 : α) (s : FState α) (x : α) : α × FState α :=
  let y := (dot b (x :: s.d) - dot as s.m) / a0
  (y, ⟨(y :: s.m).take s.m.length, (x :: s.d).take s.d.length⟩)

def frun (b as : List α) (a0 : α) : FState α → List α → List α
  | _, [] => []
  | s, x :: xs => (fstep b as a0 s x).1 :: frun b as a0 (fstep b as a0 s x).2 xs

/-- difference equation with unbounded histories: `hy` = previous outputs, most recent first,
followed by the given memory; `hx` = previous inputs, most recent first (`zero` before time 0) -/
def fspec (b as : List α) (a0 zero : α) : List α → List α → List α → List α
  | _, _, [] => []
  | hy, hx, x :: xs =>
    let y := (dot b (takeP zero b.length (x :: hx)) - dot as hy) / a0
    y :: fspec b as a0 zero (y :: hy) (x :: hx) xs

theorem dot_take (c v : List α) : dot c (v.take c.length) = dot c v := by
  induction c generalizing v with
  | nil => cases v <;> simp [dot]
  | cons c cs ih =>
    cases v with
    | nil => simp [dot]
    | cons v vs => simp [dot, ih]

theorem takeP_length (z : α) (n : Nat) (l : List α) : (takeP z n l).length = n := by
  induction n generalizing l with
  | zero => simp [takeP]
  | succ n ih => cases l <;> simp [takeP, ih]

theorem takeP_pad1 (z : α) (n : Nat) : takeP z n [z] = takeP z n [] := by
  cases n <;> simp [takeP]

theorem take_cons_takeP (z x : α) (n : Nat) (l : List α) :
    (x :: takeP z n l).take n = takeP z n (x :: l) := by
  induction n generalizing x l with
  | zero => simp [takeP]
  | succ n ih =>
    cases l with
    | nil => simp [takeP, List.take_succ_cons, ih, takeP_pad1]
    | cons y ys => simp [takeP, List.take_succ_cons, ih]

theorem take_cons_take (y : α) (n : Nat) (l : List α) :
    (y :: l.take n).take n = (y :: l).take n := by
  cases n with
  | zero => simp
  | succ n => simp [List.take_succ_cons, List.take_take]

/-- **C04 core**: the shifting bounded state computes the difference equation, for every
coefficient list, every memory of sufficient length, every input length. -/
theorem frun_eq_fspec (b as : List α) (a0 zero : α) :
    ∀ (xs hy hx : List α), as.length ≤ hy.length →
      frun b as a0 ⟨hy.take as.length, takeP zero (b.length - 1) hx⟩ xs
        = fspec b as a0 zero hy hx xs := by
  intro xs
  induction xs with
  | nil => intro hy hx _; simp [frun, fspec]
  | cons x xs ih =>
    intro hy hx hlen
    have hy1 : dot as (hy.take as.length) = dot as hy := dot_take as hy
    have hb : dot b (x :: takeP zero (b.length - 1) hx) = dot b (takeP zero b.length (x :: hx)) := by
      cases b with
      | nil => simp [dot]
      | cons b0 bs => simp [takeP]
    simp only [frun, fspec, fstep, hy1, hb]
    congr 1
    have hm : (hy.take as.length).length = as.length := by simp; omega
    have := ih (((dot b (takeP zero b.length (x :: hx)) - dot as hy) / a0) :: hy) (x :: hx)
      (by simp; omega)
    rw [← this]
    congr 2
    · rw [hm, take_cons_take]
    · rw [takeP_length, take_cons_takeP]

end ALV
open ALV
#eval frun [1, 1] [-1] (1:Int) ⟨[3], [0]⟩ [1, 5, -4, -7, 9]   -- docstring example: [4, 10, 11, 0, 2]
#print axioms ALV.frun_eq_fspec
