/-! Spike: executable model of `MultiKeyDict` (three maps) and the abstract group spec;
cross-checked inside Lean on every history up to depth 3 over 3 keys × 2 values. -/
namespace ALV.MK
abbrev K := Nat
abbrev V := Nat

/-- association-list dict -/
def alLookup {A B} [DecidableEq A] (d : List (A × B)) (k : A) : Option B := (d.find? (·.1 = k)).map (·.2)
def alErase {A B} [DecidableEq A] (d : List (A × B)) (k : A) : List (A × B) := d.filter (·.1 ≠ k)
def alSet {A B} [DecidableEq A] (d : List (A × B)) (k : A) (v : B) : List (A × B) := alErase d k ++ [(k, v)]

structure St where
  keysDict : List (K × List K) := []
  invDict  : List (V × List K) := []
  store    : List (List K × V) := []
deriving Repr

/-- `MultiKeyDict.__delitem__` -/
def delitem (s : St) (key : K) : Option St :=
  match alLookup s.keysDict key with
  | none => none                                   -- KeyError
  | some kt =>
    match alLookup s.store kt with
    | none => none
    | some value =>
      let newKey := kt.filter (· ≠ key)
      let s1 : St := { keysDict := alErase s.keysDict key, invDict := alErase s.invDict value,
                       store := alErase s.store kt }
      if newKey = [] then some s1
      else some { keysDict := newKey.foldl (fun d k => alSet d k newKey) s1.keysDict,
                  invDict := alSet s1.invDict value newKey,
                  store := alSet s1.store newKey value }

/-- keep the last occurrence of every key, preserving order -/
def dedupLast (ks : List K) : List K :=
  (ks.reverse.foldl (fun acc k => if k ∈ acc then acc else acc ++ [k]) []).reverse

/-- `MultiKeyDict.__setitem__` (key already tuple-ised) -/
def setitem (s : St) (keys : List K) (value : V) : St :=
  let key := dedupLast ((alLookup s.invDict value).getD [] ++ keys)
  let s1 := key.foldl (fun st k => if (alLookup st.keysDict k).isSome then (delitem st k).getD st else st) s
  { keysDict := key.foldl (fun d k => alSet d k key) s1.keysDict,
    invDict := alSet s1.invDict value key,
    store := alSet s1.store key value }

def getitem (s : St) (key : K) : Option V := (alLookup s.keysDict key).bind (alLookup s.store ·)

/-! abstract spec: groups (value, keys in recency order) -/
abbrev Spec := List (V × List K)
def sFind (g : Spec) (k : K) : Option (V × List K) := g.find? (fun p => k ∈ p.2)
def sDel (g : Spec) (k : K) : Option Spec :=
  match sFind g k with
  | none => none
  | some _ => some ((g.map fun p => (p.1, p.2.filter (· ≠ k))).filter (fun p => p.2 ≠ []))
def sSet (g : Spec) (keys : List K) (v : V) : Spec :=
  let ks := dedupLast keys
  let old := ((g.find? (·.1 = v)).map (·.2)).getD [] |>.filter (· ∉ ks)
  let all := old ++ ks
  let g1 := (g.map fun p => (p.1, p.2.filter (· ∉ all))).filter (fun p => p.2 ≠ [])
  g1.filter (·.1 ≠ v) ++ [(v, all)]
def sGet (g : Spec) (k : K) : Option V := (sFind g k).map (·.1)

inductive Op | set (ks : List K) (v : V) | del (k : K) | get (k : K)
deriving Repr

def canon (l : List (V × List K)) : List (V × List K) :=
  l.mergeSort (fun a b => a.1 ≤ b.1)

/-- run both; `none` = they disagreed somewhere -/
def agree : St → Spec → List Op → Bool
  | s, g, [] =>
      canon (s.store.map fun p => (p.2, p.1)) == canon g
      && canon (s.invDict) == canon g
      && s.keysDict.all (fun p => sFind g p.1 == some ((sGet g p.1).getD 0, p.2))
      && s.keysDict.length == (g.map (·.2.length)).sum
  | s, g, .set ks v :: ops => agree (setitem s ks v) (sSet g ks v) ops
  | s, g, .del k :: ops =>
      match delitem s k, sDel g k with
      | some s', some g' => agree s' g' ops
      | none, none => agree s g ops
      | _, _ => false
  | s, g, .get k :: ops => getitem s k == sGet g k && agree s g ops

def allOps : List Op :=
  let keys := [0, 1, 2]
  let tuples := keys.map (fun k => [k]) ++ (keys.flatMap fun a => keys.map fun b => [a, b])
  (tuples.flatMap fun t => [Op.set t 0, Op.set t 1]) ++ keys.map Op.del ++ keys.map Op.get

def histories : Nat → List (List Op)
  | 0 => [[]]
  | n + 1 => (histories n).flatMap fun h => allOps.map fun o => h ++ [o]

end ALV.MK
open ALV.MK
#eval allOps.length
#eval setitem (setitem (setitem {} [1] 3) [2] 3) [4] 2 |>.store          -- {(1,2):3, (4,):2}
#eval (histories 2).length
#eval (histories 2).all fun h => agree {} [] h
#eval ((histories 3).filter fun h => !agree {} [] h).length
