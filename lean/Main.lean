/-
  alvdrv — line protocol driver.  One JSON object per input line:
    {"id":"C08","entry":"blocks", ...args}
  one JSON object per output line: {"ok": payload} | {"err": "<kind>"} | {"fail": "<driver problem>"}.
  Mathlib-free so that it links as a native executable.
-/
import ALV.Driver.All
open ALV

def handleLine (line : String) : String :=
  match Json.parse line with
  | .error e => (Json.mkObj [("fail", Json.str s!"parse: {e}")]).compress
  | .ok j =>
    let r : Except String Json := do
      let id ← J.getStr (← J.field j "id")
      let entry ← J.getStr (← J.field j "entry")
      ALV.Driver.dispatch id entry j
    match r with
    | .ok v => v.compress
    | .error e => (Json.mkObj [("fail", Json.str e)]).compress

partial def loop (hin : IO.FS.Stream) (hout : IO.FS.Stream) : IO Unit := do
  let line ← hin.getLine
  if line.isEmpty then return ()
  let t := line.trimAscii.toString
  if t.isEmpty then
    hout.putStrLn ""
  else
    hout.putStrLn (handleLine t)
  loop hin hout

def main : IO Unit := do
  let hin ← IO.getStdin
  let hout ← IO.getStdout
  loop hin hout
  hout.flush
