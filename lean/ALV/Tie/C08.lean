/- what is proved ∩ what is run against /repo, for C08 (see ALV/Common/Tie.lean) -/
import ALV.Common.Tie
import ALV.Props.C08
import ALV.Driver.C08

#write_tie "C08"
