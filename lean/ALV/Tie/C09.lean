/- what is proved ∩ what is run against /repo, for C09 (see ALV/Common/Tie.lean) -/
import ALV.Common.Tie
import ALV.Props.C09
import ALV.Driver.C09

#write_tie "C09"
