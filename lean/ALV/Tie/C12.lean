/- what is proved ∩ what is run against /repo, for C12 (see ALV/Common/Tie.lean) -/
import ALV.Common.Tie
import ALV.Props.C12
import ALV.Driver.C12

#write_tie "C12"
