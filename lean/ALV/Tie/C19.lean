/- what is proved ∩ what is run against /repo, for C19 (see ALV/Common/Tie.lean) -/
import ALV.Common.Tie
import ALV.Props.C19
import ALV.Driver.C19

#write_tie "C19"
