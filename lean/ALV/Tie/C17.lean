/- what is proved ∩ what is run against /repo, for C17 (see ALV/Common/Tie.lean) -/
import ALV.Common.Tie
import ALV.Props.C17
import ALV.Driver.C17

#write_tie "C17"
