/- what is proved ∩ what is run against /repo, for C07 (see ALV/Common/Tie.lean) -/
import ALV.Common.Tie
import ALV.Props.C07
import ALV.Driver.C07

#write_tie "C07"
