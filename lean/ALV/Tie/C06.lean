/- what is proved ∩ what is run against /repo, for C06 (see ALV/Common/Tie.lean) -/
import ALV.Common.Tie
import ALV.Props.C06
import ALV.Driver.C06

#write_tie "C06"
