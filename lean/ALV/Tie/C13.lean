/- what is proved ∩ what is run against /repo, for C13 (see ALV/Common/Tie.lean) -/
import ALV.Common.Tie
import ALV.Props.C13
import ALV.Driver.C13

#write_tie "C13"
