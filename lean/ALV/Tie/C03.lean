/- what is proved ∩ what is run against /repo, for C03 (see ALV/Common/Tie.lean) -/
import ALV.Common.Tie
import ALV.Props.C03
import ALV.Driver.C03

#write_tie "C03"
