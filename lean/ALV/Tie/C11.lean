/- what is proved ∩ what is run against /repo, for C11 (see ALV/Common/Tie.lean) -/
import ALV.Common.Tie
import ALV.Props.C11
import ALV.Driver.C11

#write_tie "C11"
