/- what is proved ∩ what is run against /repo, for C05 (see ALV/Common/Tie.lean) -/
import ALV.Common.Tie
import ALV.Props.C05
import ALV.Driver.C05

#write_tie "C05"
