/- what is proved ∩ what is run against /repo, for C01 (see ALV/Common/Tie.lean) -/
import ALV.Common.Tie
import ALV.Props.C01
import ALV.Driver.C01

#write_tie "C01"
