/- what is proved ∩ what is run against /repo, for C20 (see ALV/Common/Tie.lean) -/
import ALV.Common.Tie
import ALV.Props.C20
import ALV.Driver.C20

#write_tie "C20"
