/- what is proved ∩ what is run against /repo, for C02 (see ALV/Common/Tie.lean) -/
import ALV.Common.Tie
import ALV.Props.C02
import ALV.Driver.C02

#write_tie "C02"
