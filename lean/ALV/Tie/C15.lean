/- what is proved ∩ what is run against /repo, for C15 (see ALV/Common/Tie.lean) -/
import ALV.Common.Tie
import ALV.Props.C15
import ALV.Driver.C15

#write_tie "C15"
