/- what is proved ∩ what is run against /repo, for C10 (see ALV/Common/Tie.lean) -/
import ALV.Common.Tie
import ALV.Props.C10
import ALV.Driver.C10

#write_tie "C10"
