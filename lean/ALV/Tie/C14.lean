/- what is proved ∩ what is run against /repo, for C14 (see ALV/Common/Tie.lean) -/
import ALV.Common.Tie
import ALV.Props.C14
import ALV.Driver.C14

#write_tie "C14"
