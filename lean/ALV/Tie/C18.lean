/- what is proved ∩ what is run against /repo, for C18 (see ALV/Common/Tie.lean) -/
import ALV.Common.Tie
import ALV.Props.C18
import ALV.Driver.C18

#write_tie "C18"
