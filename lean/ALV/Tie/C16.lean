/- what is proved ∩ what is run against /repo, for C16 (see ALV/Common/Tie.lean) -/
import ALV.Common.Tie
import ALV.Props.C16
import ALV.Driver.C16

#write_tie "C16"
