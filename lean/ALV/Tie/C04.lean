/- what is proved ∩ what is run against /repo, for C04 (see ALV/Common/Tie.lean) -/
import ALV.Common.Tie
import ALV.Props.C04
import ALV.Driver.C04

#write_tie "C04"
