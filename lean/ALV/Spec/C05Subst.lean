/-
  C05 — "f(g) substitutes g for z", in closed form for a monomial argument `g = c·z^(−d)` with ANY
  non-zero gain `c`, and as exact evaluation at points: `f(g)(z0) = f(g(z0))`.
  Executable, Mathlib-free.

  A filter is `Σ_k v_k z^(−k)` over `Σ_k a_k z^(−k)`.  Replacing `z` by `c·z^(−d)` turns the term
  `v·z^(−k)` into `v·(c·z^(−d))^(−k) = v·c^(−k)·z^(d·k)`: the coefficient of `z^(−k)` picks up
  `gain^(−k)` and moves to the power `−d·k` of `z⁻¹`.
-/
import ALV.Spec.C05
namespace ALV.C05
open ALV.C07
variable {α : Type} [Add α] [Mul α] [Sub α] [Neg α] [Div α] [OfNat α 0] [OfNat α 1] [DecidableEq α]

/-- the filter `c·z^(−d)` as the operators build it (`c * z ** -d`) -/
def monoZF (c : α) (d : Int) : ZF α := ⟨[(d, c)], [(0, 1)]⟩

/-- `p(c·z^(−d))` term by term: `(k, v) ↦ (−d·k, v·c^(−k))` -/
def monoSubst (p : MPoly α) (c : α) (d : Int) : MPoly α :=
  p.map fun kv => (-d * kv.1, kv.2 * powInt c (-kv.1))

/-- the value of `Σ v_k z^(−k)` at the point `z = z0` -/
def evalAt (p : MPoly α) (z0 : α) : α := p.foldr (fun kv s => kv.2 * powInt z0 (-kv.1) + s) 0

/-- the value of the rational function at `z0` (`none`: the denominator vanishes there) -/
def evalZF (f : ZF α) (z0 : α) : Option α :=
  if evalAt f.den z0 = 0 then none else some (evalAt f.num z0 / evalAt f.den z0)

/-- `f(g(z0))` (`none`: `g(z0)` undefined or zero, or the denominator of `f` vanishes there) -/
def evalComp (f g : ZF α) (z0 : α) : Option α :=
  match evalZF g z0 with
  | none => none
  | some w => if w = 0 then none else evalZF f w

end ALV.C05
