/-
  C12 — the call of `freq_response`, in the words of the property:
  "is applied per element to containers of frequencies" — whichever way the frequency object is
  passed, the result is the container (of the same kind; lazy for generators and Streams) of the
  pointwise responses, the response being the transfer function / product / sum (`Bank.spec`).
-/
import ALV.Model.C12Call
import ALV.Spec.C12
namespace ALV.C12
section generic
variable {α : Type} [Add α] [Mul α] [Sub α] [Neg α] [Div α] [OfNat α 0] [OfNat α 1]

/-- `g` applied per element to the frequency object `a`: a scalar (or str) gives `g a`, a generator
    / Stream / chain the lazy sequence of the `g x`, a list / tuple / deque / set the same kind of
    container of the `g x` (the first exception of an element is the exception of the call). -/
def broadcast {φ : Type} (g : Elem φ → Option (Resp α)) (a : Arg φ) : Out α :=
  if a.kind.isIterable && !a.kind.isStr then
    match allSome (a.items.map g) with
    | none => .unmodelled
    | some outs =>
      if a.kind.isSomeGen then .lazy .someGen outs
      else if a.kind.isStream then .lazy .stream outs
      else typeCast a.kind outs
  else
    match g a.self with
    | none => .unmodelled
    | some r => .ofResp r

/-- `t.freq_response(<a, by position or by keyword>)` -/
def freqCallSpec [DecidableEq α] {φ : Type} (pt : φ → α) (t : Bank α) (a : Arg φ) : Out α :=
  broadcast (respElem (fun f => Bank.spec (pt f) t) t.isLeaf) a

/-- any call `t.freq_response(*args, **kwargs)`: when python can bind it to `(self, freq)` the
    broadcast over the object bound to `freq`; otherwise every element computation is the TypeError
    of the binding (KeyError when the wrapper finds no frequency object at all) -/
def freqCallSpecFull [DecidableEq α] {φ : Type} (pt : φ → α) (t : Bank α) (args : List (Arg φ)) (kwargs : KwArgs φ) :
    Out α :=
  match bindParams ["self", "freq"] args kwargs with
  | some [_, a] => freqCallSpec pt t a
  | _ =>
    match (if 1 < args.length then args[1]? else kwGet "freq" kwargs) with
    | none => .raised .keyError
    | some a => broadcast (fun _ => some .typeError) a

/-- `dft` with its documented default -/
def dftCallSpec [DecidableEq α] (bk : BlkKind) (blk : List α) (ws : Option (List α)) (normalize : Option Bool) :
    Except PyErr (List α) :=
  let norm := normalize.getD true
  match ws with
  | none => .error .typeError
  | some ws =>
    match bk with
    | .sized =>
      if norm ∧ blk.length = 0 ∧ ws ≠ [] then .error .zeroDivisionError
      else .ok (ws.map fun w => dftSpec w blk norm)
    | .once =>
      if norm then .error .typeError
      else .ok (match ws with
        | [] => []
        | w :: rest => dftSpec w blk false :: rest.map fun _ => (0 : α))

end generic
end ALV.C12
