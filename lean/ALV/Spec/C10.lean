/-
  C10 — specification in the words of the property (executable, Mathlib-free).

  * Yule–Walker normal equations of order p for the lag list r and the filter a:
        a_0 = 1,   Σ_{j=0..p} a_j · r|i−j| = 0   (i = 1..p),   error = Σ_{j=0..p} a_j · r_j
  * acorr / lag_matrix / toeplitz entries as the documented plain sums / tables
  * energy of `a` convolved with the zero-extended block (autocorrelation method) and the
    residual energy over n ≥ p (covariance method)
  * covariance normal equations over φ(i,j) = Σ_{n=p}^{N−1} x[n−i]·x[n−j]
-/
import ALV.Model.C10
namespace ALV.C10
variable {α : Type} [Add α] [Mul α] [Sub α] [Neg α] [Div α] [OfNat α 0] [OfNat α 1]

/-- the order `levinson_durbin` works with: `order`, or `len(r) − 1` for `None` -/
def orderOf (r : List α) (order : Option Nat) : Nat := order.getD (r.length - 1)

/-- the order `lpc.kautocor` / `lpc.kcovar` work with: `order`, or `len(blk) − 1` for `None` -/
def blkOrder (blk : List α) (order : Option Nat) : Nat := order.getD (blk.length - 1)

/-- left side of the i-th Yule–Walker equation: `Σ_{j ≤ p} a_j · r|i−j|` -/
def neResidual (r a : List α) (p i : Nat) : α :=
  sumL ((List.range (p + 1)).map fun j => coef a j * coef r (adiff i j))

/-- the prediction error the equations assign: `Σ_{j ≤ p} a_j · r_j` -/
def predError (r a : List α) (p : Nat) : α :=
  sumL ((List.range (p + 1)).map fun j => coef a j * coef r j)

/-- `a` is the monic order-p solution of the normal equations of `r` -/
def IsYuleWalker (r a : List α) (p : Nat) : Prop :=
  coef a 0 = 1 ∧ a.length ≤ p + 1 ∧ ∀ i, 1 ≤ i → i ≤ p → neResidual r a p i = 0

/-- documented autocorrelation of lag tau: `Σ_{n < N − tau} x[n]·x[n+tau]` -/
def acorrAt (blk : List α) (tau : Nat) : α :=
  sumL ((List.range (blk.length - tau)).map fun n => coef blk n * coef blk (n + tau))

/-- documented lag-matrix cell: `Σ_{n = L}^{N−1} x[n−i]·x[n−j]` -/
def lagAt (blk : List α) (L i j : Nat) : α :=
  sumL ((List.range (blk.length - L)).map fun k => coef blk (L + k - i) * coef blk (L + k - j))

/-- output sample n of the FIR filter `a` fed with the block followed and preceded by zeros:
    `Σ_{j ≤ n} a_j · x[n−j]` -/
def convAt (a blk : List α) (n : Nat) : α :=
  sumL ((List.range (n + 1)).map fun j => coef a j * coef blk (n - j))

/-- energy of `a` convolved with the zero-extended block: all N + p possibly non-zero outputs -/
def energy (a blk : List α) (p : Nat) : α :=
  sumL ((List.range (blk.length + p)).map fun n => convAt a blk n * convAt a blk n)

/-- residual energy over n ≥ p (no padding): `Σ_{n=p}^{N−1} (Σ_{j ≤ p} a_j x[n−j])²` -/
def covEnergy (a blk : List α) (p : Nat) : α :=
  sumL ((List.range (blk.length - p)).map fun k =>
    let e := sumL ((List.range (p + 1)).map fun j => coef a j * coef blk (p + k - j))
    e * e)

/-- left side of the i-th covariance normal equation: `Σ_{j ≤ p} a_j · φ(i,j)` -/
def covResidual (blk a : List α) (p i : Nat) : α :=
  sumL ((List.range (p + 1)).map fun j => coef a j * lagAt blk p i j)

/-- `a` is a monic order-p solution of the covariance normal equations of the block -/
def IsCovarSol (blk a : List α) (p : Nat) : Prop :=
  coef a 0 = 1 ∧ a.length ≤ p + 1 ∧ ∀ i, 1 ≤ i → i ≤ p → covResidual blk a p i = 0

end ALV.C10
