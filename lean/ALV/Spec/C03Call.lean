/-
  C03 — the call layer over the immutable list model: the same elaboration (`elabCall`), the list
  model's step.  A refused call (`CRes.ret`) changes nothing.
-/
import ALV.Model.C03Call
import ALV.Spec.C03
namespace ALV.C03
variable {α : Type}

def cspecStep (s : HSp α) (c : Call α) : Option (HSp α × Obs α) :=
  match elabCall c with
  | .hop h => hspecStep s h
  | .ret o => some (⟨s.sp, keep s.lists o⟩, o)

def cspecRun : HSp α → List (Call α) → List (Option (Obs α)) × List (List α)
  | s, [] => ([], s.lists)
  | s, c :: cs =>
    match cspecStep s c with
    | none => ([none], s.lists)
    | some (s', o) => let r := cspecRun s' cs; (some o :: r.1, r.2)

end ALV.C03
