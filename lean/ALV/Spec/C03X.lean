/-
  C03 — raising elements in the list model: a Stream denotes a list of *events* (an item, or the
  exception raised at that position — the `raises at position i` oracle); every wrapper is a list
  function on events.  Copies are outside this specification (an exception is delivered to one copy
  only: `tee` does not store it).
-/
import ALV.Model.C03X
namespace ALV.C03
variable {α : Type}

/-- builtin `map`: an exception from below passes, an exception of `f` takes the place of the item -/
def mapE (f : α → Ev α) : List (Ev α) → List (Ev α)
  | [] => []
  | .ok v :: r => f v :: mapE f r
  | .error e :: r => .error e :: mapE f r

/-- builtin `filter` -/
def filterE (p : α → Ev Bool) : List (Ev α) → List (Ev α)
  | [] => []
  | .error e :: r => .error e :: filterE p r
  | .ok v :: r =>
    match p v with
    | .error e => .error e :: filterE p r
    | .ok true => .ok v :: filterE p r
    | .ok false => filterE p r

/-- a generator that passes items on: the first exception is its last event -/
def untilErr : List (Ev α) → List (Ev α)
  | [] => []
  | .ok v :: r => .ok v :: untilErr r
  | .error e :: _ => [.error e]

/-- `it.islice(·, n)`: at most `n` items; the first exception is its last event -/
def limE : Nat → List (Ev α) → List (Ev α)
  | 0, _ => []
  | _ + 1, [] => []
  | n + 1, .ok v :: r => .ok v :: limE n r
  | _ + 1, .error e :: _ => [.error e]

/-- `skipper`: throws `n` items away, then passes on; the first exception is its last event -/
def skipE : Nat → List (Ev α) → List (Ev α)
  | 0, es => untilErr es
  | _ + 1, [] => []
  | n + 1, .ok _ :: r => skipE n r
  | _ + 1, .error e :: _ => [.error e]

def XIt.teeFree : XIt α → Bool
  | .src _ => true
  | .map _ it => it.teeFree
  | .filter _ it => it.teeFree
  | .chain a b => a.teeFree && b.teeFree
  | .islice _ it => it.teeFree
  | .skipper _ it => it.teeFree
  | .tee _ _ => false

/-- the events an iterator (without tee leaves) still has to deliver -/
def xden : XIt α → List (Ev α)
  | .src es => es
  | .map f it => mapE f (xden it)
  | .filter p it => filterE p (xden it)
  | .chain a b => xden a ++ xden b
  | .islice n it => limE n (xden it)
  | .skipper n it => skipE n (xden it)
  | .tee _ _ => []

/-- `take(n)` on events: the first `n` items — or the first exception among the first `n` events, and then
    everything up to and including that position is gone -/
def takeE : Nat → List (Ev α) → Except String (List α) × List (Ev α)
  | 0, es => (.ok [], es)
  | _ + 1, [] => (.ok [], [])
  | _ + 1, .error e :: r => (.error e, r)
  | n + 1, .ok v :: r =>
    match takeE n r with
    | (.ok vs, rest) => (.ok (v :: vs), rest)
    | (.error e, rest) => (.error e, rest)

/-- `take(n)` / `take()` / `take(inf)` on events -/
def specTakeX (es : List (Ev α)) (c : Cnt) : List (Ev α) × Obs α :=
  match takeMode c with
  | .one =>
    match es with
    | [] => ([], .err "StopIteration")
    | .ok v :: r => (r, .item v)
    | .error e :: r => (r, .err e)
  | .all => let r := takeE es.length es; (r.2, obsOf r.1)
  | .n k => let r := takeE k es; (r.2, obsOf r.1)

end ALV.C03

namespace ALV.C03
variable {α : Type}

/-- the list model with events: a pool of event lists (`none`: moved away) -/
abbrev XPool (α : Type) := List (Option (List (Ev α)))

def XOp.teeFree : XOp α → Bool
  | .peek _ _ => false
  | .copy _ => false
  | _ => true

/-- every method as a list function on events (`none` for `copy` / `peek`: outside this specification) -/
def xspecStep (sp : XPool α) : XOp α → Option (XPool α × Obs α)
  | .new es => some (sp ++ [some es], .new sp.length)
  | .take i c =>
    match sp[i]? with
    | some (some es) => let r := specTakeX es c; some (sp.set i (some r.1), r.2)
    | _ => some (sp, .err "noobj")
  | .next i =>
    match sp[i]? with
    | some (some es) => let r := specTakeX es .none; some (sp.set i (some r.1), r.2)
    | _ => some (sp, .err "noobj")
  | .drain i =>
    match sp[i]? with
    | some (some es) => let r := specTakeX es .inf; some (sp.set i (some r.1), r.2)
    | _ => some (sp, .err "noobj")
  | .skip i n =>
    match sp[i]? with
    | some (some es) => some (sp.set i (some (skipE n es)), .unit)
    | _ => some (sp, .err "noobj")
  | .limit i n =>
    match sp[i]? with
    | some (some es) => some (sp.set i (some (limE n es)), .unit)
    | _ => some (sp, .err "noobj")
  | .append i ys =>
    match sp[i]? with
    | some (some es) => some (sp.set i (some (es ++ ys)), .unit)
    | _ => some (sp, .err "noobj")
  | .map i g =>
    match sp[i]? with
    | some (some es) => some (sp.set i (some (mapE g es)), .unit)
    | _ => some (sp, .err "noobj")
  | .filter i p =>
    match sp[i]? with
    | some (some es) => some (sp.set i (some (filterE p es)), .unit)
    | _ => some (sp, .err "noobj")
  | .attr i g =>
    match sp[i]? with
    | some (some es) => some (sp.set i none ++ [some (mapE g es)], .new sp.length)
    | _ => some (sp, .err "noobj")
  | .nextAttr i =>
    match sp[i]? with
    | some (some _) => some (sp, .err "AttributeError")
    | _ => some (sp, .err "noobj")
  | .skipBad i e =>
    match sp[i]? with
    | some (some _) => some (sp.set i (some [.error e]), .unit)
    | _ => some (sp, .err "noobj")
  | .peek _ _ => none
  | .copy _ => none

def xspecRun : XPool α → List (XOp α) → List (Option (Obs α))
  | _, [] => []
  | sp, op :: ops =>
    match xspecStep sp op with
    | none => [none]
    | some (sp', o) => some o :: xspecRun sp' ops

end ALV.C03
