/-
  C09 — specification in the words of the property.

  Overlap-adding m blocks B_k of length `size` with hop h and window w gives
  m*h + size - h samples,
        out[n] = Σ_{k<m} g · w[n-k*h] · B_k[n-k*h]
  (a term is present when 0 ≤ n-k*h < size), where g = 1 without normalisation,
  otherwise the reciprocal of the largest hop-strided sum of |w|
  (1/ceil(size/h) when no window is given; 1 when that largest sum is 0).
-/
namespace ALV.C09
variable {α : Type}

/-- Σ_{k<m} f k -/
def sumTo [Add α] [OfNat α 0] : Nat → (Nat → α) → α
  | 0, _ => 0
  | m + 1, f => sumTo m f + f m

section
variable [Add α] [Mul α] [OfNat α 0]

/-- one output sample -/
def olaAt (g : α) (w : List α) (size h : Nat) (Bs : List (List α)) (n : Nat) : α :=
  sumTo Bs.length fun k =>
    if k * h ≤ n ∧ n - k * h < size then
      g * (w.getD (n - k * h) 0 * (Bs.getD k []).getD (n - k * h) 0)
    else 0

/-- the whole output: exactly m*h + size - h samples -/
def olaSpec (g : α) (w : List α) (size h : Nat) (Bs : List (List α)) : List α :=
  (List.range (Bs.length * h + (size - h))).map (olaAt g w size h Bs)
end

section
variable [Add α] [Neg α] [Div α] [OfNat α 0] [OfNat α 1] [NatCast α] [LT α] [DecidableLT α] [DecidableEq α]

def absS (x : α) : α := if x < 0 then -x else x

/-- Σ_i |w[j + i*h]| : the sum of the window magnitudes that land on output phase j -/
def stridedAbsSum (w : List α) (h j : Nat) : α :=
  sumTo ((w.length + h - 1) / h) fun i => absS (w.getD (j + i * h) 0)

/-- max_{j<n} f j for n ≥ 1 (f 0 for n = 0) -/
def maxTo : Nat → (Nat → α) → α
  | 0, f => f 0
  | 1, f => f 0
  | n + 2, f => let m := maxTo (n + 1) f; if m < f (n + 1) then f (n + 1) else m

/-- the largest hop-strided sum of |w| -/
def maxStrided (w : List α) (h : Nat) : α := maxTo h (stridedAbsSum w h)

/-- the gain g of the property; `w = none` is "no window given" -/
def gainSpec (size h : Nat) (normalize : Bool) (w : Option (List α)) : α :=
  if normalize then
    match w with
    | none => 1 / (((size + h - 1) / h : Nat) : α)
    | some w => let G := maxStrided w h; if G = 0 then 1 else 1 / G
  else 1

/-- the window of the property; no window = rectangular -/
def wndSpec (size : Nat) (w : Option (List α)) : List α :=
  match w with
  | none => List.replicate size 1
  | some w => w
end

/-! ### the stft wrapper -/

/-- What the overlap-add strategy is called with, as a lookup: `size`, `hop`, and for every option
    given as `ola_<k>` the option `<k>` (which wins over `size` / `hop`); nothing else.
    `merged` = defaults overridden by the call's keywords (a dict: at most one entry per key; if
    a key were repeated the later entry would win). -/
def olaKwSpec {β : Type} (size hop : β) (merged : List (String × β)) (k : String) : Option β :=
  match (merged.filter (fun kv => kv.1 = "ola_" ++ k)).getLast? with
  | some kv => some kv.2
  | none => if k = "size" then some size else if k = "hop" then some hop else none

/-- what the user function receives for block k: the k-th block of the signal (C08: samples
    k*hop … k*hop+size-1, zero padded), multiplied by the analysis window FIRST, then `before`,
    then `transform` -/
def funcInputSpec [Mul α] (blocksOf : List α → List (List α)) (w : Option (List α))
    (before transform : List α → List α) (sig : List α) : List (List α) :=
  (blocksOf sig).map fun B =>
    transform (before (match w with | none => B | some w => List.zipWith (· * ·) B w))

end ALV.C09
