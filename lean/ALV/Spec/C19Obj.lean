/-
  C19 — specification of `TableLookup` histories, in the words of the property.

  The *value* of an object is the pair (current contents of the list it refers to, current
  `cycles`).  Every use is answered from the values alone:
    * samples `pos .. pos+k-1` of a stream returned by `obj(freq, phase)` are the cyclic linear
      interpolation (`tableSpec`) of the table the stream refers to, at
      `len / (cycles·2π)` positions per radian, with the `cycles` the object had at the call;
    * `obj[idx]` is the cyclic linear interpolation at `idx`; `len(obj)` is the table length;
    * operators need equal `cycles` and equal table lengths and act element by element;
      `harmonize` yields as many items as the table has.
    * a failing operation changes nothing: in particular `tl.table = <something without len()>`
      raises TypeError and leaves the object as it was.
  Attribute assignments, in-place list changes and allocation are data-structure operations and
  are taken from the model (`step`).  No cached length appears here.
-/
import ALV.Model.C19Obj
import ALV.Spec.C19
namespace ALV.C19

section Obj
variable {α : Type} [Add α] [Sub α] [Mul α] [Div α] [Neg α] [OfNat α 0] [OfNat α 1]
  [IntCast α] [Floor α] [DecidableEq α] [LT α] [DecidableLT α]

/-- the current value of object `i`: its table and its number of cycles -/
def Heap.value? (h : Heap α) (i : Nat) : Option (List α × α) :=
  (h.obj? i).map fun p => (p.2, p.1.cycles)

/-- samples `pos .. pos+k-1` of the oscillator of table `xs` (one table per `den = cycles·2π` rad) -/
def oscSpec (xs : List α) (den : α) (freq phase : Arg α) (pos k : Nat) : List α :=
  (tableSpec xs den freq phase (pos + k)).drop pos

def specStep (denOf : α → α) (h : Heap α) : HOp α → Heap α × Obs α
  | .read s k =>
    match h.oscs[s]? with
    | none => (h, .err "BadRef")
    | some o =>
      if o.dead then (h, .samples [] "stop")
      else
        match h.lists[o.tbl]? with
        | none => (h, .err "BadRef")
        | some xs =>
          let ys := oscSpec xs o.den o.freq o.phase o.pos k
          ({ h with oscs := h.oscs.set s { o with pos := o.pos + ys.length, dead := false } },
           .samples ys (if ys.length < k then "stop" else "fuel"))
  | .setTableUnsized i =>
    match h.objs[i]? with
    | some _ => (h, .err "TypeError")
    | none => (h, .err "BadRef")
  | .getitem i idx =>
    match h.obj? i with
    | none => (h, .err (h.whyNot i))
    | some (_, t) => (h, .val (interpCyc t idx))
  | .len i =>
    match h.obj? i with
    | none => (h, .err (h.whyNot i))
    | some (_, t) => (h, .nat t.length)
  | .binary op i j =>
    match h.obj? i, h.obj? j with
    | some (o1, t1), some (o2, t2) =>
      if o1.cycles ≠ o2.cycles then (h, .err "ValueError")
      else if t1.length ≠ t2.length then (h, .err "ValueError")
      else h.alloc (List.zipWith op.app t1 t2) o1.cycles
    | none, _ => (h, .err (h.whyNot i))
    | _, none => (h, .err (h.whyNot j))
  | .harmonize i harm =>
    match h.obj? i with
    | none => (h, .err (h.whyNot i))
    | some (o, t) => h.alloc (tblHarmonize t harm) o.cycles
  | op => step denOf h op

/-- the observations of a history according to the specification -/
def histSpec (denOf : α → α) : Heap α → List (HOp α) → List (Obs α)
  | _, [] => []
  | h, op :: ops => (specStep denOf h op).2 :: histSpec denOf (specStep denOf h op).1 ops

end Obj
end ALV.C19
