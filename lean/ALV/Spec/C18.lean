/-
  C18 — specification in the words of the property.  Mathlib-free; executable.

  * bytes of an integer: byte k of the `w`-byte two's-complement image of `n` is
    ⌊n / 256^k⌋ mod 256 (`twosLE`), big endian is the reverse.
  * chunks: the sequence followed by pad values up to a multiple of `size`
    (`padLen = (−len) mod size`), packed, cut every `size` items.
  * WavStream: the stored integers (unsigned for 8 bit), channels interleaved = file order;
    without `keep` those integers (8 bit: minus 128) divided by 2^(bits−1).
  Only the observation types (`Bytes`, `Order`, `Gen`, `Sample`) are shared with the model.
-/
import ALV.Model.C18
namespace ALV.C18

/-! ### integer images -/

/-- byte `k` of the two's-complement image of `n` -/
def byteAt (n : Int) (k : Nat) : UInt8 := UInt8.ofNat ((n / 256 ^ k) % 256).toNat

/-- `w`-byte two's-complement image, least significant byte first -/
def twosLE (w : Nat) (n : Int) : Bytes := (List.range w).map (byteAt n)

/-- `w`-byte two's-complement image in the given byte order -/
def twos (w : Nat) (order : Order) (n : Int) : Bytes :=
  match order with
  | .little => twosLE w n
  | .big => (twosLE w n).reverse

/-! ### chunks -/
section chunks
variable {α ε : Type}

/-- `(−len) mod size`: number of pad values needed to reach a multiple of `size` -/
def padLen (size len : Nat) : Nat := (size - len % size) % size

/-- the sequence followed by pad values up to a multiple of `size` -/
def padded (size : Nat) (pad : α) (xs : List α) : List α :=
  xs ++ List.replicate (padLen size xs.length) pad

/-- consecutive groups of `n` items (the last one shorter when `n ∤ length`) -/
def splitEvery (n : Nat) (l : List α) : List (List α) :=
  if _h : l = [] ∨ n = 0 then [] else l.take n :: splitEvery n (l.drop n)
termination_by l.length
decreasing_by
  simp only [List.length_drop]
  have : l.length ≠ 0 := by
    intro h0; exact _h (Or.inl (List.eq_nil_of_length_eq_zero h0))
  omega

/-- images of the items one after the other; the first item that cannot be encoded decides -/
def packSeq (enc : α → Except ε Bytes) (l : List α) : Except ε Bytes :=
  l.foldr (fun x acc =>
    match enc x, acc with
    | .error e, _ => .error e
    | .ok _, .error e => .error e
    | .ok a, .ok b => .ok (a ++ b)) (.ok [])

/-- both strategies: one chunk per group of `size` items of the padded sequence -/
def chunksSpec (enc : α → Except ε Bytes) (size : Nat) (pad : α) (xs : List α) : Gen Bytes ε :=
  genMap (packSeq enc) (splitEvery size (padded size pad xs))

/-- "unpacked with the same struct format": cut every `w` bytes and decode each group -/
def unpackSeq (dec : Bytes → Option α) (w : Nat) (bs : Bytes) : Option (List α) :=
  (splitEvery w bs).mapM dec

end chunks

/-! ### WavStream -/

/-- PCM image of one stored sample: `bits/8` bytes, little endian (for 8 bit the stored
    number is the unsigned byte itself) -/
def pcmSample (bits : Nat) (n : Int) : Bytes := twosLE (bits / 8) n

/-- data chunk of a PCM file: the samples in time order, channels interleaved -/
def pcmData (bits : Nat) (samples : List Int) : Bytes := (samples.map (pcmSample bits)).flatten

/-- range of the stored integers: unsigned for 8 bit, signed otherwise -/
def stored (bits : Nat) (n : Int) : Prop :=
  if bits = 8 then 0 ≤ n ∧ n < 256 else -(2 ^ (bits - 1)) ≤ n ∧ n < 2 ^ (bits - 1)

instance (bits : Nat) (n : Int) : Decidable (stored bits n) := by unfold stored; infer_instance

/-- the integer stored in the bytes of one sample: Σ b_k·256^k, unsigned for 8 bit,
    sign-extended (minus 2^bits when the top bit is set) otherwise -/
def storedValue (bits : Nat) (bs : Bytes) : Int :=
  if bits = 8 then leValue bs else toSigned bits (leValue bs)

section norm
variable {K : Type} [IntCast K] [Div K]

/-- what the stream yields for the stored integers `samples` -/
def wavSpec (bits : Nat) (keep : Bool) (samples : List Int) : List (Sample K) :=
  if keep then samples.map Sample.raw
  else samples.map fun n =>
    Sample.scaled ((((if bits = 8 then n - 128 else n) : Int) : K) / (((2 : Int) ^ (bits - 1) : Int) : K))

end norm

/-- after `k` `next()` calls on a stream of `n` samples: the first `min k n` samples were
    delivered; the file is closed iff the end was reached (`k > n`) -/
def closedAfter (n k : Nat) : Bool := decide (n < k)

end ALV.C18
