/-
  C11 — specification in the words of the property.  Mathlib-free; executable.

  Coefficient lists: index = delay.  `A_m(z) = Σ a_i z^-i`, `a_0 = 1`.

  * step-up (Levinson order update):   A_m(z) = A_{m-1}(z) + k_m · z^-m · A_{m-1}(1/z)
  * step-down (its inverse):           A_{m-1}(z) = (A_m(z) − k_m · z^-m · A_m(1/z)) / (1 − k_m²),
                                       k_m = coefficient of z^-m in A_m
  * PARCOR coefficients of any FIR filter g·A(z), g ≠ 0: those of its monic normalisation A
    (a gain does not move the zeros); yielded last first; the recursion breaks down
    (ParCorError) exactly when it meets k_m² = 1.
  * stability: all |k_m| < 1.
  * poles of 1/A: the roots of `Σ a_i z^(n-i)` (`evalPoly a.reverse`).
-/
import ALV.Model.C11
namespace ALV.C11
variable {α : Type} [Add α] [Mul α] [Sub α] [Neg α] [Div α] [OfNat α 0] [OfNat α 1]
  [DecidableEq α]

/-- order update by one reflection coefficient; `a` has `m` coefficients, the result `m+1` -/
def stepUp1 (a : List α) (k : α) : List α :=
  List.zipWith (fun x y => x + k * y) (a ++ [0]) (0 :: a.reverse)

/-- the filter with reflection coefficients `k_1, …, k_n` (first first) -/
def stepUp (ks : List α) : List α := ks.foldl stepUp1 [1]

/-- order reduction: `f` has `m+1` coefficients, `k` is its last one -/
def stepDown1 (f : List α) (k : α) : List α :=
  (List.zipWith (fun x y => (x - k * y) / (1 - k * k)) f f.reverse).dropLast

/-- step-down of a monic list with `m + 1` coefficients: (k_m, k_{m-1}, …; broke down?) -/
def sdLoop : Nat → List α → List α × Bool
  | 0, _ => ([], false)
  | m + 1, f =>
    let k := f.getLastD 0
    if k * k = 1 then ([k], true)
    else let r := sdLoop m (stepDown1 f k); (k :: r.1, r.2)

/-- monic normalisation: divide by the leading (delay 0) coefficient -/
def monic (f : List α) : List α := f.map (fun x => x / f.headD 1)

/-- PARCOR coefficients of the FIR filter with coefficient list `f` (f₀ ≠ 0), last first -/
def parcorSpec (f : List α) : List α × Bool :=
  let a := monic (stripZeros f)
  sdLoop (a.length - 1) a

/-- stability test: the recursion does not break down and every |k| < 1 -/
def parcorStableSpec [LT α] [DecidableLT α] (den : List α) : Bool :=
  let r := parcorSpec den
  !r.2 && r.1.all (fun k => decide (-1 < k) && decide (k < 1))

/-- `c · f` -/
def scale (c : α) (f : List α) : List α := f.map (fun x => c * x)

/-- Horner value of `Σ f_i x^i` -/
def evalPoly (f : List α) (x : α) : α := f.foldr (fun c acc => c + x * acc) 0

/-- pointwise sum, the longer list continued -/
def padd : List α → List α → List α
  | [], ys => ys
  | xs, [] => xs
  | x :: xs, y :: ys => (x + y) :: padd xs ys

/-- product of coefficient lists (polynomials in z^-1) -/
def pmul : List α → List α → List α
  | [], _ => []
  | a :: as, g => padd (g.map (fun x => a * x)) ((0 : α) :: pmul as g)

/-- denominator with prescribed poles: real poles `p` (factor `1 − p z^-1`), conjugate pairs
    `re ± i·im` (factor `1 − 2·re z^-1 + (re² + im²) z^-2`), gain `g` -/
def fromPoles (g : α) (reals : List α) (pairs : List (α × α)) : List α :=
  let f1 := reals.foldl (fun acc p => pmul acc [1, -p]) [g]
  pairs.foldl (fun acc c => pmul acc [1, -(c.1 + c.1), c.1 * c.1 + c.2 * c.2]) f1

/-- every prescribed pole strictly inside the unit circle -/
def polesInside [LT α] [DecidableLT α] (reals : List α) (pairs : List (α × α)) : Bool :=
  reals.all (fun p => decide (p * p < 1)) && pairs.all (fun c => decide (c.1 * c.1 + c.2 * c.2 < 1))

/-- Levinson prediction error from the reflection coefficients: r₀ · Π (1 − k_m²) -/
def errorSpec (r0 : α) (ks : List α) : α := ks.foldl (fun e k => e * (1 - k * k)) r0

/-- what the step-down of `stepUp ks` must yield, in the words of the property: the reflection
    coefficients in the order given (`l` = `ks` read last first) up to and INCLUDING the first one
    with `k² = 1`, where the recursion breaks down (`true` = ParCorError); all of them and `false`
    when there is none.  Equality with 1 is exact: no tolerance. -/
def cutAtUnit : List α → List α × Bool
  | [] => ([], false)
  | k :: rest => if k * k = 1 then ([k], true) else (k :: (cutAtUnit rest).1, (cutAtUnit rest).2)

end ALV.C11
