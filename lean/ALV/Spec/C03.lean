/-
  C03 — specification in the words of the property: the immutable list model.

  Every live Stream denotes a sequence; every method is the obvious list function; a copy
  is the same sequence stored a second time; a StreamTeeHub is a sequence plus the number
  of uses left.  There is no heap and no sharing: an operation on object `i` touches entry
  `i` of the pool (and appends the objects it creates), nothing else — independence of
  copies / tee outputs / thub uses is what this shape *says*.

  A sequence is finite (`per = []`) or eventually periodic (`pre` then `per` for ever:
  `Stream(1, 2, 3)`, `Stream(5)`); all methods of the property keep that form.
-/
import ALV.Model.C03
namespace ALV.C03
variable {α : Type}

structure LSeq (α : Type) where
  pre : List α
  per : List α          -- [] = finite

namespace LSeq
def fin (xs : List α) : LSeq α := ⟨xs, []⟩
def endless (s : LSeq α) : Bool := !s.per.isEmpty
/-- a prefix with at least `n` items (when that many exist) -/
def unroll (s : LSeq α) (n : Nat) : List α := s.pre ++ (List.replicate n s.per).flatten
/-- the first `n` remaining items (fewer when fewer remain) -/
def take (s : LSeq α) (n : Nat) : List α := (s.unroll n).take n
/-- without the first `n` items -/
def drop (s : LSeq α) (n : Nat) : LSeq α := ⟨(s.unroll n).drop n, s.per⟩
def map (f : α → α) (s : LSeq α) : LSeq α := ⟨s.pre.map f, s.per.map f⟩
/-- (for an endless sequence: only meaningful when the period keeps an item — otherwise
    Python loops for ever once `pre` is used up; outside the property) -/
def filter (p : α → Bool) (s : LSeq α) : LSeq α := ⟨s.pre.filter p, s.per.filter p⟩
def append (s t : LSeq α) : LSeq α := if s.endless then s else ⟨s.pre ++ t.pre, t.per⟩
end LSeq

inductive SObj (α : Type) where
  | stream (s : LSeq α)
  | hub (s : LSeq α) (uses : Nat)
  | dead

abbrev SPool (α : Type) := List (SObj α)

def srcSeq : Src α → LSeq α
  | .list xs => ⟨xs, []⟩
  | .cyc xs => ⟨[], xs⟩
  | .chain xss => ⟨xss.flatten, []⟩
  | .const v => ⟨[], [v]⟩
  | .obj _ => ⟨[], []⟩
  | .mixed pre _ post => ⟨pre ++ post, []⟩

/-- the sequence an argument denotes; an existing Stream is moved, a hub gives one use -/
def specSrc (sp : SPool α) : Src α → Except String (SPool α × LSeq α)
  | .obj j =>
    match sp[j]? with
    | some (.stream s) => .ok (sp.set j .dead, s)
    | some (.hub s (u + 1)) => .ok (sp.set j (.hub s u), s)
    | some (.hub _ 0) => .error "IndexError"
    | _ => .error "noobj"
  | .mixed pre j post =>
    match sp[j]? with
    | some (.stream s) => .ok (sp.set j .dead, ((LSeq.fin pre).append s).append (LSeq.fin post))
    | some (.hub s (u + 1)) => .ok (sp.set j (.hub s u), ((LSeq.fin pre).append s).append (LSeq.fin post))
    | some (.hub _ 0) => .error "IndexError"
    | _ => .error "noobj"
  | s => .ok (sp, srcSeq s)

def specTarget (sp : SPool α) (i : Nat) : Except String (SPool α × Nat × LSeq α) :=
  match sp[i]? with
  | some (.stream s) => .ok (sp, i, s)
  | some (.hub s (u + 1)) => .ok (sp.set i (.hub s u) ++ [.dead], sp.length, s)
  | some (.hub _ 0) => .error "IndexError"
  | _ => .error "noobj"

/-- `take(n)` on a sequence: the observation and what remains.
    `none`: the answer would be an endless list (Python never returns). -/
def specTake (s : LSeq α) (c : Cnt) : Option (LSeq α × Obs α) :=
  match takeMode c with
  | .one =>
    match s.take 1 with
    | [] => some (s, .err "StopIteration")
    | v :: _ => some (s.drop 1, .item v)
  | .all => if s.endless then none else some (⟨[], []⟩, .items s.pre)
  | .n k => some (s.drop k, .items (s.take k))

def specRebind (sp : SPool α) (i k : Nat) (s : LSeq α) : SPool α × Obs α :=
  (sp.set k (.stream s), if k = i then .unit else .new k)

def specStep (sp : SPool α) : Op α → Option (SPool α × Obs α)
  | .new s =>
    match specSrc sp s with
    | .error e => some (sp, .err e)
    | .ok (sp', x) => some (sp' ++ [.stream x], .new sp'.length)
  | .take i c =>
    match sp[i]? with
    | some (.stream s) => (specTake s c).map fun (s', o) => (sp.set i (.stream s'), o)
    | some (.hub _ _) => some (sp, .err "AttributeError")
    | _ => some (sp, .err "noobj")
  | .peek i c =>
    match sp[i]? with
    | some (.stream s) => (specTake s c).map fun (_, o) => (sp, o)
    | some (.hub s (_ + 1)) => (specTake s c).map fun (_, o) => (sp, o)
    | some (.hub _ 0) => some (sp, .err "IndexError")
    | _ => some (sp, .err "noobj")
  | .skip i c =>
    match specTarget sp i with
    | .error e => some (sp, .err e)
    | .ok (sp', k, s) =>
      match roundCount c with
      | .error _ => some (sp, .err "unsupported")
      | .ok n => some (specRebind sp' i k (s.drop n))
  | .limit i c =>
    match specTarget sp i with
    | .error e => some (sp, .err e)
    | .ok (sp', k, s) =>
      match roundCount c with
      | .error e => some (sp', .err e)
      | .ok n => some (specRebind sp' i k ⟨s.take n, []⟩)
  | .append i a =>
    match specTarget sp i with
    | .error e => some (sp, .err e)
    | .ok (sp', k, s) =>
      match specSrc sp' a with
      | .error e => some (sp', .err e)
      | .ok (sp'', t) => some (specRebind sp'' i k (s.append t))
  | .map i g =>
    match specTarget sp i with
    | .error e => some (sp, .err e)
    | .ok (sp', k, s) => some (specRebind sp' i k (s.map g))
  | .filter i p =>
    match specTarget sp i with
    | .error e => some (sp, .err e)
    | .ok (sp', k, s) => some (specRebind sp' i k (s.filter p))
  | .copy i =>
    match sp[i]? with
    | some (.stream s) => some (sp ++ [.stream s], .new sp.length)
    | some (.hub s (_ + 1)) => some (sp ++ [.stream s], .new sp.length)
    | some (.hub _ 0) => some (sp, .err "IndexError")
    | _ => some (sp, .err "noobj")
  | .next i =>
    match sp[i]? with
    | some (.stream s) => (specTake s .none).map fun (s', o) => (sp.set i (.stream s'), o)
    | some (.hub s (u + 1)) => (specTake s .none).map fun (_, o) => (sp.set i (.hub s u), o)
    | some (.hub _ 0) => some (sp, .err "IndexError")
    | _ => some (sp, .err "noobj")
  | .drain i =>
    match sp[i]? with
    | some (.stream s) => (specTake s .inf).map fun (s', o) => (sp.set i (.stream s'), o)
    | some (.hub s (u + 1)) => (specTake s .inf).map fun (_, o) => (sp.set i (.hub s u), o)
    | some (.hub _ 0) => some (sp, .err "IndexError")
    | _ => some (sp, .err "noobj")
  | .thub a n =>
    match a with
    | .const v => some (sp, .const v)
    | a =>
      match specSrc sp a with
      | .error e => some (sp, .err e)
      | .ok (sp', s) => some (sp' ++ [.hub s n], .new sp'.length)
  | .tee i n =>
    match specSrc sp (.obj i) with
    | .error e => some (sp, .err e)
    | .ok (sp', s) =>
      some (sp' ++ List.replicate n (.stream s), .news ((List.range n).map (· + sp'.length)))

def specRun : SPool α → List (Op α) → List (Option (Obs α))
  | _, [] => []
  | sp, op :: ops =>
    match specStep sp op with
    | none => [none]
    | some (sp', o) => some o :: specRun sp' ops

/-! ### the caller's containers (`hist`) in the list model

Lists are values: a container handed out is a new value of the caller, a list passed in is
its contents at the call; the streams and the caller's lists never share anything. -/

structure HSp (α : Type) where
  sp : SPool α
  lists : List (List α)

def specKeep (s : HSp α) (o : Op α) : Option (HSp α × Obs α) :=
  match specStep s.sp o with
  | none => none
  | some (sp', ob) => some (⟨sp', keep s.lists ob⟩, ob)

def hspecStep (s : HSp α) : HOp α → Option (HSp α × Obs α)
  | .op o => specKeep s o
  | .lit xs => some (⟨s.sp, s.lists ++ [xs]⟩, .new s.lists.length)
  | .edit j m =>
    match s.lists[j]? with
    | none => some (s, .err "nolist")
    | some xs => some (⟨s.sp, s.lists.set j (m.apply xs)⟩, .unit)
  | .newRef j =>
    match s.lists[j]? with
    | none => some (s, .err "nolist")
    | some xs => specKeep s (.new (.list xs))
  | .appendRef i j =>
    match s.lists[j]? with
    | none => some (s, .err "nolist")
    | some xs => specKeep s (.append i (.list xs))
  | .thubRef j n =>
    match s.lists[j]? with
    | none => some (s, .err "nolist")
    | some xs => specKeep s (.thub (.list xs) n)

def hspecRun : HSp α → List (HOp α) → List (Option (Obs α)) × List (List α)
  | s, [] => ([], s.lists)
  | s, hop :: hops =>
    match hspecStep s hop with
    | none => ([none], s.lists)
    | some (s', o) => let r := hspecRun s' hops; (some o :: r.1, r.2)

end ALV.C03
