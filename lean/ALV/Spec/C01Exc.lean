/-
  C01 — specification, part 2: element by element ALSO when an element operation raises and the
  caller goes on reading.  Property shaped: the sequence of outcomes (item / exception) of a result is
  a function of the sequences of outcomes of its operands.

  * unary operator, operator with a scalar operand, `Stream.map`, `abs`:  position by position
    (`mapOuts`): an exception at position i stands at position i, the positions after it are still
    `op(x[i+1], …)`, the result has exactly as many positions as the operand;
  * operator with two iterable operands (`merge2`): the operand python evaluates FIRST (self for a
    plain dunder, other for a reflected one) decides: where its own computation raised, that exception
    is the outcome and the second operand is not advanced; where it has an item, the item meets the
    next outcome of the second operand (an item: `f(x, y)`; an exception: that exception; the end: the
    end).  When the first operand never raises this is the plain position-by-position zip, ending with
    the shortest operand;
  * a generator expression (`s.attr`, `s(...)`, the lazy result of a broadcast function): as `mapOuts`
    up to the first exception, nothing after it (`cutRaise`).
  Core Lean only; executable.
-/
import ALV.Model.C01Exc
import ALV.Spec.C01
namespace ALV.C01

def liftOut (bad : Term → Bool) (f : Term → Term) : Out → Out
  | .item x => chk bad (f x)
  | .raised t => .raised t
  | .stop => .stop

/-- position by position -/
def mapOuts (bad : Term → Bool) (f : Term → Term) (l : List Out) : List Out := l.map (liftOut bad f)

/-- a generator: nothing after the first exception -/
def cutRaise : List Out → List Out
  | [] => []
  | .raised t :: _ => [.raised t]
  | o :: r => o :: cutRaise r

/-- `map(f, a, b)` on the outcomes of `a` and of `b` -/
def merge2 (bad : Term → Bool) (f : Name) : List Out → List Out → List Out
  | [], _ => []
  | .stop :: _, _ => []
  | .raised t :: as, bs => .raised t :: merge2 bad f as bs
  | .item _ :: _, [] => []
  | .item _ :: _, .stop :: _ => []
  | .item _ :: as, .raised t :: bs => .raised t :: merge2 bad f as bs
  | .item x :: as, .item y :: bs => chk bad (.app f [x, y]) :: merge2 bad f as bs

/-- no exception among the outcomes -/
def allItems : List Out → Bool
  | [] => true
  | .item _ :: r => allItems r
  | _ :: _ => false

/-- the plain zip of two outcome lists -/
def zipOuts (bad : Term → Bool) (f : Name) : List Out → List Out → List Out
  | .item x :: as, .item y :: bs => chk bad (.app f [x, y]) :: zipOuts bad f as bs
  | .item _ :: as, .raised t :: bs => .raised t :: zipOuts bad f as bs
  | _, _ => []

def Py.scalarTerm : Py → Option Term
  | .scalar c => some c
  | .ignored c => some c
  | _ => none

/-- no attribute access / call node (the two generator expressions of `class Stream`) -/
def Py.genFree : Py → Bool
  | .scalar _ | .ignored _ | .iterable _ _ => true
  | .stream1 a => a.genFree
  | .stream2 a b => a.genFree && b.genFree
  | .un _ s => s.genFree
  | .bin _ s o => s.genFree && o.genFree
  | .meth g _ s => !g && s.genFree
  | .append s o => s.genFree && o.genFree

/-- The first `n` outcomes (fewer when the value ends) of reading the value of the expression with
    `next` in a try/except loop.  `cut = true`: `s.attr` / `s(...)` are generator expressions, as in
    the code; `cut = false`: they act element by element like every other operation. -/
def Py.outsG (bad : Term → Bool) (cut : Bool) : Py → Nat → List Out
  | .scalar c, n => List.replicate n (.item c)
  | .ignored c, n => List.replicate n (.item c)
  | .iterable _ xs, n => (xs.take n).map .item
  | .stream1 a, n => a.outsG bad cut n
  | .stream2 a b, n =>
    if a.isIterable then
      let da := a.outsG bad cut n
      da ++ b.outsG bad cut (n - da.length)
    else (List.range n).map fun i => .item ((if i % 2 = 0 then a.scalarTerm else b.scalarTerm).getD default)
  | .un d s, n =>
    match specLookup d with
    | some sp => mapOuts bad (fun x => .app sp.fn [x]) (s.outsG bad cut n)
    | none => []
  | .bin d s o, n =>
    match specLookup d with
    | some sp =>
      match o.scalarTerm with
      | some c => mapOuts bad (fun x => .app sp.fn (if sp.reflected then [c, x] else [x, c])) (s.outsG bad cut n)
      | none =>
        if sp.reflected then merge2 bad sp.fn (o.outsG bad cut n) (s.outsG bad cut n)
        else merge2 bad sp.fn (s.outsG bad cut n) (o.outsG bad cut n)
    | none => []
  | .meth g l s, n =>
    let r := mapOuts bad (fun x => .app l [x]) (s.outsG bad cut n)
    if cut && g then cutRaise r else r
  | .append s o, n =>
    let ds := s.outsG bad cut n
    ds ++ o.outsG bad cut (n - ds.length)

/-- as the code does it -/
abbrev Py.outs (bad : Term → Bool) : Py → Nat → List Out := Py.outsG bad true
/-- as the property says it -/
abbrev Py.outsP (bad : Term → Bool) : Py → Nat → List Out := Py.outsG bad false

/-- `take(k)` seen on the outcomes that `k` calls of `next` would deliver: all items, or the first exception -/
def takeOuts : List Out → Except Term (List Term)
  | [] => .ok []
  | .item x :: r =>
    match takeOuts r with
    | .ok xs => .ok (x :: xs)
    | .error t => .error t
  | .raised t :: _ => .error t
  | .stop :: _ => .ok []

/-- how many calls of `next` a `take` uses up: through the first exception -/
def takeUsed : List Out → Nat
  | [] => 0
  | .item _ :: r => takeUsed r + 1
  | .raised _ :: _ => 1
  | .stop :: _ => 0

/-! ## the QUERY log and scripts of reads, property shaped -/

/-- the applications asked about, in order, through the first one that raises (nothing is asked after it) -/
def throughFirst (bad : Term → Bool) : List Term → List Term
  | [] => []
  | t :: r => if bad t then [t] else t :: throughFirst bad r

/-- how many calls of `next` a read may use -/
def Read.cost : Read → Nat
  | .next => 1
  | .take k => k
  | .peek k => k

def readsCost : List Read → Nat
  | [] => 0
  | r :: rs => r.cost + readsCost rs

/-- did this read meet the end of the data?  (`next`: StopIteration; `take(k)`: fewer than `k` items) -/
def ReadOut.metEnd : Read → ReadOut → Bool
  | _, .one .stop => true
  | .take k, .took (.ok xs) => decide (xs.length < k)
  | .peek k, .took (.ok xs) => decide (xs.length < k)
  | _, _ => false

/-- a script is observed up to and including the first read that meets the end of the data -/
def untilEnd : List Read → List ReadOut → List ReadOut
  | r :: rs, o :: os => if ReadOut.metEnd r o then [o] else o :: untilEnd rs os
  | _, _ => []

/-- the items in front of the first exception / the end -/
def itemTerms : List Out → List Term
  | .item x :: r => x :: itemTerms r
  | _ => []

/-- a script of `next` / `take(k)` / `peek(k)` reads, seen on the outcomes that successive calls of `next` deliver
    (a drain: the list ends where the data ends): `next` is the next outcome; `take(k)` is all items of
    the next `k` outcomes or the first exception among them, and uses up the outcomes through that
    exception; the reading is observed up to the first read that meets the end -/
def scriptOuts : List Read → List Out → List ReadOut
  | [], _ => []
  | .next :: _, [] => [.one .stop]
  | .next :: rs, o :: os => .one o :: scriptOuts rs os
  | .take k :: rs, os =>
    let w := os.take k
    .took (takeOuts w) ::
      (if ReadOut.metEnd (.take k) (.took (takeOuts w)) then [] else scriptOuts rs (os.drop (takeUsed w)))
  | .peek k :: rs, os =>
    -- `peek(k)` answers like `take(k)`; the items it saw stay in the Stream, an exception it met is gone
    let w := os.take k
    .took (takeOuts w) ::
      (if ReadOut.metEnd (.peek k) (.took (takeOuts w)) then []
       else scriptOuts rs ((itemTerms w).map .item ++ os.drop (takeUsed w)))

/-- broadcast functions: what the property says about a container whose elements may make the function raise -/
def bcastOuts (bad : Term → Bool) (c : ECall) (src : List Out) : List Out :=
  cutRaise (mapOuts bad c.callWith src)

end ALV.C01
