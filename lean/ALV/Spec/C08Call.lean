/-
  C08 — what a CALL of `blocks` / `zero_pad` gives, class by class of the spelling of its parameters
  (property shaped: closed forms, no loop, no index).

    size            hop                        result
    -------------   ------------------------   ------------------------------------------------------------
    not an int      any                        TypeError (None, float, Fraction, other), nothing pulled
    int < 0         any                        ValueError, nothing pulled
    int > 2^63-1    any                        OverflowError, nothing pulled
    int ≥ 0         not a number               TypeError, nothing pulled
    (seq not iterable)                         TypeError, nothing pulled
    0               number                     one EMPTY block at the end iff more than max(-hop,0) items came
    ≥ 1             None                       = hop given as `size`
    ≥ 1             int ≥ 1                    THE PROPERTY: complete blocks k*hop .. k*hop+size-1, block k after
                                               k*hop+size pulled items, padded final block iff > max(size-hop,0) real items
    ≥ 1             float/Fraction = int ≥ 1   the same complete blocks; where a padded final block is due AFTER at
                                               least one complete block: TypeError instead of it
    ≥ 1             int ≤ 0                    block 0, then nothing until the source ENDS (an endless source is read
                                               for ever), then the last `size` items once more iff there were more than `size`
    ≥ 1             float/Fraction = int ≤ 0   the same with TypeError instead of that last block
    ≥ 1             not integral               block 0 (padded if short), then nothing; TypeError at the end iff more
                                               than max(size, hop) items came
    ≥ 0             float inf / -inf / nan     never an error: block 0 if `size ≥ 1` items come, then nothing, clean end;
                                               fewer than `size` items (or size 0): the padded (empty) block iff hop = +inf
                                               and at least one item came
-/
import ALV.Spec.C08Hist
import ALV.Model.C08Call
namespace ALV.C08
variable {α : Type}

/-- the number as a rational and whether it is a Python int -/
def Num.val? : Num → Option (Rat × Bool)
  | .int i => some (i, true)
  | .flt q => some (q, false)
  | .frac q => some (q, false)
  | _ => Option.none

/-- events of the property: complete blocks with their read counts -/
def fullEvents (size hop : Nat) (xs : List α) : List (Nat × List α) :=
  (List.range (nFull size hop xs.length)).map fun k => (k * hop + size, (xs.drop (k * hop)).take size)

/-- ending after the loop for a source that stopped: the final block, or the refusal of it when the
index is not an int any more -/
def finish (ev : List (Nat × List α)) (n : Nat) (due : Bool) (ok : Bool) (b : Unit → List α) : CallRun α :=
  if due then (if ok then ⟨ev ++ [(n, b ())], .stop, n⟩ else ⟨ev, .err .typeError, n⟩) else ⟨ev, .stop, n⟩

/-- the loop and the end for an accepted size `sz` and a hop of value `q` (`isInt`: the hop is spelled as an
int, so the index stays a Python int): the rows `0` / `≥ 1` of the table above -/
def hopTable (sz : Nat) (q : Rat) (isInt : Bool) (pad : α) (xs : List α) (e : Ending) : CallRun α :=
  let n := xs.length
  if sz = 0 then
    match e with
    | .fail => ⟨[], .srcFail, n⟩
    | .stop => finish [] n (decide (max (-q) 0 < (n : Rat))) true (fun _ => [])
  else if q.den = 1 ∧ 1 ≤ q.num then
    -- THE PROPERTY (hop a positive whole number)
    let h := q.num.toNat
    let ev := fullEvents sz h xs
    match e with
    | .fail => ⟨ev, .srcFail, n⟩
    | .stop =>
      match tailBlock sz h pad xs with
      | [] => ⟨ev, .stop, n⟩
      | b :: _ => finish ev n true (isInt || ev.isEmpty) (fun _ => b)
  else
    -- hop ≤ 0 or not a whole number: no second block in the loop
    let ev := if sz ≤ n then [(sz, xs.take sz)] else []
    match e with
    | .fail => ⟨ev, .srcFail, n⟩
    | .stop =>
      if n < sz then
        finish ev n (decide (max ((sz : Rat) - q) 0 < (n : Rat))) true (fun _ => xs ++ List.replicate (sz - n) pad)
      else
        finish ev n (decide (sz < n ∧ q < (n : Rat))) isInt (fun _ => xs.drop (n - sz))

/-- a non-finite float hop -/
def nonFinTable (sz : Nat) (k : NonFin) (pad : α) (xs : List α) (e : Ending) : CallRun α :=
  let n := xs.length
  if sz = 0 then
    match e with
    | .fail => ⟨[], .srcFail, n⟩
    | .stop => finish [] n (decide (k = .pinf ∧ 0 < n)) true (fun _ => [])
  else
    let ev := if sz ≤ n then [(sz, xs.take sz)] else []
    match e with
    | .fail => ⟨ev, .srcFail, n⟩
    | .stop => finish ev n (decide (k = .pinf ∧ 0 < n ∧ n < sz)) true (fun _ => xs ++ List.replicate (sz - n) pad)

def blocksCallSpec (dflt : α) (size hop : Num) (padval : Option α) (iterable : Bool) (xs : List α)
    (e : Ending) : CallRun α :=
  let pad := padval.getD dflt
  match size with
  | .int s =>
    if s < 0 then ⟨[], .err .valueError, 0⟩
    else if maxSsize < s then ⟨[], .err .overflowError, 0⟩
    else
      let sz := s.toNat
      match hop with
      | .fnf k => if !iterable then ⟨[], .err .typeError, 0⟩ else nonFinTable sz k pad xs e
      | _ =>
        -- the defaulting rule: hop None = size
        match (match hop with | .none => some ((sz : Rat), true) | h => h.val?) with
        | Option.none => ⟨[], .err .typeError, 0⟩
        | some (q, isInt) =>
          if !iterable then ⟨[], .err .typeError, 0⟩
          else hopTable sz q isInt pad xs e
  | _ => ⟨[], .err .typeError, 0⟩

/-- `zero_pad`: `max(left,0)` pads, the items, `max(right,0)` pads; a `left` that is not an int is
refused before anything, a `right` that is not an int after the whole input. -/
def zeroPadCallSpec (dflt : α) (left right : Option Num) (zero : Option α) (iterable : Bool)
    (xs : List α) (e : Ending) : List α × List Nat × CallEnd :=
  let z := zero.getD dflt
  match left.getD (.int 0) with
  | .int l =>
    let pre := List.replicate l.toNat z
    let r0 := List.replicate l.toNat 0
    if !iterable then (pre, r0, .err .typeError)
    else
      let rd := r0 ++ (List.range xs.length).map (· + 1)
      match e with
      | .fail => (pre ++ xs, rd, .srcFail)
      | .stop =>
        match right.getD (.int 0) with
        | .int r => (pre ++ xs ++ List.replicate r.toNat z, rd ++ List.replicate r.toNat xs.length, .stop)
        | _ => (pre ++ xs, rd, .err .typeError)
  | _ => ([], [], .err .typeError)

/-! ### a caller that changes the yielded deque in ANY way (length too) -/

/-- what a `deque(maxlen=size)` holds after receiving the items of `l` in order -/
def lastSz (size : Nat) (l : List α) : List α := l.drop (l.length - size)

/-- `hop ≤ size`, after the first block: the deque holds `d` (what the caller left), the input still has `v`.
The next block is the last `size` of `d` followed by the next `hop` items; when fewer than `hop` (but some)
items are left, the final block is the last `size` of `d`, these items and the missing pads. -/
def mutSpecGo (size hop : Nat) (pad : α) (edit : Nat → List α → List α) :
    Nat → List α → List α → List (List α)
  | k, d, v =>
    if _h : v.length < hop ∨ hop = 0 then
      (if 0 < v.length then [lastSz size (d ++ v ++ List.replicate (hop - v.length) pad)] else [])
    else
      lastSz size (d ++ v.take hop) ::
        mutSpecGo size hop pad edit (k + 1) (edit k (lastSz size (d ++ v.take hop))) (v.drop hop)
termination_by _ _ v => v.length
decreasing_by
  simp only [List.length_drop]
  omega

def mutSpecG (size hop : Nat) (pad : α) (edit : Nat → List α → List α) (xs : List α) : List (List α) :=
  if xs.length < size then
    (if (xs.length : Int) > max ((size : Int) - hop) 0 then [xs ++ List.replicate (size - xs.length) pad] else [])
  else xs.take size :: mutSpecGo size hop pad edit 1 (edit 0 (xs.take size)) (xs.drop size)

end ALV.C08
