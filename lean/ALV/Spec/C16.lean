/-
  C16 — specification in the words of the property.

  Every accepted `add(delta_i, data_i)` is logged as an event with

      T_i     = delta_0 + … + delta_i                     (cumulative time, exact)
      start_i = max(nearest(T_i), moment it was added)    nearest T = ⌈T − 1/2⌉  (ties go DOWN)

  where "moment" = number of samples already delivered.  Output sample n is

      out n = zero + Σ_{i : start_i ≤ n < start_i + len_i} data_i[n − start_i]   (in the order added)

  Without keep the stream ends at the first `next` at which every logged event is over
  (start_i + len_i ≤ n) — no event playing, none pending; with keep it goes on with `zero`.
  Once ended it stays ended.  A negative delta is rejected and logs nothing.
  No queue, no `count`, no playing list: the spec is a log and closed formulas over it.
-/
import ALV.Model.C16
namespace ALV.C16
variable {α β : Type}

/-- a logged event: its (final) start sample and its data -/
structure SEv (α : Type) where
  start : Nat
  data : List α

/-- nearest sample to the time `T`, a tie (`T = k + 1/2`) going to the earlier sample -/
def nearest (T : Rat) : Int := (T - 1/2).ceil

/-- start of an event whose cumulative time is `T`, added when `n` samples were already out -/
def startTime (T : Rat) (n : Nat) : Nat := max (nearest T).toNat n

/-- the item event `e` contributes to sample `n`, if any -/
def term (n : Nat) (e : SEv α) : Option α :=
  if e.start ≤ n then e.data[n - e.start]? else none

/-- sample `n` of the mix -/
def outAt [Add α] (zero : α) (n : Nat) (evs : List (SEv α)) : α :=
  (evs.filterMap (term n)).foldl (· + ·) zero

/-- event over before sample `n` -/
def SEv.doneAt (e : SEv α) (n : Nat) : Prop := e.start + e.data.length ≤ n

instance (e : SEv α) (n : Nat) : Decidable (e.doneAt n) := by unfold SEv.doneAt; infer_instance

structure SState (α : Type) where
  n : Nat               -- samples delivered so far
  T : Rat               -- cumulative time of the accepted adds
  evs : List (SEv α)    -- the log, in the order added
  keep : Bool
  dead : Bool           -- the stream has ended

def SState.init (keep : Bool) : SState α := ⟨0, 0, [], keep, false⟩

def sstep [Add α] (zero : α) (s : SState α) : Op α → SState α × Obs α
  | .add d x =>
    if d < 0 then (s, .valueError)
    else ({ s with T := s.T + d, evs := s.evs ++ [⟨startTime (s.T + d) s.n, x⟩] }, .ok)
  | .next =>
    if s.dead then (s, .stop)
    else if s.keep = false ∧ ∀ e ∈ s.evs, e.doneAt s.n then ({ s with dead := true }, .stop)
    else ({ s with n := s.n + 1 },
          .out (outAt zero s.n s.evs) (s.evs.countP (fun e => e.start == s.n)))
  | .setKeep b => ({ s with keep := b }, .ok)

def srun [Add α] (zero : α) : SState α → List (Op α) → SState α × List (Obs α)
  | s, [] => (s, [])
  | s, op :: ops =>
    let r := sstep zero s op
    let t := srun zero r.1 ops
    (t.1, r.2 :: t.2)

/-! vocabulary of the invariant `count = n + 1/2 − Σ started deltas` -/

/-- cumulative time of the adds a history got accepted (negative deltas are rejected) -/
def acceptedTime : List (Op α) → Rat
  | [] => 0
  | .add d _ :: ops => (if d < 0 then 0 else d) + acceptedTime ops
  | _ :: ops => acceptedTime ops

/-- number of samples delivered -/
def delivered : List (Obs α) → Nat
  | [] => 0
  | .out _ _ :: os => delivered os + 1
  | _ :: os => delivered os

/-- total of the deltas still waiting in `_not_playing` -/
def qsum : List (Rat × List α) → Rat
  | [] => 0
  | p :: q => p.1 + qsum q

/-- cumulative times `T_i = d_0 + … + d_i`, starting from `T` -/
def cumTimes (T : Rat) : List Rat → List Rat
  | [] => []
  | d :: ds => (T + d) :: cumTimes (T + d) ds

/-- length of the finite mix: `max_i (start_i + len_i)` (0 for no event) -/
def mixLength (evs : List (SEv α)) : Nat :=
  evs.foldl (fun m e => max m (e.start + e.data.length)) 0

/-- a batch of events as a history of `add`s -/
def addOps (evs : List (Rat × List α)) : List (Op α) := evs.map fun p => .add p.1 p.2

/-- the log of a batch of events all added at moment `n`, the time accepted before being `T`:
    event i starts at `max(nearest(T + d_0 + … + d_i), n)` -/
def batchLog (n : Nat) : Rat → List (Rat × List α) → List (SEv α)
  | _, [] => []
  | T, p :: r => ⟨startTime (T + p.1) n, p.2⟩ :: batchLog n (T + p.1) r

/-- the observations of `k` consecutive `next`s on a finite mix with log `evs`, from sample `n` -/
def outObs [Add α] (zero : α) (evs : List (SEv α)) (i : Nat) : Obs α :=
  .out (outAt zero i evs) (evs.countP (fun e => e.start == i))

/-- ControlStream: the value most recently assigned before the end of the history `h`
    (the constructor's value when there was no assignment) -/
def lastAssigned (init : β) : List (COp β) → β
  | [] => init
  | .set v :: h => lastAssigned v h
  | .read :: h => lastAssigned init h

/-- what the k-th operation shows: a read shows the last value assigned before it -/
def cspec (init : β) (h : List (COp β)) : List (Option β) :=
  (List.range h.length).map fun k =>
    match h[k]? with
    | some COp.read => some (lastAssigned init (h.take k))
    | _ => none

end ALV.C16
