/-
  C16 — what a mixer with a MUTABLE zero shows, in the words of the specification: the log of events
  and the closed-form sum of `ALV.Spec.C16`, but the sum of a sample starts from the last delivered
  sample (the zero object as that sample left it) instead of from the constructor's zero value.
-/
import ALV.Spec.C16
import ALV.Model.C16K
namespace ALV.C16
variable {α : Type}

/-- the cell after an operation that showed `o` -/
def cellAfter (cell : α) : Obs α → α
  | .out v _ => v
  | _ => cell

def ksrun [Add α] : α → SState α → List (Op α) → List (Obs α)
  | _, _, [] => []
  | cell, s, op :: ops =>
    let r := sstep cell s op
    r.2 :: ksrun (cellAfter cell r.2) r.1 ops

/-- the samples a list of observations delivered, in order -/
def samples : List (Obs α) → List α
  | [] => []
  | .out v _ :: os => v :: samples os
  | _ :: os => samples os

end ALV.C16
