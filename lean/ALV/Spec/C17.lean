/-
  C17 — specification in the words of the property.

  * what a device stream must receive: consecutive chunks of exactly `cs` samples whose
    concatenation is the audio followed by zero padding to a chunk boundary;
  * what must hold once `close` has returned.
-/
import ALV.Model.C17
namespace ALV.C17

/-- zero padding to a chunk boundary -/
def padLen (cs len : Nat) : Nat := (cs - len % cs) % cs

def padded (cs : Nat) (audio : List Int) : List Int :=
  audio ++ List.replicate (padLen cs audio.length) 0

/-- consecutive groups of `cs` samples (the last one may be short — never, on `padded`) -/
def groups (cs : Nat) (xs : List Int) : List (List Int) :=
  if _h : xs = [] ∨ cs = 0 then [] else xs.take cs :: groups cs (xs.drop cs)
termination_by xs.length
decreasing_by
  have : xs.length ≠ 0 := by
    intro h0; exact _h (Or.inl (List.eq_nil_of_length_eq_zero h0))
  simp only [List.length_drop]; omega

/-- the chunks the device must receive for `audio` -/
def chunksSpec (cs : Nat) (audio : List Int) : List (List Int) := groups cs (padded cs audio)

/-- "nothing lost, duplicated or reordered": what was delivered so far is a prefix of the
    chunk sequence, and the whole of it when the player ran to completion un-stopped. -/
def deliveredOK (cs : Nat) (audio : List Int) (written : List (List Int)) (complete : Bool) : Bool :=
  let want := chunksSpec cs audio
  written == want.take written.length && (!complete || written == want)

/-! ### the call `AudioIO.play(audio, **kwargs)` as written, and what it asks of the backend -/

/-- keyword arguments of `play` / `AudioThread.__init__`: each one given or omitted -/
structure PlayCall where
  chunkSize : Option Nat := none      -- `chunk_size=`; omitted or `None`: `chunks.size`
  dfmt : Option String := none        -- `dfmt=`; omitted: `"f"`
  channels : Option Nat := none       -- `channels=`; omitted: 1
  rate : Option Nat := none           -- `rate=`; omitted: `DEFAULT_SAMPLE_RATE` = 44100
  device : Option Nat := none         -- `output_device_index=` (any other keyword is passed through alike)
  deriving Repr, DecidableEq, Inhabited

/-- keyword arguments of `pa.open(...)` -/
structure OpenArgs where
  format : Nat
  channels : Nat
  rate : Nat
  framesPerBuffer : Nat
  output : Bool
  device : Option Nat
  deriving Repr, DecidableEq, Inhabited

/-- `_STRUCT2PYAUDIO` -/
def fmtCode : String → Nat
  | "f" => 1 | "i" => 2 | "h" => 8 | "b" => 16 | "B" => 32 | _ => 0

/-- frames per chunk of the call (`chunk_size`, default `chunks.size`) -/
def frames (defaultSize : Nat) (c : PlayCall) : Nat := c.chunkSize.getD defaultSize

/-- samples per chunk handed to `chunks(audio, size=…)`: `chunk_size * nchannels` -/
def samplesPerChunk (defaultSize : Nat) (c : PlayCall) : Nat := frames defaultSize c * c.channels.getD 1

/-- the `pa.open` call of `AudioThread.__init__`; `apiOut` = `api["defaultOutputDevice"]` when the
    manager was built with `api=…` (a `setdefault`: an explicit `output_device_index` wins) -/
def openArgs (defaultSize : Nat) (apiOut : Option Nat) (c : PlayCall) : OpenArgs :=
  { format := fmtCode (c.dfmt.getD "f"), channels := c.channels.getD 1, rate := c.rate.getD 44100,
    framesPerBuffer := frames defaultSize c, output := true,
    device := match c.device with | some d => some d | none => apiOut }

/-- state "after close": every device stream closed, backend terminated exactly once,
    `_threads` empty, manager finished, every player thread past its last backend call and
    past `thread_finished` (only the release of its own locks may remain). -/
def exiting (p : Player) : Bool := p.pc == .tfRel || p.pc == .finRel || p.pc == .done

def closedAfter (s : State) : Bool :=
  s.finished && s.terminated == 1 && s.threads.isEmpty &&
  s.players.all (fun (p : Player) => p.sst == SSt.closed && exiting p)

/-- the strict reading: no player thread alive at all -/
def noneAlive (s : State) : Bool := s.players.all (fun (p : Player) => p.pc == PPc.done)

/-! ### lock order -/

inductive LockId where
  | hlock              -- `AudioIO.halting`
  | tlock (i : Nat)    -- `AudioThread.lock` of player i
  | mlock              -- `AudioIO.lock`
  deriving DecidableEq, Repr

/-- the order in which locks may be nested: halting, then a thread lock, then the manager lock -/
def lockRank : LockId → Nat
  | .hlock => 0
  | .tlock _ => 1
  | .mlock => 2

/-- thread `t` is the owner recorded in the lock -/
def holds (s : State) (t : Tid) : LockId → Prop
  | .hlock => s.hlock = some t
  | .mlock => s.mlock = some t
  | .tlock i => ∃ p, s.players[i]? = some p ∧ p.lk = some t

def wantsMain : MPc → Option LockId
  | .pAcq _ _ => some .mlock
  | .cAcq _ i => some (.tlock i)
  | .kHAcq => some .hlock
  | .kMAcq => some .mlock
  | .kSAcq i => some (.tlock i)
  | _ => none

def wantsPlayer (i : Nat) : PPc → Option LockId
  | .finAcq => some (.tlock i)
  | .tfAcq => some .mlock
  | _ => none

/-- the lock whose acquisition is the pending operation of thread `t` -/
def wants (s : State) : Tid → Option LockId
  | .main => wantsMain s.mpc
  | .player i => ((s.players[i]?).map (·.pc)).bind (wantsPlayer i)

end ALV.C17
