/-
  C13 — specification in the words of the property (executable, Mathlib-free).

  The observables the property names, for a filter given by its real coefficient lists
  (`b` = numerator, `a` = denominator, index = delay):

    gainReal s w      H at the real point w = z⁻¹  (w = 1: DC, w = -1: Nyquist)
    magSq s ω         |H(e^{jω})|²  = |Σ b_k e^{-jkω}|² / |Σ a_k e^{-jkω}|²
                      written with cos / sin sums only (real arithmetic)
    combFbSpec / combFfSpec    y[n] = x[n] + α·y[n-D]   resp.   y[n] = x[n] + α·x[n-D]

  and the contract of every design as a record of required values (`Contract`): what the
  documentation promises and the theorems of `ALV/Props/C13.lean` prove about the model; the
  harness measures the same quantities on the implementation (`abs(filt.freq_response(w))`, roots
  of `filt.denominator`) and compares them with this record.
-/
import ALV.Model.C13
namespace ALV.C13
section generic
variable {α : Type} [TrigField α]
open TrigField

/-- `Σ_k c_k w^k` (Horner) at a real point -/
def polyEval (w : α) : List α → α
  | [] => c0
  | c :: cs => c + w * polyEval w cs

/-- the transfer function at the real point `w = z⁻¹` -/
def gainReal (s : Coefs α) (w : α) : α := polyEval w s.num / polyEval w s.den

/-- gain at DC (`ω = 0`, `z⁻¹ = 1`) -/
def dcGain (s : Coefs α) : α := gainReal s c1
/-- gain at the Nyquist frequency (`ω = π`, `z⁻¹ = -1`) -/
def nyquistGain (s : Coefs α) : α := gainReal s (-c1)

/-- `Σ_k c_k cos((i+k)ω)` -/
def cosSum (ω : α) (i : Nat) : List α → α
  | [] => c0
  | c :: cs => c * cos (ofNat i * ω) + cosSum ω (i + 1) cs

/-- `Σ_k c_k sin((i+k)ω)` -/
def sinSum (ω : α) (i : Nat) : List α → α
  | [] => c0
  | c :: cs => c * sin (ofNat i * ω) + sinSum ω (i + 1) cs

/-- `|Σ_k c_k e^{-jkω}|²` -/
def polyMagSq (c : List α) (ω : α) : α :=
  cosSum ω 0 c * cosSum ω 0 c + sinSum ω 0 c * sinSum ω 0 c

/-- `|H(e^{jω})|²` -/
def magSq (s : Coefs α) (ω : α) : α := polyMagSq s.num ω / polyMagSq s.den ω

/-! ### comb filters: the difference equations of the docstrings -/

/-- `y[n] = x[n] + α·y[n-D]` (`y` before time 0 is zero); `ys` = outputs so far, latest first -/
def combFbFrom (D : Nat) (alpha : α) (ys : List α) : List α → List α
  | [] => []
  | x :: xs =>
    let y := if D = 0 ∨ ys.length < D then x else x + alpha * ys.getD (D - 1) c0
    y :: combFbFrom D alpha (y :: ys) xs

def combFbSpec (D : Nat) (alpha : α) (xs : List α) : List α := combFbFrom D alpha [] xs

/-- `y[n] = x[n] + α·x[n-D]` (`x` before time 0 is zero); `hx` = inputs so far, latest first -/
def combFfFrom (D : Nat) (alpha : α) (hx : List α) : List α → List α
  | [] => []
  | x :: xs =>
    let y := if hx.length < D then x else x + alpha * (x :: hx).getD D c0
    y :: combFfFrom D alpha (x :: hx) xs

def combFfSpec (D : Nat) (alpha : α) (xs : List α) : List α := combFfFrom D alpha [] xs

/-! ### contracts -/

/-- What a design promises.  Every design additionally promises stability (all poles strictly
inside the unit circle); that clause has no parameter and is not a field. -/
structure Contract (α : Type) where
  /-- required gain at DC -/
  dc : Option α := none
  /-- required gain at Nyquist -/
  nyquist : Option α := none
  /-- `(ω, g)`: required `|H(e^{jω})|² = g` -/
  points : List (α × α) := []
  /-- `(x, g)`: required `|H(e^{jω})|² = g` at every ω with `cos ω = x` -/
  cosPoints : List (α × α) := []
  /-- required modulus of every pole -/
  poleRadius : Option α := none
  /-- required upper bound of `|H(e^{jω})|²` over all ω (the documented peak) -/
  peak : Option α := none
  /-- `-1`: `|H|` decreasing on [0, π]; `1`: increasing; `0`: nothing promised -/
  mono : Int := 0

/-- lowpass `pole` / `z`: unit DC gain, half power at the cut-off, magnitude decreasing -/
def lowpassContract (cutoff : α) : Contract α :=
  { dc := some c1, points := [(cutoff, half)], peak := some c1, mono := -1 }

/-- highpass `pole` / `z`: unit Nyquist gain, half power at the cut-off, magnitude increasing -/
def highpassContract (cutoff : α) : Contract α :=
  { nyquist := some c1, points := [(cutoff, half)], peak := some c1, mono := 1 }

/-- `lowpass.pole_exp` (R = e^{-cutoff}), `lowpass.z_exp` (R = e^{cutoff - π}) -/
def lowpassExpContract (R : α) : Contract α :=
  { dc := some c1, poleRadius := some R, peak := some c1, mono := -1 }

/-- `highpass.pole_exp` (R = e^{cutoff - π}), `highpass.z_exp` (R = e^{-cutoff}) -/
def highpassExpContract (R : α) : Contract α :=
  { nyquist := some c1, poleRadius := some R, peak := some c1, mono := 1 }

/-- resonators with the resonant frequency given: unit gain (the peak) there, pole radius
`exp(-bandwidth/2)` -/
def resonatorContract (freq bandwidth : α) : Contract α :=
  { points := [(freq, c1)], poleRadius := some (exp (-(bandwidth / c2))), peak := some c1 }

/-- `freq_*` resonators (`freq` is the pole angle): unit gain (the peak) at the resonant frequency,
which is where `cos ω = k·cos(freq)`; pole radius `exp(-bandwidth/2)`.
`freq_poles_exp`: `k = (1+R²)/(2R)`;  `freq_z_exp`: `k = 2R/(1+R²)`. -/
def resonatorFreqContract (freq bandwidth : α) (zeros : Bool) : Contract α :=
  let R := exp (-(bandwidth / c2))
  let k := if zeros then c2 * R / (c1 + R * R) else (c1 + R * R) / (c2 * R)
  { cosPoints := [(k * cos freq, c1)], poleRadius := some R, peak := some c1 }

/-- a gammatone section: unit gain at the centre frequency (and stability, as for every design);
for `sampled` and `slaney` (`radius = true`) additionally poles `A·e^{±j·freq}` with
`A = exp(-bandwidth)`.  (`klapuri` is built from `resonator.z_exp` / `poles_exp` sections with
bandwidth `2·bandwidth`; the property asks of it stability and unit gain only.) -/
def gammatoneSectionContract (freq bandwidth : α) (radius : Bool) : Contract α :=
  { points := [(freq, c1)], poleRadius := if radius then some (exp (-bandwidth)) else none }

/-! ### the contract of each strategy (what the driver returns as `spec`) -/

def lowpassSpec (st : Strategy) (cutoff : α) : Contract α :=
  match st with
  | .pole => lowpassContract cutoff
  | .z => lowpassContract cutoff
  | .poleExp => lowpassExpContract (exp (-cutoff))
  | .zExp => lowpassExpContract (exp (cutoff - pi))

def highpassSpec (st : Strategy) (cutoff : α) : Contract α :=
  match st with
  | .pole => highpassContract cutoff
  | .z => highpassContract cutoff
  | .poleExp => highpassExpContract (exp (cutoff - pi))
  | .zExp => highpassExpContract (exp (-cutoff))

def resonatorSpec (st : ResStrategy) (freq bandwidth : α) : Contract α :=
  match st with
  | .polesExp => resonatorContract freq bandwidth
  | .zExp => resonatorContract freq bandwidth
  | .freqPolesExp => resonatorFreqContract freq bandwidth false
  | .freqZExp => resonatorFreqContract freq bandwidth true

end generic
end ALV.C13
