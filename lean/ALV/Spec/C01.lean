/-
  C01 — specification in the words of the property.

  * `specTable` : the 35 operator methods a Stream supports — dunder name ↦ base function of the
    `operator` module, reflected?, arity.  Written by hand from the Python data model, NOT from the
    code (the code's table is `ALV/Gen/OpTable.lean`, regenerated from the source).
  * `Py.at p i` : the i-th element of the value of expression `p` = the operator applied to the i-th
    elements of the operands; a non-iterable operand is repeated for every position.
  * `Py.len p`  : where the result ends = the shortest iterable operand (`inf` for scalars).
  * `Py.sort p` : which expressions are meaningful (typing).
  * `Iter.get/len` : the same "pointwise" reading for trees of iterators.
  Mathlib-free; executable.
-/
import ALV.Model.C01
namespace ALV.C01

/-! ## Lengths: a natural number or endless -/

inductive Len where
  | fin (n : Nat)
  | inf
  deriving DecidableEq, Repr

/-- `i < l` -/
def Len.gt : Len → Nat → Bool
  | .fin n, i => decide (i < n)
  | .inf, _ => true

def Len.min : Len → Len → Len
  | .fin a, .fin b => .fin (Min.min a b)
  | .fin a, .inf => .fin a
  | .inf, l => l

def Len.add : Len → Len → Len
  | .fin a, .fin b => .fin (a + b)
  | _, _ => .inf

/-- `a` followed by `b` (`itertools.chain`) -/
def chainAt (la : Len) (ga gb : Nat → Option Term) (i : Nat) : Option Term :=
  match la with
  | .inf => ga i
  | .fin L => if i < L then ga i else gb (i - L)

/-! ## The 35 operator methods -/

structure DunderSpec where
  dname : Name
  base : Name          -- `operator.<base>`
  reflected : Bool     -- reflected: the Stream is the RIGHT operand of the base function
  arity : Nat
  deriving DecidableEq, Repr

def specTable : List DunderSpec := [
  -- arithmetic
  ⟨n!"__add__", n!"add", false, 2⟩,            ⟨n!"__radd__", n!"add", true, 2⟩,
  ⟨n!"__sub__", n!"sub", false, 2⟩,            ⟨n!"__rsub__", n!"sub", true, 2⟩,
  ⟨n!"__mul__", n!"mul", false, 2⟩,            ⟨n!"__rmul__", n!"mul", true, 2⟩,
  ⟨n!"__truediv__", n!"truediv", false, 2⟩,    ⟨n!"__rtruediv__", n!"truediv", true, 2⟩,
  ⟨n!"__floordiv__", n!"floordiv", false, 2⟩,  ⟨n!"__rfloordiv__", n!"floordiv", true, 2⟩,
  ⟨n!"__mod__", n!"mod", false, 2⟩,            ⟨n!"__rmod__", n!"mod", true, 2⟩,
  ⟨n!"__pow__", n!"pow", false, 2⟩,            ⟨n!"__rpow__", n!"pow", true, 2⟩,
  ⟨n!"__matmul__", n!"matmul", false, 2⟩,      ⟨n!"__rmatmul__", n!"matmul", true, 2⟩,
  -- shifts
  ⟨n!"__rshift__", n!"rshift", false, 2⟩,      ⟨n!"__rrshift__", n!"rshift", true, 2⟩,
  ⟨n!"__lshift__", n!"lshift", false, 2⟩,      ⟨n!"__rlshift__", n!"lshift", true, 2⟩,
  -- bitwise
  ⟨n!"__and__", n!"and", false, 2⟩,            ⟨n!"__rand__", n!"and", true, 2⟩,
  ⟨n!"__or__", n!"or", false, 2⟩,              ⟨n!"__ror__", n!"or", true, 2⟩,
  ⟨n!"__xor__", n!"xor", false, 2⟩,            ⟨n!"__rxor__", n!"xor", true, 2⟩,
  -- comparisons (no reflected form)
  ⟨n!"__lt__", n!"lt", false, 2⟩,              ⟨n!"__le__", n!"le", false, 2⟩,
  ⟨n!"__eq__", n!"eq", false, 2⟩,              ⟨n!"__ne__", n!"ne", false, 2⟩,
  ⟨n!"__gt__", n!"gt", false, 2⟩,              ⟨n!"__ge__", n!"ge", false, 2⟩,
  -- unary
  ⟨n!"__pos__", n!"pos", false, 1⟩,            ⟨n!"__neg__", n!"neg", false, 1⟩,
  ⟨n!"__invert__", n!"invert", false, 1⟩ ]

def specLookup (d : Name) : Option DunderSpec := specTable.find? (fun sp => sp.dname == d)

/-- name of the function that combines the elements: `operator.__<base>__` -/
def DunderSpec.fn (sp : DunderSpec) : Name := n!"__" ++ sp.base ++ n!"__"

/-- what the metaclass has to install for a specified dunder -/
def DunderSpec.builder (sp : DunderSpec) : Builder :=
  if sp.arity == 1 then .unary else if sp.reflected then .rbinary else .binary

def DunderSpec.dunder (sp : DunderSpec) : Dunder := ⟨sp.dname, sp.builder, sp.fn⟩

/-! ## The lookup API `OpMethod.get`, in the words of its documentation

  "name is without underscores", reversed operators have their own name (`radd`); a symbol finds its
  operator methods in the order <binary>, <reversed binary>, <unary>; an `operator` function finds the
  plain and the reversed method; `"r"` the reversed ones; `1` / `2` (or `"1"` / `"2"`) by arity. -/

/-- base function ↦ symbol (Python data model, written by hand) -/
def specSymbols : List (Name × Name) := [
  (n!"add", n!"+"), (n!"pos", n!"+"), (n!"sub", n!"-"), (n!"neg", n!"-"), (n!"mul", n!"*"),
  (n!"truediv", n!"/"), (n!"floordiv", n!"//"), (n!"mod", n!"%"), (n!"pow", n!"**"), (n!"matmul", n!"@"),
  (n!"rshift", n!">>"), (n!"lshift", n!"<<"), (n!"invert", n!"~"), (n!"and", n!"&"), (n!"or", n!"|"),
  (n!"xor", n!"^"), (n!"lt", n!"<"), (n!"le", n!"<="), (n!"eq", n!"=="), (n!"ne", n!"!="), (n!"gt", n!">"),
  (n!"ge", n!">=")]

def DunderSpec.symbol (sp : DunderSpec) : Name := (specSymbols.lookup sp.base).getD []

/-- the name without underscores: `add`, `radd`, `pos` -/
def DunderSpec.name (sp : DunderSpec) : Name := (if sp.reflected then n!"r" else []) ++ sp.base

/-- `repr` of the entry -/
def DunderSpec.repr (sp : DunderSpec) : Name :=
  n!"<" ++ sp.name ++ n!" operator method ('" ++ sp.symbol ++ n!"' symbol)>"

/-- the dunders a symbol stands for: binary, reversed binary, unary -/
def specBySymbol (sym : Name) : List Name :=
  ((specTable.filter fun sp => sp.symbol == sym && sp.arity == 2 && !sp.reflected) ++
   (specTable.filter fun sp => sp.symbol == sym && sp.arity == 2 && sp.reflected) ++
   (specTable.filter fun sp => sp.symbol == sym && sp.arity == 1)).map (·.dname)

/-- the dunders an `operator` function stands for: the plain one, then the reversed one -/
def specByFunc (fn : Name) : List Name :=
  ((specTable.filter fun sp => sp.fn == fn && !sp.reflected) ++
   (specTable.filter fun sp => sp.fn == fn && sp.reflected)).map (·.dname)

/-- what a key stands for: the entries filed under it, in insertion order -/
def OpMethod.under (ops : List OpMethod) (k : OpKey) : List OpMethod := ops.filter fun o => o.keysK.contains k

/-! ## Pointwise reading of iterator trees -/

def Iter.len : Iter → Len
  | .list _ xs => .fin xs.length
  | .rep _ => .inf
  | .cycle cur [] => .fin cur.length
  | .cycle _ (_ :: _) => .inf
  | .chain a b => a.len.add b.len
  | .mapc _ _ _ _ a => a.len
  | .map2 _ a b => a.len.min b.len
  | .dead _ => .fin 0

def Iter.get : Iter → Nat → Option Term
  | .list _ xs, i => xs[i]?
  | .rep c, _ => some c
  | .cycle cur all, i =>
    if i < cur.length then cur[i]? else all[(i - cur.length) % all.length]?
  | .chain a b, i => chainAt a.len a.get b.get i
  | .mapc _ f pre post a, i => (a.get i).map fun x => .app f (pre ++ x :: post)
  | .map2 f a b, i =>
    match a.get i, b.get i with
    | some x, some y => some (.app f [x, y])
    | _, _ => none
  | .dead _, _ => none

/-! ## Programs -/

inductive Sort' where
  | scalar | ignored | iter | stream
  deriving DecidableEq, Repr

def Sort'.isIterable : Sort' → Bool
  | .iter | .stream => true
  | _ => false

/-- typing of Python-level expressions (`none` = raises / not a Stream expression) -/
def Py.sort : Py → Option Sort'
  | .scalar _ => some .scalar
  | .ignored _ => some .ignored
  | .iterable _ _ => some .iter
  | .stream1 a => a.sort.map fun _ => .stream
  | .stream2 a b =>
    match a.sort, b.sort with
    | some x, some y => if x.isIterable == y.isIterable then some .stream else none
    | _, _ => none
  | .un d s =>
    match s.sort, specLookup d with
    | some .stream, some sp => if sp.arity == 1 then some .stream else none
    | _, _ => none
  | .bin d s o =>
    match s.sort, specLookup d, o.sort with
    | some .stream, some sp, some so =>
      if sp.arity == 2 && so != .ignored then some .stream else none
    | _, _, _ => none
  | .meth _ _ s =>
    match s.sort with
    | some .stream => some .stream
    | _ => none
  | .append s o =>
    match s.sort, o.sort with
    | some .stream, some _ => some .stream
    | _, _ => none

/-- is the value an `Iterable`?  (everything except the two kinds of scalars) -/
def Py.isIterable : Py → Bool
  | .scalar _ => false
  | .ignored _ => false
  | _ => true

/-- where the value of the expression ends -/
def Py.len : Py → Len
  | .scalar _ => .inf
  | .ignored _ => .inf
  | .iterable _ xs => .fin xs.length
  | .stream1 a => a.len
  | .stream2 a b => a.len.add b.len        -- two iterables chained; two scalars (each `inf`): endless
  | .un _ s => s.len
  | .bin _ s o => s.len.min o.len           -- the shortest iterable operand
  | .meth _ _ s => s.len
  | .append s o => s.len.add o.len

/-- the i-th element of the value of the expression -/
def Py.at : Py → Nat → Option Term
  | .scalar c, _ => some c                  -- non-iterable operands are repeated for every position
  | .ignored c, _ => some c
  | .iterable _ xs, i => xs[i]?
  | .stream1 a, i => a.at i
  | .stream2 a b, i =>
    if a.isIterable then chainAt a.len a.at b.at i      -- Stream(xs, ys): one after the other
    else if i % 2 = 0 then a.at i else b.at i           -- Stream(c0, c1): periodic
  | .un d s, i =>
    match specLookup d, s.at i with
    | some sp, some x => some (.app sp.fn [x])
    | _, _ => none
  | .bin d s o, i =>
    match specLookup d, s.at i, o.at i with
    | some sp, some x, some y => some (.app sp.fn (if sp.reflected then [y, x] else [x, y]))
    | _, _, _ => none
  | .meth _ l s, i => (s.at i).map fun x => .app l [x]
  | .append s o, i =>
    chainAt s.len s.at o.at i

end ALV.C01

/-! ## Broadcast functions (`elementwise`): what the property says -/

namespace ALV.C01

inductive OutKind where
  | value                -- a single value (scalar in, scalar out)
  | generator            -- a lazy generator
  | stream               -- a (lazy) Stream
  | same (k : CKind)     -- a container of the same kind as the argument
  | keyError
  deriving DecidableEq, Repr

/-- **the property**: scalar in → scalar out; lazy inputs stay lazy; a Stream gives a Stream;
    any other container comes back as the same kind of container. -/
def bcastKind : CKind → OutKind
  | .scalar | .str => .value
  | .generator | .range | .enumerate | .zip | .zipLongest | .map | .filter => .generator
  | .stream | .streamSub => .stream
  | .list => .same .list
  | .tuple => .same .tuple
  | .set => .same .set
  | .frozenset => .same .frozenset
  | .deque => .same .deque
  | .sub b c => .same (.sub b c)          -- the argument's own class, not its builtin base

/-- the builtin class an instance of a subclass of this base would be DOWNCAST to (what the result must not be) -/
def CBase.builtin : CBase → CKind
  | .list => .list | .tuple => .tuple | .set => .set | .frozenset => .frozenset | .deque => .deque | .sequence => .list

def BOut.kind : BOut → OutKind
  | .value _ => .value
  | .gen _ => .generator
  | .stream _ => .stream
  | .cast k _ _ => .same k
  | .keyError => .keyError

/-- the constructor of `BArg` fits the kind -/
def BArg.wf : BArg → Bool
  | .obj k _ => !k.isIterable || k.isStr
  | .sized k _ _ => k.isIterable && !k.isStr && !k.isSomeGen && !k.isStream
  | .lazy k _ => k.isSomeGen || k.isStream

/-- position of the broadcast argument among the positional arguments (decorator default: 0) -/
def ECall.slot (c : ECall) : Option Nat :=
  if c.dname == [] && c.dpos.isNone then some 0 else c.dpos

/-- is the broadcast argument one of the positional arguments of this call? -/
def ECall.positional (c : ECall) : Bool :=
  match c.slot with
  | some p => decide (p < c.args.length)
  | none => false

/-- does the call supply the broadcast argument at all? -/
def ECall.found (c : ECall) : Bool :=
  c.positional || c.kwargs.any fun kv => kv.1 == c.dname

def kwReplace (name : Name) (x : Term) : List (Name × Term) → List (Name × Term)
  | [] => []
  | (k, v) :: r => if k == name then (k, x) :: r else (k, v) :: kwReplace name x r

/-- the function applied with `x` in the place of the broadcast argument, every other argument unchanged -/
def ECall.callWith (c : ECall) (x : Term) : Term :=
  if c.positional then .app c.f (c.args.set (c.slot.getD 0) x ++ kwFlat c.kwargs)
  else .app c.f (c.args ++ kwFlat (kwReplace c.dname x c.kwargs))

end ALV.C01
