/-
  C05 — specification of nested CascadeFilter / ParallelFilter structures, in the words of the
  property: "CascadeFilter / ParallelFilter of the parts equal the product / sum, both in output
  and in numerator-denominator polynomials" — by recursion on the structure, for any depth, any
  mixture of kinds and 0 / 1 / many parts (the empty product is 1, the empty sum is 0).
  Executable, Mathlib-free.
-/
import ALV.Model.C05List
import ALV.Spec.C05
namespace ALV.C05
open ALV.C07
variable {α : Type} [Add α] [Mul α] [Sub α] [Neg α] [Div α] [OfNat α 0] [OfNat α 1] [DecidableEq α]

mutual
/-- the rational function a structure denotes (textbook pairs, `Spec/C05`): a cascade is the product
of what its parts denote, a parallel the sum; `none` when a leaf has the zero denominator -/
def FL.rval : FL α → Option (ZF α)
  | .leaf f => if canon f.den = [] then none else some (rOf f)
  | .num c => some (rScalar c)
  | .other _ => none
  | .node k ps => if k.par then ps.rSumV else ps.rProdV
def FLs.rProdV : FLs α → Option (ZF α)
  | .nil => some (rScalar 1)
  | .cons p t => do
      let a ← p.rval
      let b ← t.rProdV
      pure (rMul a b)
def FLs.rSumV : FLs α → Option (ZF α)
  | .nil => some (rScalar 0)
  | .cons p t => do
      let a ← p.rval
      let b ← t.rSumV
      pure (rAdd a b)
end

mutual
/-- the output a structure of causal filters gives: a cascade feeds each part with the output of
the previous one, a parallel adds the outputs of its parts to the same input -/
def FL.applyS (env : Nat → α → α) : FL α → List α → List α
  | .leaf f, xs => apply f xs
  | .num c, xs => scaleSig c xs
  | .other i, xs => xs.map (env i)
  | .node k ps, xs => if k.par then ps.sumS env xs (xs.map fun _ => 0) else ps.compS env xs
def FLs.compS (env : Nat → α → α) : FLs α → List α → List α
  | .nil, xs => xs
  | .cons p t, xs => t.compS env (p.applyS env xs)
def FLs.sumS (env : Nat → α → α) : FLs α → List α → List α → List α
  | .nil, _, acc => acc
  | .cons p t, xs, acc => t.sumS env xs (addSig acc (p.applyS env xs))
end

mutual
/-- every ZFilter object in the structure satisfies `P` -/
def FL.All (P : ZF α → Prop) : FL α → Prop
  | .leaf f => P f
  | .num _ => True
  | .other _ => True
  | .node _ ps => ps.All P
def FLs.All (P : ZF α → Prop) : FLs α → Prop
  | .nil => True
  | .cons p t => p.All P ∧ t.All P
end

mutual
/-- no filter list in the structure is empty (`numpoly` of an empty list is a TypeError of `reduce`)
and every part is linear (`numpoly` of a list with another callable is an AttributeError) -/
def FL.Full : FL α → Prop
  | .node _ ps => ps ≠ .nil ∧ ps.Full
  | .other _ => False
  | _ => True
def FLs.Full : FLs α → Prop
  | .nil => True
  | .cons p t => p.Full ∧ t.Full
end

end ALV.C05
