/-
  C04 — what the property says about a history (executable, Mathlib-free).

  The property speaks about ONE call: "calling a filter with numerator b, denominator a on input
  x yields one output per input with … y[-k] the k-th item of the GIVEN memory".  For a lazily
  consumed result this fixes what every later request must answer:

    * the coefficients are those of the constructor arguments as they were when the filter object
      was built, the memory is the contents the caller's list had AT THE CALL (`SStrm.mem`),
      the zero value the one given at the call;
    * the input is what the input iterator has delivered (`SStrm.seen`), one item per output;
    * the outputs obtained so far are `specCall` (the difference equation) of exactly that —
      whatever happened in between to the caller's objects, to other streams of the same filter,
      or to other filters.

  So a specification stream is nothing but the snapshot taken at the call and the list of items
  delivered so far; a request for more outputs is answered by solving the difference equation on
  the longer input and dropping what was already given.
-/
import ALV.Model.C04Hist
import ALV.Spec.C04
namespace ALV.C04
variable {α : Type}

/-- a filter object, for the property: the constructor arguments as they were -/
structure SFilt (α : Type) where
  num : List (Int × α)
  den : List (Int × α)

/-- a live stream, for the property: what was given at the call and what was delivered since -/
structure SStrm (α : Type) where
  num : List (Int × α)
  den : List (Int × α)
  mem : Mem α
  zero : α
  seen : List α

section spec
variable [Add α] [Mul α] [Sub α] [Div α] [OfNat α 0] [DecidableEq α]

def specImpl : Impl α (SFilt α) (SStrm α) where
  -- the constructor refuses a denominator without any non-zero coefficient
  build n d := match listMin (keysNZ d) with
    | none => .error .valueError
    | some _ => .ok ⟨n, d⟩
  -- the call refuses exactly when the contract of one call does (negative delay ⇒ ValueError)
  call o mem zero := match specCall o.num o.den mem zero [] with
    | .error e => .error e
    | .ok _ => .ok ⟨o.num, o.den, mem, zero, []⟩
  -- more outputs: the difference equation on everything delivered, minus what was already given
  feed s xs :=
    (match specCall s.num s.den s.mem s.zero (s.seen ++ xs) with
      | .ok ys => ys.drop s.seen.length
      | .error _ => [],
     { s with seen := s.seen ++ xs })

/-- the specification of a history that starts with nothing -/
def histSpec (ops : List (HOp α)) : List (HObs α) := hrun specImpl HState.empty ops

end spec

end ALV.C04
