/-
  C12 — specification in the words of the property.

    H(b, a, w)  = (Σ_k b_k w^k) / (Σ_k a_k w^k)      with w = e^{-jω};  nan where the denominator vanishes
    cascade     = product of the members' responses,  parallel = sum
    dft(x, ω)   = Σ_n x_n (e^{-jω})^n  ( / N when normalised )
    FIR filtering = convolution  y_n = Σ_{k ≤ n} b_k x_{n-k}
-/
import ALV.Model.C12
namespace ALV.C12
section generic
variable {α : Type} [Add α] [Mul α] [Sub α] [Neg α] [Div α] [OfNat α 0] [OfNat α 1]

/-- `Σ_k c_k w^(i+k)` over the dense coefficient list -/
def evalFrom (w : α) (i : Nat) : List α → α
  | [] => 0
  | c :: cs => c * pw w i + evalFrom w (i + 1) cs

/-- the transfer-function polynomial `Σ_k c_k w^k` -/
def evalDirect (c : List α) (w : α) : α := evalFrom w 0 c

/-- `H(w) = Σ b_k w^k / Σ a_k w^k`, `none` (nan) where the denominator vanishes -/
def Hspec [DecidableEq α] (b a : List α) (w : α) : Option α :=
  if evalDirect a w = 0 then none else some (evalDirect b w / evalDirect a w)

/-- the observable of `ZFilter(b, a).freq_response`: a denominator list without any non-zero
    entry is not a filter (constructor raises) -/
def respSpec [DecidableEq α] (b a : List α) (w : α) : Resp α :=
  if a.all (fun c => decide (c = 0)) then .valueError
  else match Hspec b a w with
    | none => .nan
    | some v => .val v

/-- `Σ coeff · w^delay` over the entries of a `{delay: coeff}` dict (delays in ℤ) -/
def evalTerms (ts : Terms α) (w : α) : α :=
  match ts with
  | [] => 0
  | t :: ts => t.2 * zpw w t.1 + evalTerms ts w

def HspecTerms [DecidableEq α] (num den : Terms α) (w : α) : Option α :=
  if evalTerms den w = 0 then none else some (evalTerms num w / evalTerms den w)

def respSpecTerms [DecidableEq α] (num den : Terms α) (w : α) : Resp α :=
  if den.all (fun t => decide (t.2 = 0)) then .valueError
  else match HspecTerms num den w with
    | none => .nan
    | some v => .val v

/-- a dense coefficient list seen as the `{delay: coefficient}` dict with every entry (zeros
    included), delays `i, i+1, …` — `ZFilter(b, a)` and `ZFilter(dict(enumerate(b)), dict(enumerate(a)))`
    are the same filter -/
def denseTerms (i : Nat) : List α → Terms α
  | [] => []
  | c :: cs => ((i : Int), c) :: denseTerms (i + 1) cs

def prodResp : List (Resp α) → Resp α
  | [] => .typeError
  | [r] => r
  | r :: rs => Resp.combine (· * ·) r (prodResp rs)

def sumResp : List (Resp α) → Resp α
  | [] => .typeError
  | [r] => r
  | r :: rs => Resp.combine (· + ·) r (sumResp rs)

def cascadeSpec [DecidableEq α] (bank : List (List α × List α)) (w : α) : Resp α :=
  prodResp (bank.map fun f => respSpec f.1 f.2 w)

def parallelSpec [DecidableEq α] (bank : List (List α × List α)) (w : α) : Resp α :=
  sumResp (bank.map fun f => respSpec f.1 f.2 w)

mutual
/-- nested banks: product over a cascade, sum over a parallel bank, transfer function at a leaf -/
def Bank.spec [DecidableEq α] (w : α) : Bank α → Resp α
  | .filt b a => respSpec b a w
  | .cascade ms => prodResp (Bank.specList w ms)
  | .parallel ms => sumResp (Bank.specList w ms)
def Bank.specList [DecidableEq α] (w : α) : List (Bank α) → List (Resp α)
  | [] => []
  | m :: ms => Bank.spec w m :: Bank.specList w ms
end

/-- polynomial product of coefficient lists (the cascade's numerator / denominator) -/
def scaleL (c : α) (q : List α) : List α := q.map (c * ·)

def addL : List α → List α → List α
  | [], q => q
  | p, [] => p
  | x :: p, y :: q => (x + y) :: addL p q

def convL : List α → List α → List α
  | [], _ => []
  | c :: p, q => addL (scaleL c q) (0 :: convL p q)

/-- the defining sum of the DFT at the point `w = e^{-jω}` -/
def dftSpec (w : α) (blk : List α) (normalize : Bool) : α :=
  if normalize then evalDirect blk w / natC blk.length else evalDirect blk w

/-- convolution: output sample `n` of the FIR filter `b` on input `xs` -/
def convAt (b xs : List α) (n : Nat) : α :=
  evalFromConv b xs n 0
where
  evalFromConv : List α → List α → Nat → Nat → α
  | [], _, _, _ => 0
  | c :: cs, xs, n, k => (if k ≤ n then c * xs.getD (n - k) 0 else 0) + evalFromConv cs xs n (k + 1)

def firSpec (b xs : List α) : List α := (List.range xs.length).map (convAt b xs)


/-- A history of list operations and uses of mutable banks, in the words of the property: every
    use answers for the bank AS IT IS NOW — product over each cascade, sum over each parallel bank
    of the transfer functions of the filters that are in the lists at that moment (`Bank.spec` of
    the snapshot); calling the bank is the convolution with each leaf, composed / added. -/
def histSpec [DecidableEq α] {φ : Type} (pt : φ → α) (heap : List (Obj α)) (ops : List (HOp φ α)) :
    List (Obs α) := runH pt (fun w t => Bank.spec w t) firSpec heap ops

end generic
end ALV.C12
