/-
  C10 — specification, part 2 (executable, Mathlib-free): the singular covariance system, and the
  order a call works with for each spelling of its `order` / `max_lag` argument.
-/
import ALV.Model.C10Call
import ALV.Spec.C10
namespace ALV.C10
variable {α : Type} [Add α] [Mul α] [Sub α] [Neg α] [Div α] [OfNat α 0] [OfNat α 1]

/-- output of the FIR `b` (order ≤ p) at the k-th sample of the covariance window n = p..N−1:
    `Σ_{j ≤ p} b_j · x[p+k−j]` -/
def winOut (b blk : List α) (p k : Nat) : α :=
  sumL ((List.range (p + 1)).map fun j => coef b j * coef blk (p + k - j))

/-- the covariance system of order p is SINGULAR: a non-zero combination `b` of the delays 1..p
    (no constant term) vanishes on the whole window n = p..N−1, i.e. the delayed copies
    x[n−1], …, x[n−p] of the block are linearly dependent there -/
def CovDependent (blk : List α) (p : Nat) (b : List α) : Prop :=
  coef b 0 = 0 ∧ b.length ≤ p + 1 ∧ (∃ j, coef b j ≠ 0) ∧ ∀ k, k < blk.length - p → winOut b blk p k = 0

/-- the order the documentation assigns to a call: the int given (a negative one counts as 0: no
    pass is run), `len − 1` when the argument is omitted / None -/
def callOrder (len : Nat) : OrdArg → Nat
  | .omitted | .none => len - 1
  | .int i => i.toNat
  | .real _ _ => 0

end ALV.C10
