/-
  C02 — specification in the words of the property: how many source items the
  first `k` outputs of a stage may (and do) consume.
    sample-wise stages                       k
    j-th block                               (j-1)*hop + size
    overlap-add                              ceil(k/hop) blocks
    STFT wrapper                             (ceil(k/hop)-1)*hop + size samples
    skip n                                   k + n            (nothing before the first demand)
    zero_pad / chain / append after `left`   k - left
    islice start step                        start + (k-1)*step + 1
    resample                                 the initial take, then one item per unit of position
    resample, step stream                    k - 1 step values (the step is read after the yield)
    Streamix event                           k - (outputs before the event starts)
    attack(a, d, <iterable>)                 1 for the len_a+len_d line samples, then 1 + (k - len_a - len_d)
    chains                                   composition of the above
  `needOf d 0 = 0` for every stage: construction reads nothing.
-/
import ALV.Model.C02
import ALV.Model.C02Stop
import ALV.Model.C02Two
namespace ALV.C02

def ceilDiv (k hop : Nat) : Nat := (k + hop - 1) / hop

/-- index (1-based count of items) of the `k`-th passing item of a pass pattern that is
    `true` beyond its end -/
def nthPass : List Bool → Nat → Nat
  | _, 0 => 0
  | [], k + 1 => k + 1
  | true :: pat, k + 1 => nthPass pat k + 1
  | false :: pat, k + 1 => nthPass pat (k + 1) + 1

def needBlocks (size hop k : Nat) : Nat := if k = 0 then 0 else (k - 1) * hop + size

/-- `resample`: the initial `take` of `order/2 + 1` items, then output `k` has advanced the
    position by `(k-1)*step` from `floor((order+1)/2)`; one more item per unit above threshold -/
def needResample (order : Nat) (step : Rat) (k : Nat) : Nat :=
  if k = 0 then 0
  else
    let frac : Rat := (order + 1 : Nat) / 2 - ((order + 1) / 2 : Nat)
    rsPrefill order + (((k - 1 : Nat) : Rat) * step - frac).ceil.toNat

def sumRat : List Rat → Rat
  | [] => 0
  | x :: xs => x + sumRat xs

/-- `resample` with a time-varying step: output `k` sits at position `sum of the first k-1 step
    values`; beyond the given step values the step is taken as 1 (one item per output) -/
def needResampleTV (order : Nat) (steps : List Rat) (k : Nat) : Nat :=
  if k = 0 then 0
  else
    let frac : Rat := (order + 1 : Nat) / 2 - ((order + 1) / 2 : Nat)
    rsPrefill order + (sumRat (steps.take (k - 1)) - frac).ceil.toNat + (k - 1 - steps.length)

/-- step values pulled by `resample` when `k` outputs have been delivered: the step that leads to
    output `k+1` is read only when that output is demanded -/
def auxNeedLag1 (k : Nat) : Nat := k - 1

/-- items pulled from the data of a Streamix event with (absolute) time `delta` -/
def auxNeedEvent (delta : Rat) (k : Nat) : Nat := k - (delta - 1 / 2).ceil.toNat

/-- outputs of a Streamix before an event with time `delta` starts -/
def smixStartSpec (delta : Rat) : Nat := (delta - 1 / 2).ceil.toNat

/-- `attack(a, d, <iterable sustain>)`, `n = len_a + len_d`: nothing before the first demand, ONE
    sustain item (the decay target) for the `n` line samples, then one item per output -/
def needAttack (n k : Nat) : Nat := if k = 0 then 0 else 1 + (k - n)

def needOf : Desc → Nat → Nat
  | .sample, k | .scan, k | .first, k | .zcross _, k | .par _, k | .cascade _, k => k
  | .filt pat, k => nthPass pat k
  | .skip n, k => if k = 0 then 0 else k + n
  | .pad pre _, k => k - pre
  | .islice start step, k => if k = 0 then 0 else start + (k - 1) * step + 1
  | .blocks size hop, k => needBlocks size hop k
  | .ola _ hop, k => ceilDiv k hop
  | .stft size hop true, k => needBlocks size hop (ceilDiv k hop)
  | .stft size hop false, k => needBlocks size hop k
  | .resample order step, k => needResample order step k
  | .resampleTV order steps, k => needResampleTV order steps k
  | .smix delta, k => k - smixStartSpec delta
  | .attack n, k => needAttack n k

def needOfChain : List Desc → Nat → Nat
  | [], k => k
  | d :: ds, k => needOf d (needOfChain ds k)

/-- parameters for which the closed forms are claimed (the quantifier of the property) -/
def Desc.Valid : Desc → Prop
  | .blocks size hop => 0 < size ∧ 0 < hop
  | .ola size hop => 0 < hop ∧ hop ≤ size
  | .stft size hop _ => 0 < hop ∧ hop ≤ size
  | .islice _ step => 0 < step
  | .resample _ step => 0 < step
  | .resampleTV _ steps => ∀ s ∈ steps, 0 ≤ s
  | .smix delta => 0 ≤ delta
  | _ => True

instance : DecidablePred Desc.Valid := fun d => by
  cases d <;> unfold Desc.Valid <;> infer_instance

/-! ### chains with stopping stages: items pulled after `k` REQUESTS (successful or not) on a
    source that is long enough -/

/-- `limit N`: `min k N` — never more, also when asked past the end -/
def needLimit (N k : Nat) : Nat := min k N

/-- `takewhile` passing the first `n` items: the failing item is the last one read -/
def needTakewhile (n k : Nat) : Nat := min k (n + 1)

/-- `islice(start, stop, step)`: output `k` is item `start + (k-1)*step`; never past `max start stop` -/
def needIsliceStop (start stop step k : Nat) : Nat :=
  if k = 0 then 0 else min (start + (k - 1) * step + 1) (max start stop)

def needOfXChain : List XDesc → Nat → Nat
  | [], k => k
  | .plain d :: ds, k => needOf d (needOfXChain ds k)
  | .limit N :: ds, k => needLimit N (needOfXChain ds k)
  | .takewhile n :: ds, k => needTakewhile n (needOfXChain ds k)
  | .islice start stop step :: ds, k => needIsliceStop start stop step (needOfXChain ds k)

def XDesc.Valid : XDesc → Prop
  | .plain d => d.Valid
  | .islice _ _ step => 0 < step
  | _ => True

instance : DecidablePred XDesc.Valid := fun d => by
  cases d <;> unfold XDesc.Valid <;> infer_instance

/-! ### two counted sources, one of which ends (after request `k ≥ 1`) -/

/-- lock-step `map` / `zip` over sources of `na` and `nb` items: the first source is read at EVERY
    request while it lasts (`min k na` — one more than the partner when the partner ends first, and
    again at every request past the end), the second only when the first delivered -/
def needMapzip (na nb k : Nat) : Bool × Nat × Nat :=
  (decide (k ≤ na ∧ k ≤ nb), min k na, min k (min na nb))

/-- `chain(a, b)` / `append`: the tail is not touched while the head lasts, then one item per output -/
def needChain2 (na nb k : Nat) : Bool × Nat × Nat :=
  (decide (k ≤ na + nb), min k na, min (k - na) nb)

/-- `izip_longest(a, b)`: each source once per output while it lasts -/
def needLongest (na nb k : Nat) : Bool × Nat × Nat :=
  (decide (k ≤ max na nb), min k na, min k nb)

end ALV.C02
