/-
  C02 — closed forms for stages that get new sources / consumers while they are consumed.
    mixer event, absolute time T, handed over when `a` outputs had been taken:
        starts at request  max a ⌈T - 1/2⌉ ;  after `k` outputs  min len (k - start)  items are read
        a request delivers iff the generator has not ended and (keep or some event has `k < start + len`)
    append: with `d` outputs delivered, source `j` has  min len_j (d - Σ_{i<j} len_i)  items read
    a stage called again: source `c` has  min len_c (requests made on consumer c)  items read
    tee hub: the source has  max (positions of the consumers)  items read
    control: a request shows the number of assignments made before it
-/
import ALV.Model.C02Hist
import ALV.Spec.C02
namespace ALV.C02

def mixStartSpec (a : Nat) (T : Rat) : Nat := max a (smixStartSpec T)

def Mix.specReads (s : Mix) : List Nat := s.evs.map fun e => min e.len (s.now - e.start)

def Mix.specOk (s : Mix) : Bool := !s.ended && (s.keep || s.evs.any fun e => decide (s.now < e.start + e.len))

def seqSpec : Nat → List Nat → List Nat
  | _, [] => []
  | d, n :: ns => min n d :: seqSpec (d - n) ns

def seqSum : List Nat → Nat
  | [] => 0
  | n :: ns => n + seqSum ns

def SeqSt.specReads (s : SeqSt) : List Nat := seqSpec s.outs (s.srcs.map (·.len))

def fanSpec (s : List FSrc) : List Nat := s.map fun e => min e.len e.asks

def Hub.specReads (s : Hub) : Nat := s.pos.foldl max 0

/-- the spec side of a trace: the machine's bookkeeping (`now`, `start`, `len`, positions, requests made)
    with the closed forms in place of the counters and of the delivery test -/
def hspecRun {σ : Type} (step : σ → HEv → σ × HObs) (sp : σ → HEv → HObs) : σ → List HEv → List HObs
  | _, [] => []
  | s, e :: es => sp s e :: hspecRun step sp (step s e).1 es

def mixSpecObs (s : Mix) (e : HEv) : HObs :=
  ⟨match e with | .ask _ => s.specOk | _ => true, (mixStep s e).1.specReads⟩

def seqSpecObs (s : SeqSt) (e : HEv) : HObs :=
  ⟨match e with | .ask _ => decide (s.outs < seqSum (s.srcs.map (·.len))) | _ => true, (seqStep s e).1.specReads⟩

def fanSpecObs (s : List FSrc) (e : HEv) : HObs :=
  ⟨(fanStep s e).2.ok, fanSpec (fanStep s e).1⟩

def hubSpecObs (s : Hub) (e : HEv) : HObs :=
  ⟨(hubStep s e).2.ok, [(hubStep s e).1.specReads]⟩

/-- control: a request shows the number of assignments made before it -/
def ctlSpec : Nat → List HEv → List HObs
  | _, [] => []
  | n, .attach _ _ :: es => ⟨true, []⟩ :: ctlSpec (n + 1) es
  | n, .fork _ :: es => ⟨true, []⟩ :: ctlSpec n es
  | n, .ask _ :: es => ⟨true, [n]⟩ :: ctlSpec n es

end ALV.C02
