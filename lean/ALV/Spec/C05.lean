/-
  C05 — specification in the words of the property (executable, Mathlib-free).

  "As rational functions the operators obey the field laws, f(g) substitutes g for z":
  a filter denotes the rational function  num / den  over the Laurent polynomials in z⁻¹.
  Here that field of fractions is written down in the textbook way on pairs of canonical
  Laurent polynomials (C07's coefficient-wise `sAdd`, `sMul`, …):

      a/b + c/d = (ad + cb)/(bd)     a/b · c/d = ac/(bd)     (a/b)⁻¹ = b/a  (a ≠ 0)
      (a/b)^n = a^n / b^n            f(g) = Σ num_k g^(-k) / Σ den_k g^(-k)

  and two pairs denote the same rational function iff they agree after cross multiplication
  (`rEquiv`).  No shortcut, no normalisation, no dictionary order.

  "(f+g)(x) = f(x)+g(x), … , z**-k delays by k, Cascade / Parallel equal product / sum":
  `apply f x` is C04's difference equation (`fspec`) with zero memory on the dense coefficient
  lists; the signal operations are the plain list operations below.
-/
import ALV.Model.C05
import ALV.Spec.C07
import ALV.Spec.C04
namespace ALV.C05
open ALV.C07
variable {α : Type} [Add α] [Mul α] [Sub α] [Neg α] [Div α] [OfNat α 0] [OfNat α 1] [DecidableEq α]

/-! ### the field of rational functions, on pairs (numerator, denominator) -/

/-- the pair that a filter object denotes, in canonical form -/
def rOf (f : ZF α) : ZF α := ⟨canon f.num, canon f.den⟩

/-- a number as a rational function -/
def rScalar (c : α) : ZF α := ⟨sConst c, sConst 1⟩

/-- the delay `z⁻¹` is the variable of the polynomials; `z` itself is its inverse -/
def rZ : ZF α := ⟨canon [(-1, 1)], sConst 1⟩

def rNeg (f : ZF α) : ZF α := ⟨sNeg f.num, f.den⟩
def rAdd (f g : ZF α) : ZF α := ⟨sAdd (sMul f.num g.den) (sMul g.num f.den), sMul f.den g.den⟩
def rSub (f g : ZF α) : ZF α := ⟨sSub (sMul f.num g.den) (sMul g.num f.den), sMul f.den g.den⟩
def rMul (f g : ZF α) : ZF α := ⟨sMul f.num g.num, sMul f.den g.den⟩

/-- the inverse exists unless the numerator is the zero polynomial -/
def rInv (f : ZF α) : Option (ZF α) := if canon f.num = [] then none else some ⟨f.den, f.num⟩
def rDiv (f g : ZF α) : Option (ZF α) := (rInv g).map (rMul f)

def rPowN (f : ZF α) (n : Nat) : ZF α := ⟨sPow f.num n, sPow f.den n⟩
/-- integer powers: a negative power is the positive power of the inverse -/
def rPow (f : ZF α) (n : Int) : Option (ZF α) :=
  if 0 ≤ n then some (rPowN f n.toNat) else (rInv f).map (fun r => rPowN r (-n).toNat)

/-- `Σ_k c_k · g^(-k)` (the polynomial variable is `z⁻¹`) -/
def rEvalPoly (p : MPoly α) (g : ZF α) : Option (ZF α) :=
  (canon p).foldr (fun kv acc => do
    let s ← acc
    let gk ← rPow g (-kv.1)
    pure (rAdd (rMul (rScalar kv.2) gk) s)) (some (rScalar 0))

/-- substitution of `g` for `z` -/
def rSubst (f g : ZF α) : Option (ZF α) := do
  let n ← rEvalPoly f.num g
  let d ← rEvalPoly f.den g
  rDiv n d

/-- the two pairs denote the same rational function: `num · den' = num' · den` -/
def rEquiv (f g : ZF α) : Bool := sEq (sMul f.num g.den) (sMul g.num f.den)

/-- lowest power with a non-zero coefficient (of a canonical, ascending polynomial) -/
def lowKey : MPoly α → Option Int
  | [] => none
  | (k, _) :: _ => some k

/-- the same rational function written so that the denominator starts at delay 0
(numerator and denominator divided by the same power of `z⁻¹`); `none` for denominator 0 -/
def rNorm (f : ZF α) : Option (ZF α) :=
  match lowKey (canon f.den) with
  | none => none
  | some p => some ⟨(canon f.num).map (fun kv => (kv.1 - p, kv.2)), (canon f.den).map (fun kv => (kv.1 - p, kv.2))⟩

/-- causal: no negative delay left in the numerator once the denominator starts at delay 0 -/
def rCausal (f : ZF α) : Bool :=
  match rNorm f with
  | none => false
  | some g => isPolynomial g.num

/-! ### signals -/

/-- the response of a causal filter to the input `xs`, zero initial conditions:
`a0·y[n] = Σ_k b_k x[n-k] − Σ_{k≥1} a_k y[n-k]` (C04's `fspec`) -/
def apply (f : ZF α) (xs : List α) : List α :=
  let a := C04.dense f.den
  C04.fspec (C04.dense f.num) a.tail (C04.coefAt f.den 0) 0 (List.replicate a.tail.length 0) [] xs

/-- `f` applied `n` times -/
def applyN (f : ZF α) : Nat → List α → List α
  | 0, xs => xs
  | n + 1, xs => apply f (applyN f n xs)

/-- delay by `k` samples (same length as the input) -/
def delay (k : Nat) (xs : List α) : List α := (List.replicate k 0 ++ xs).take xs.length

def scaleSig (c : α) (xs : List α) : List α := xs.map (c * ·)
def subSig (a b : List α) : List α := List.zipWith (· - ·) a b

/-- cascade = one filter after the other -/
def cascadeApply (fs : List (ZF α)) (xs : List α) : List α := fs.foldl (fun data f => apply f data) xs

/-- parallel = the sum of the individual responses -/
def parallelApply (fs : List (ZF α)) (xs : List α) : List α :=
  fs.foldl (fun acc f => addSig acc (apply f xs)) (xs.map fun _ => 0)

/-- "the product of the parts": `reduce(operator.mul, filters)` with the filter operator `*`
(the sum of the parts, `reduce(operator.add, filters)`, is `sumFilters` of the model, which
`ParallelFilter.numpoly` itself uses) -/
def prodFilters : List (ZF α) → Except PyErr (ZF α)
  | [] => .error .type
  | f :: t => t.foldlM mul f

/-- product / sum of the parts as rational functions -/
def rProd (fs : List (ZF α)) : ZF α := fs.foldl rMul (rScalar 1)
def rSum (fs : List (ZF α)) : ZF α := fs.foldl rAdd (rScalar 0)

/-! ### expression trees -/

/-- expression trees over filters: literals, numbers, `+ − * /`, unary minus / plus, integer powers,
multiplication / division by a number, and substitution into a literal filter -/
inductive Expr (α : Type) where
  | lit (f : ZF α)
  | scalar (c : α)
  | neg (e : Expr α)
  | pos (e : Expr α)
  | add (a b : Expr α)
  | sub (a b : Expr α)
  | mul (a b : Expr α)
  | div (a b : Expr α)
  | pow (e : Expr α) (n : Int)
  | muls (e : Expr α) (c : α)
  | divs (e : Expr α) (c : α)
  | subst (f : ZF α) (e : Expr α)

/-- evaluation with the operators as coded -/
def Expr.run : Expr α → Except PyErr (ZF α)
  | .lit f => .ok f
  | .scalar c => ofScalar c
  | .neg e => do let x ← e.run; C05.neg x
  | .pos e => do let x ← e.run; C05.pos x
  | .add a b => do let x ← a.run; let y ← b.run; C05.add x y
  | .sub a b => do let x ← a.run; let y ← b.run; C05.sub x y
  | .mul a b => do let x ← a.run; let y ← b.run; C05.mul x y
  | .div a b => do let x ← a.run; let y ← b.run; truediv x y
  | .pow e n => do let x ← e.run; C05.pow x n
  | .muls e c => do let x ← e.run; mulScalar x c
  | .divs e c => do let x ← e.run; divScalar x c
  | .subst f e => do let y ← e.run; C05.subst f y

/-- the rational function the tree denotes, in the textbook field of fractions; `none` where a
division by the zero function occurs -/
def Expr.value : Expr α → Option (ZF α)
  | .lit f => if canon f.den = [] then none else some (rOf f)
  | .scalar c => some (rScalar c)
  | .neg e => e.value.map rNeg
  | .pos e => e.value
  | .add a b => do let x ← a.value; let y ← b.value; pure (rAdd x y)
  | .sub a b => do let x ← a.value; let y ← b.value; pure (rSub x y)
  | .mul a b => do let x ← a.value; let y ← b.value; pure (rMul x y)
  | .div a b => do let x ← a.value; let y ← b.value; rDiv x y
  | .pow e n => do let x ← e.value; rPow x n
  | .muls e c => do let x ← e.value; pure (rMul x (rScalar c))
  | .divs e c => do let x ← e.value; rDiv x (rScalar c)
  | .subst f e => do
      if canon f.den = [] then none
      let y ← e.value
      rSubst (rOf f) y

/-- every literal of the tree is a valid filter object -/
def Expr.Lits (P : ZF α → Prop) : Expr α → Prop
  | .lit f => P f
  | .scalar _ => True
  | .neg e | .pos e | .pow e _ | .muls e _ | .divs e _ => e.Lits P
  | .add a b | .sub a b | .mul a b | .div a b => a.Lits P ∧ b.Lits P
  | .subst f e => P f ∧ e.Lits P

end ALV.C05
