/-
  C19 — specification in the words of the property.  Mathlib-free; executable.

  modulo_counter.  `start`, `modulo`, `step` are three lock-stepped sequences
  p, m, s (a number stands for the constant sequence).
    recursive layer :  c_0 = p_0 mod m_0,
                       c_n = (c_{n-1} + s_{n-1} + (p_n - p_{n-1})) mod m_n
    closed layer (constant modulo m) :  c_n = (p_n + Σ_{i<n} s_i) mod m      -- no drift
    all numbers :                       c_n = (start + n·step) mod m
  where `mod` is the floored modulo `fmod` (result in [0,m) for m > 0).
  The closed layer is NOT valid for a time-varying modulo; the recursive one is
  the meaning of the code there.
-/
import ALV.Model.C19
namespace ALV.C19

section Arith
variable {α : Type} [Add α] [Sub α] [Mul α] [Div α] [Neg α] [OfNat α 0] [OfNat α 1]
  [IntCast α] [Floor α]

/-- `mcRecNext c p s` : outputs after one with value `c`, start `p`, step `s` -/
def mcRecNext : α → α → α → List α → List α → List α → List α
  | c, p0, s0, p :: ps, m :: ms, s :: ss =>
    let c1 := fmod (c + s0 + (p - p0)) m
    c1 :: mcRecNext c1 p s ps ms ss
  | _, _, _, _, _, _ => []

/-- recursive layer -/
def mcRec : List α → List α → List α → List α
  | p :: ps, m :: ms, s :: ss =>
    let c0 := fmod p m
    c0 :: mcRecNext c0 p s ps ms ss
  | _, _, _ => []

/-- closed layer for a constant modulo: `acc` = sum of the steps so far -/
def mcClosedFrom (m : α) : α → List α → List α → List α
  | acc, p :: ps, s :: ss => fmod (p + acc) m :: mcClosedFrom m (acc + s) ps ss
  | _, _, _ => []

def mcClosed (m : α) (ps ss : List α) : List α := mcClosedFrom m 0 ps ss

/-- all three arguments numbers: `(start + k·step) mod m`, k = 0 .. n-1 -/
def mcNumbers (a m s : α) (n : Nat) : List α :=
  (List.range n).map fun (k : Nat) => fmod (a + (((k : Nat) : Int) : α) * s) m

end Arith
end ALV.C19
