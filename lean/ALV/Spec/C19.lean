/-
  C19 — specification in the words of the property.  Mathlib-free; executable.

  modulo_counter.  `start`, `modulo`, `step` are three lock-stepped sequences
  p, m, s (a number stands for the constant sequence).
    recursive layer :  c_0 = p_0 mod m_0,
                       c_n = (c_{n-1} + s_{n-1} + (p_n - p_{n-1})) mod m_n
    closed layer (constant modulo m) :  c_n = (p_n + Σ_{i<n} s_i) mod m      -- no drift
    all numbers :                       c_n = (start + n·step) mod m
  where `mod` is the floored modulo `fmod` (result in [0,m) for m > 0).
  The closed layer is NOT valid for a time-varying modulo; the recursive one is
  the meaning of the code there.
-/
import ALV.Model.C19
namespace ALV.C19

section Arith
variable {α : Type} [Add α] [Sub α] [Mul α] [Div α] [Neg α] [OfNat α 0] [OfNat α 1]
  [IntCast α] [Floor α]

/-- `mcRecNext c p s` : outputs after one with value `c`, start `p`, step `s` -/
def mcRecNext : α → α → α → List α → List α → List α → List α
  | c, p0, s0, p :: ps, m :: ms, s :: ss =>
    let c1 := fmod (c + s0 + (p - p0)) m
    c1 :: mcRecNext c1 p s ps ms ss
  | _, _, _, _, _, _ => []

/-- recursive layer -/
def mcRec : List α → List α → List α → List α
  | p :: ps, m :: ms, s :: ss =>
    let c0 := fmod p m
    c0 :: mcRecNext c0 p s ps ms ss
  | _, _, _ => []

/-- closed layer for a constant modulo: `acc` = sum of the steps so far -/
def mcClosedFrom (m : α) : α → List α → List α → List α
  | acc, p :: ps, s :: ss => fmod (p + acc) m :: mcClosedFrom m (acc + s) ps ss
  | _, _, _ => []

def mcClosed (m : α) (ps ss : List α) : List α := mcClosedFrom m 0 ps ss

/-- all three arguments numbers: `(start + k·step) mod m`, k = 0 .. n-1 -/
def mcNumbers (a m s : α) (n : Nat) : List α :=
  (List.range n).map fun (k : Nat) => fmod (a + (((k : Nat) : Int) : α) * s) m

/-! ### durations and piecewise-linear shapes

`durLen dur = ⌊dur + 1/2⌋` samples (none when that is negative).  The shapes are given sample
by sample, as functions of the index. -/

section Shapes
variable [LT α] [DecidableLT α]

/-- documented number of samples of a duration -/
def durLen (dur : α) : Nat := (Floor.floor (dur + half) : Int).toNat

/-- `line`: `int(dur+.5)` samples `begin + i·(end-begin)/(dur-finish)` -/
def lineSpec (dur begin_ end_ : α) (finish : Bool) : List α :=
  (List.range (durLen dur)).map fun (i : Nat) =>
    begin_ + (((i : Int) : α) * (end_ - begin_)) / (dur - (if finish then 1 else 0))

/-- `ones` / `zeros`: `durLen dur` copies (endless for `none`), observed through `n` reads -/
def constSpec (v : α) (dur : Option α) (n : Nat) : List α :=
  match dur with
  | none => List.replicate n v
  | some d => List.replicate (min n (durLen d)) v

/-- `impulse`: `durLen dur` samples, the first is `one`, all others `zero` -/
def impulseSpec {β : Type} (dur : Option α) (one zero : β) (n : Nat) : List β :=
  let len := match dur with
    | none => n
    | some d => min n (durLen d)
  (List.range len).map fun i => if i = 0 then one else zero

/-- ADSR envelope at sample `i`, with segment lengths `la ld ls lr`:
    0 → 1 over `a`, 1 → `s` over `d`, `s` held, `s` → 0 over `r` -/
def adsrAt (a d s r : α) (la ld ls : Nat) (i : Nat) : α :=
  if i < la then (((i : Int) : α)) / a
  else if i < la + ld then 1 + ((((i - la : Nat) : Int) : α)) * (s - 1) / d
  else if i < la + ld + ls then s
  else s - ((((i - la - ld - ls : Nat) : Int) : α)) * s / r

/-- `adsr`: the sustain fills what `dur` leaves after attack, decay and release -/
def adsrSpec (dur a d s r : α) : List α :=
  let la := durLen a
  let ld := durLen d
  let lr := durLen r
  let ls := durLen dur - la - ld - lr
  (List.range (la + ld + ls + lr)).map (adsrAt a d s r la ld ls)

/-- `attack` with sustain level `s0`, followed by the sustain samples `sus` -/
def attackSpec (a d s0 : α) (sus : List α) (n : Nat) : List α :=
  let la := durLen a
  let ld := durLen d
  (((List.range (la + ld)).map fun (i : Nat) =>
      if i < la then (((i : Int) : α)) / a
      else 1 + ((((i - la : Nat) : Int) : α)) * (s0 - 1) / d) ++ sus).take n

end Shapes

/-! ### oscillators

Positions are *unreduced* running sums `x_k = p_k + Σ_{i<k} s_i`; the table oscillator is the
cyclic linear interpolation of its table there, the sinusoid is the sine there. -/

/-- `x_k = p_k + acc + Σ_{i<k} s_i` -/
def runSumFrom : α → List α → List α → List α
  | acc, p :: ps, s :: ss => (p + acc) :: runSumFrom (acc + s) ps ss
  | _, _, _ => []

/-- cyclic linear interpolation of `tbl` at position `x` (any real position, any sign) -/
def interpCyc (tbl : List α) (x : α) : α :=
  let L : Int := tbl.length
  let i : Int := Floor.floor x
  let fr := x - (i : α)
  tbl.getD (i.fmod L).toNat 0 * (1 - fr) + tbl.getD ((i + 1).fmod L).toNat 0 * fr

section Osc
variable [DecidableEq α] [LT α] [DecidableLT α]

/-- `TableLookup(tbl, cycles)(freq, phase)`: one table per `cycles·2π` radians -/
def tableSpec (tbl : List α) (den : α) (freq phase : Arg α) (n : Nat) : List α :=
  let c : α := ((tbl.length : Int) : α) / den
  (runSumFrom 0 ((phase.map (c * ·)).expand n) ((freq.map (c * ·)).expand n)).map (interpCyc tbl)

/-- `sinusoid(freq, phase)`: `sin(phase_k + Σ_{i<k} freq_i)`; for numbers `sin(phase + k·freq)` -/
def sinusoidSpec {β : Type} (sin : α → β) (freq phase : Arg α) (n : Nat) : List β :=
  (runSumFrom 0 (phase.expand n) (freq.expand n)).map sin

end Osc

/-- linearised feedback comb on zero input: `y[k] = alpha·((1-w)·y[k-D] + w·y[k-D-1])`,
    `D = ⌊delay⌋`, `w = delay - D`; `hist = [y[k-1], y[k-2], …]` ends with the initial memory -/
def ksSpecLoop (alpha delay : α) : Nat → List α → List α
  | 0, _ => []
  | fuel + 1, hist =>
    let D : Int := Floor.floor delay
    let w := delay - (D : α)
    let y := alpha * ((1 - w) * hist.getD (D.toNat - 1) 0 + w * hist.getD D.toNat 0)
    y :: ksSpecLoop alpha delay fuel (y :: hist)

/-- initial memory: the first `⌈delay⌉` given items, left-padded with zeros when fewer -/
def karplusSpec (alpha delay : α) (memory : List α) (n : Nat) : List α :=
  let lm : Nat := (-(Floor.floor (-delay) : Int)).toNat
  let m := memory.take lm
  ksSpecLoop alpha delay n (List.replicate (lm - m.length) 0 ++ m)

/-! ### resample

Output `m` sits at the input position `P_m = Σ_{i<m} step_i` (`m·old/new` for a constant step).
It is the Lagrange interpolation through the `order+1` neighbouring input samples
`x[b], …, x[b+order]` at their integer positions, evaluated at `P_m`, where the input is
zero-extended on the left and the window base is `b = sh - i0`, `i0 = (order+1) div 2`,
`sh = max 0 ⌈P_m + i0 - (order+1)/2⌉` (for odd orders `⌈P_m⌉`: `P_m` lies in the middle
interval of the window).  Output `m` exists iff the window does not reach past the last input
sample (and, for a step stream, iff `step_0 .. step_{m-1}` exist): resample ends when its input does. -/

section Resample
variable [DecidableEq α] [LT α] [DecidableLT α]

/-- Lagrange interpolation through the points `(t_j, y_j)` at `x` -/
def lagrangePts (pts : List (α × α)) (x : α) : α :=
  pts.foldl (fun (acc : α) (pj : α × α) =>
    acc + pj.2 * ((pts.filter (fun pk => pk.1 ≠ pj.1)).foldl
      (fun (p : α) (pk : α × α) => p * ((x - pk.1) / (pj.1 - pk.1))) 1)) 0

/-- the input, zero-extended on the left -/
def extGet (sig : List α) (zero : α) (t : Int) : α :=
  if t < 0 then zero else sig.getD t.toNat zero

def resI0 (order : Nat) : Int := ((order + 1) / 2 : Nat)

def resShift (order : Nat) (P : α) : Int :=
  max 0 (pyCeil (P + ((resI0 order : Int) : α) - half * (((order + 1 : Nat) : Int) : α)))

def resExists (sig : List α) (order : Nat) (P : α) : Bool :=
  resShift order P + ((order : Int) - resI0 order) < (sig.length : Int)

def resValue (sig : List α) (zero : α) (order : Nat) (P : α) : α :=
  let b : Int := resShift order P - resI0 order
  lagrangePts ((List.range (order + 1)).map fun (j : Nat) =>
    ((((b + (j : Int)) : Int) : α), extGet sig zero (b + (j : Int)))) P

/-- positions: `0, s_0, s_0+s_1, …` -/
def resPositions : α → List α → List α
  | acc, [] => [acc]
  | acc, s :: ss => acc :: resPositions (acc + s) ss

/-- first `n` outputs, and whether the stream ended within them -/
def resampleSpec (sig : List α) (step : Arg α) (order : Nat) (zero : α) (n : Nat) : List α × Bool :=
  let Ps : List α := match step with
    | .num s => (List.range (n + 1)).map fun (m : Nat) => ((m : Int) : α) * s
    | .strm ss => resPositions 0 ss
  let alive := Ps.takeWhile (resExists sig order)
  ((alive.take n).map (resValue sig zero order), alive.length ≤ n)

end Resample

/-! ### TableLookup.harmonize -/

/-- spec: partial `p` reads the table `p+1` times as fast (cyclically) -/
def harmonizeSpec (t : List α) (harm : List (Nat × α)) : List α :=
  (List.range t.length).map fun k =>
    harm.foldl (fun acc pa => acc + t.getD ((k * (pa.1 + 1)) % t.length) 0 * pa.2) 0

end Arith
end ALV.C19
