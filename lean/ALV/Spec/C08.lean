/-
  C08 — specification in the words of the property.
  Block k of a sequence is its items k*hop .. k*hop+size-1; all complete blocks
  in order, then one final padded block iff it would hold more than
  max(size-hop,0) real items.
-/
namespace ALV.C08
variable {α : Type}

/-- number of complete blocks -/
def nFull (size hop len : Nat) : Nat := if len < size then 0 else (len - size) / hop + 1

/-- closed form, indexed by block number -/
def blocksClosed (size hop : Nat) (pad : α) (xs : List α) : List (List α) :=
  let n := nFull size hop xs.length
  let full := (List.range n).map fun k => (xs.drop (k * hop)).take size
  let rest := xs.drop (n * hop)
  full ++ (if (rest.length : Int) > max ((size : Int) - hop) 0
            then [rest ++ List.replicate (size - rest.length) pad] else [])

/-- recursive form (the one the refinement proof uses) -/
def blocksSpec (size hop : Nat) (pad : α) (xs : List α) : List (List α) :=
  if _h : xs.length < size ∨ hop = 0 ∨ size = 0 then
    (if (xs.length : Int) > max ((size : Int) - hop) 0
      then [xs ++ List.replicate (size - xs.length) pad] else [])
  else xs.take size :: blocksSpec size hop pad (xs.drop hop)
termination_by xs.length
decreasing_by
  simp only [List.length_drop]
  omega

end ALV.C08
