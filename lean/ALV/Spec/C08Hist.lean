/-
  C08 — specifications for the histories (property shaped).
-/
import ALV.Spec.C08
import ALV.Model.C08Hist
namespace ALV.C08
variable {α : Type}

/-- all complete blocks of a (prefix of the) input, in order -/
def fullBlocks (size hop : Nat) (xs : List α) : List (List α) :=
  (List.range (nFull size hop xs.length)).map fun k => (xs.drop (k * hop)).take size

/-- block `k` is handed out when exactly `k*hop + size` items have been pulled -/
def readsClosed (size hop len : Nat) : List Nat :=
  (List.range (nFull size hop len)).map fun k => k * hop + size

/-- the padded final block (if any) of an input that finished -/
def tailBlock (size hop : Nat) (pad : α) (xs : List α) : List (List α) :=
  let rest := xs.drop (nFull size hop xs.length * hop)
  if (rest.length : Int) > max ((size : Int) - hop) 0
    then [rest ++ List.replicate (size - rest.length) pad] else []

/-- a change of the contents of a container that keeps its length -/
def LenPres (α : Type) := { f : List α → List α // ∀ l, (f l).length = l.length }

/-- Specification with a caller that edits the yielded containers (docstring note of `blocks`):
the block is the first `size` items of the virtual input; the virtual input of the next block is
what the caller left of these `size` items followed by the rest, minus `hop` items. -/
def mutSpec (size hop : Nat) (pad : α) (edit : Nat → LenPres α) : Nat → List α → List (List α)
  | k, v =>
    if _h : v.length < size ∨ hop = 0 ∨ size = 0 then
      (if (v.length : Int) > max ((size : Int) - hop) 0
        then [v ++ List.replicate (size - v.length) pad] else [])
    else v.take size :: mutSpec size hop pad edit (k + 1) (((edit k).1 (v.take size) ++ v.drop size).drop hop)
termination_by _ v => v.length
decreasing_by
  simp only [List.length_drop, List.length_append, (edit k).2, List.length_take]
  omega

theorem Edit.apply_length (e : Edit α) (l : List α) : (e.apply l).length = l.length := by
  cases e with
  | set i v => simp [Edit.apply]
  | rotate r => simp only [Edit.apply, List.length_append, List.length_drop, List.length_take]; omega
  | reverse => simp [Edit.apply]

theorem applyEdits_length (es : List (Edit α)) : ∀ l : List α, (applyEdits es l).length = l.length := by
  induction es with
  | nil => intro l; rfl
  | cons e es ih => intro l; simp only [applyEdits, List.foldl_cons] at ih ⊢; rw [ih, e.apply_length]

/-- the concrete edits of the harness (item assignment, rotate, reverse) keep the length -/
def editsLP (es : List (Edit α)) : LenPres α := ⟨applyEdits es, applyEdits_length es⟩

end ALV.C08
