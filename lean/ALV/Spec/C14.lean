/-
  C14 — specification in the words of the property (hand written, short, auditable).
  Core Lean only; generic over `TrigField`, so the driver evaluates the very same closed
  forms at `Float` for the failing-input search.

  * `sample k alpha N n` — the documented closed form of sample `n` of window `k`, where `N` is
    the period (periodic windows, `N = size`) or the span (symmetric windows, `N = size − 1`);
  * `periodic`, `symmetric` — the lists the two dictionaries must return;
  * `resolve` — which (kind, variant) a name of a dictionary denotes;
  * `hopSum` — the hop-shifted sum of a window (overlap-add of the constant signal 1).
-/
import ALV.Common.TrigField
namespace ALV.C14
open ALV TrigField

inductive Kind | hann | hamming | rect | bartlett | triangular | blackman | cos
  deriving DecidableEq, Repr

def Kind.all : List Kind := [.hann, .hamming, .rect, .bartlett, .triangular, .blackman, .cos]

/-- documented names, the first one is the strategy's own name -/
def Kind.names : Kind → List String
  | .hann => ["hann", "hanning"]
  | .hamming => ["hamming"]
  | .rect => ["rect", "dirichlet", "rectangular"]
  | .bartlett => ["bartlett"]
  | .triangular => ["triangular", "triangle"]
  | .blackman => ["blackman"]
  | .cos => ["cos"]

def Kind.sname : Kind → String
  | .hann => "hann" | .hamming => "hamming" | .rect => "rect" | .bartlett => "bartlett"
  | .triangular => "triangular" | .blackman => "blackman" | .cos => "cos"

def Kind.ofName (s : String) : Option Kind := Kind.all.find? fun k => k.names.contains s

/-- the rectangular window is both periodic and symmetric: one shared strategy -/
def Kind.distinct : Kind → Bool
  | .rect => false
  | _ => true

variable {α : Type} [TrigField α]

/-- documented default of the extra parameter: blackman `alpha = 0.16`, cos `alpha = 1` -/
def Kind.alphaDefault : Kind → Option α
  | .blackman => some (ofRat 4 25)
  | .cos => some (ofInt 1)
  | _ => none

/-- Documented closed forms (Harris 1978), `N` = period / span, `n` = sample index. -/
def sample (k : Kind) (alpha N n : α) : α :=
  match k with
  | .hann => ofRat 1 2 - ofRat 1 2 * cos (ofInt 2 * pi * n / N)
  | .hamming => ofRat 27 50 - ofRat 23 50 * cos (ofInt 2 * pi * n / N)
  | .rect => ofInt 1
  | .bartlett => ofInt 1 - abs (n - N / ofInt 2) / (N / ofInt 2)
  | .triangular => ofInt 1 - abs (n - N / ofInt 2) / ((N + ofInt 2) / ofInt 2)
  | .blackman => (ofInt 1 - alpha) / ofInt 2 - ofRat 1 2 * cos (ofInt 2 * pi * n / N)
                  + alpha / ofInt 2 * cos (ofInt 4 * pi * n / N)
  | .cos => pow (sin (pi * n / N)) alpha

/-- `window.X(size)`: `size` samples of one period of length `size` -/
def periodic (k : Kind) (alpha : α) (size : Nat) : List α :=
  (List.range size).map fun n => sample k alpha (ofNat size) (ofNat n)

/-- `wsymm.X(size)`: `size` samples spanning `size − 1`, both end points included; `[1.0]` for size 1 -/
def symmetric (k : Kind) (alpha : α) (size : Nat) : List α :=
  if size = 1 then [ofInt 1]
  else (List.range size).map fun n => sample k alpha (ofNat (size - 1)) (ofNat n)

/-- What a name of a dictionary denotes: the kind and whether it is the symmetric variant.
    (`rect` is shared: `wsymm.rect is window.rect`.) -/
def resolve (symmDict : Bool) (name : String) : Option (Kind × Bool) :=
  (Kind.ofName name).map fun k => (k, symmDict && k.distinct)

/-- the parameter in effect: the given one, else the documented default -/
def effAlpha (k : Kind) (alpha : Option α) : α :=
  alpha.getD ((k.alphaDefault : Option α).getD (ofInt 0))

/-- the list a strategy denoted by `(k, symm)` returns -/
def specList (k : Kind) (symm : Bool) (alpha : Option α) (size : Nat) : Option (List α) :=
  match alpha, (k.alphaDefault : Option α) with
  | some _, none => none                     -- no such parameter: outside the property
  | _, _ => some (if symm then symmetric k (effAlpha k alpha) size else periodic k (effAlpha k alpha) size)

/-- Hop-shifted sum at position `j` (`0 ≤ j < hop`) of a window `w` whose length is a multiple of
    `hop`: what overlap-add of the constant signal 1 yields in the steady state. -/
def hopSum (w : List α) (hop j : Nat) : α :=
  ((List.range (w.length / hop)).map fun i => w.getD (j + i * hop) (ofInt 0)).foldl (· + ·) (ofInt 0)

/-- the constant of the documented constant-overlap-add cases: `blocks` = size / hop ∈ {2, 4} -/
def colaConst (k : Kind) (alpha : α) (blocks : Nat) : Option α :=
  match k, blocks with
  | .hann, 2 => some (ofInt 1)
  | .hann, 4 => some (ofInt 2)
  | .hamming, 2 => some (ofRat 27 25)
  | .hamming, 4 => some (ofRat 54 25)
  | .bartlett, 2 => some (ofInt 1)
  | .bartlett, 4 => some (ofInt 2)
  | .rect, 2 => some (ofInt 2)
  | .rect, 4 => some (ofInt 4)
  | .blackman, 4 => some (ofInt 2 * (ofInt 1 - alpha))
  | _, _ => none

end ALV.C14
