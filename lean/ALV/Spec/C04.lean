/-
  C04 — specification in the words of the property (executable, Mathlib-free).

  "Calling a causal filter with numerator b, denominator a (a[0] non-zero) on input x yields
   exactly one output per input with
        a[0]*y[n] = sum_k b[k]*x[n-k] - sum_{k>=1} a[k]*y[n-k],
   where x before time 0 is the given zero value and y[-k] is the k-th item of the given memory
   (zero value when no memory is given; a callable memory is asked for the needed size).  A
   filter with any negative delay refuses to run (ValueError), and the all-zero filter outputs
   the zero value once per input."

  * `DiffEq`   — that sentence, literally, as a predicate on an output list (indexed form).
  * `fspec`    — its unique solution, computed over *unbounded* histories (no state shifting,
                 no truncation: the whole past is kept).
  * `specCall` — the whole contract of `ZFilter(num, den)(x, memory, zero)` from raw
                 (power, coefficient) pairs, written without the model's sorted dictionaries.
-/
import ALV.Model.C04
namespace ALV.C04
variable {α : Type}

section spec
variable [Add α] [Mul α] [Sub α] [Div α] [OfNat α 0]

/-- Difference equation with unbounded histories.  `hy` = all previous outputs, most recent
first, followed by the memory (`y[-1], y[-2], …`); `hx` = all previous inputs, most recent first
(`zero` before time 0). -/
def fspec (b as : List α) (a0 zero : α) : List α → List α → List α → List α
  | _, _, [] => []
  | hy, hx, x :: xs =>
    let y := (dot b (takeP zero b.length (x :: hx)) - dot as hy) / a0
    y :: fspec b as a0 zero (y :: hy) (x :: hx) xs

/-- `Σ_{k<n} f k` -/
def sigma : Nat → (Nat → α) → α
  | 0, _ => 0
  | n + 1, f => sigma n f + f n

/-- `x[n]`: the input, `zero` before time 0 -/
def xAt (zero : α) (xs : List α) (n : Int) : α :=
  if n < 0 then zero else xs.getD n.toNat zero

/-- `y[n]`: the output, `y[-k] = mem[k-1]` before time 0 -/
def yAt (zero : α) (mem ys : List α) (n : Int) : α :=
  if n < 0 then mem.getD ((-n).toNat - 1) zero else ys.getD n.toNat zero

/-- The property sentence: one output per input, and at every time `n` the difference equation
holds (`a = a0 :: as`, `as.length ≤ mem.length`). -/
def DiffEq (b : List α) (a0 : α) (as : List α) (zero : α) (mem xs ys : List α) : Prop :=
  ys.length = xs.length ∧
  ∀ n : Nat, n < xs.length →
    a0 * yAt zero mem ys n =
      sigma b.length (fun k => b.getD k 0 * xAt zero xs ((n : Int) - k))
      - sigma as.length (fun k => as.getD k 0 * yAt zero mem ys ((n : Int) - (k + 1)))

end spec

section specCall
variable [Add α] [Mul α] [Sub α] [Div α] [OfNat α 0] [DecidableEq α]

/-- dict semantics: the last pair with key `k` wins; absent = 0 -/
def coefLast (pairs : List (Int × α)) (k : Int) : α :=
  match pairs.reverse.find? (fun kv => kv.1 == k) with
  | some kv => kv.2
  | none => 0

/-- powers carrying a non-zero coefficient -/
def keysNZ (pairs : List (Int × α)) : List Int :=
  (pairs.map (·.1)).filter (fun k => !(coefLast pairs k == 0))

def listMin : List Int → Option Int
  | [] => none
  | k :: r => match listMin r with
    | none => some k
    | some k' => some (if k' < k then k' else k)

def listMax : List Int → Option Int
  | [] => none
  | k :: r => match listMax r with
    | none => some k
    | some k' => some (if k < k' then k' else k)

/-- coefficients of `z^-(p)`, `z^-(p+1)`, … up to the highest non-zero power; `[]` for the zero polynomial -/
def coeffsFrom (pairs : List (Int × α)) (p : Int) : List α :=
  match listMax (keysNZ pairs) with
  | none => []
  | some hi => (List.range ((hi - p).toNat + 1)).map (fun (i : Nat) => coefLast pairs (p + Int.ofNat i))

/-- memory as the property reads it: `y[-k]` = k-th item; zero value when none given; callable
asked for the needed size.  (A too short memory is outside the property's quantifier; the code
LEFT-pads it and so does this definition, to stay total.) -/
def specMem (zero : α) (lm : Nat) : Mem α → List α
  | .none => List.replicate lm zero
  | .iter l => if lm ≤ l.length then l else List.replicate (lm - l.length) zero ++ l
  | .gen g => (List.range lm).map g
  | .callable f => if lm ≤ (f lm).length then f lm else List.replicate (lm - (f lm).length) zero ++ f lm

/-- The whole contract.  `H(z) = Σ num_k z^-k / Σ den_k z^-k` is first rewritten so that the
denominator starts at delay 0 (both divided by `z^-p`, `p` = lowest denominator delay); any
remaining negative delay ⇒ ValueError; numerator zero and no feedback ⇒ the zero value once per
input; otherwise the difference equation. -/
def specCall (num den : List (Int × α)) (mem : Mem α) (zero : α) (xs : List α) : Except Err (List α) :=
  match listMin (keysNZ den) with
  | none => .error .valueError
  | some p =>
    if (keysNZ num).any (fun k => decide (k < p)) then .error .valueError
    else
      let b := coeffsFrom num p
      let a := coeffsFrom den p
      let a0 := coefLast den p
      let as := a.tail
      if b.all (fun c => c == 0) ∧ as.all (fun c => c == 0) then .ok (xs.map fun _ => zero)
      else .ok (fspec b as a0 zero (specMem zero as.length mem) [] xs)

end specCall

end ALV.C04
