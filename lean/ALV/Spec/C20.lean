/-
  C20 — specification in the words of the property (closed forms indexed by the output
  position `n`; no state).  Mathlib-free; executable (quadratic, for auditing not speed).

  Each closed form is followed by the same specification written as a recursion over the input
  (`…SpecRec`, linear time: one pass, the state is what the closed form recomputes at every `n`).
  `ALV.Props.C20.mavgSpecRec_eq_spec … unwrapSpecRec_eq_spec` (and `rat_spec_recursions` for the
  `Rat` instances) prove `…SpecRec = …Spec` for all inputs; the driver evaluates the closed form
  itself on short inputs and the recursion on long ones (thousands of samples).
-/
import ALV.Model.C20
import ALV.Model.C20Call
namespace ALV.C20
variable {α : Type}

/-- the last `k` items of a list -/
def lastN (k : Nat) (l : List α) : List α := l.drop (l.length - k)

/-- `x[i]`, samples before the start taken as `zero` -/
def ext (zero : α) (xs : List α) (i : Int) : α := if i < 0 then zero else xs.getD i.toNat zero

section mavg
variable [Add α] [Mul α] [Sub α] [Neg α] [Div α] [OfNat α 0] [OfNat α 1] [NatCast α]

/-- **moving average**: output `n` is the mean of the last `size` samples of
    `zero, …, zero, x[0], …, x[n]` (`size` leading `zero`s). -/
def mavgSpec (size : Nat) (zero : α) (xs : List α) : List α :=
  (List.range xs.length).map fun n =>
    sumL (lastN size (List.replicate size zero ++ xs.take (n + 1))) / (size : α)

/-- the same, written with indices: `(Σ_{k<size} x[n-k]) / size`, `x[i] = zero` for `i < 0` -/
def mavgClosed (size : Nat) (zero : α) (xs : List α) : List α :=
  (List.range xs.length).map fun (n : Nat) =>
    sumL ((List.range size).map fun (k : Nat) => ext zero xs ((n : Int) - (k : Int))) / (size : α)

/-- window recursion: `w` holds the last `size` samples (oldest first) -/
def mavgFrom (size : Nat) : List α → List α → List α
  | _, [] => []
  | w, x :: xs => (sumL (w.drop 1 ++ [x]) / (size : α)) :: mavgFrom size (w.drop 1 ++ [x]) xs

/-- `mavgSpec` as one pass over the input, the window starting as `size` copies of `zero` -/
def mavgSpecRec (size : Nat) (zero : α) (xs : List α) : List α :=
  mavgFrom size (List.replicate size zero) xs

/-- **running sums**: output `n` is `x[0] + … + x[n]` -/
def accSpec (xs : List α) : List α :=
  (List.range xs.length).map fun n => sumL (xs.take (n + 1))

/-- running sums as a recursion: `s` is the sum of the samples seen so far -/
def accFrom : α → List α → List α
  | _, [] => []
  | s, x :: xs => (s + x) :: accFrom (s + x) xs

/-- `accSpec` as one pass over the input -/
def accSpecRec (xs : List α) : List α := accFrom 0 xs

/-- `x[n] − x[n−lag]`, earlier samples taken as `zero` -/
def lagDiffSpec (lag : Nat) (zero : α) (xs : List α) : List α :=
  (List.range xs.length).map fun (n : Nat) =>
    ext zero xs (n : Int) - ext zero xs ((n : Int) - (lag : Int))

variable [LT α] [DecidableLT α]

/-- **amdf**: moving average (same `zero` convention) of `|x[n] − x[n−lag]|` -/
def amdfSpec (lag size : Nat) (zero : α) (xs : List α) : List α :=
  mavgSpec size zero ((lagDiffSpec lag zero xs).map absG)

/-- `amdfSpec` with the moving average evaluated in one pass -/
def amdfSpecRec (lag size : Nat) (zero : α) (xs : List α) : List α :=
  mavgSpecRec size zero ((lagDiffSpec lag zero xs).map absG)

end mavg

/-! ### envelope: the documented one-pole low-pass of `|x|` / `x²` -/
section envelope

/-- the one-pole recursion `y[n] = g·u[n] + r·y[n−1]`, `prev = y[−1]` -/
def onePoleFrom [Add α] [Mul α] (g r : α) : α → List α → List α
  | _, [] => []
  | prev, u :: us => (g * u + r * prev) :: onePoleFrom g r (g * u + r * prev) us

variable [TrigField α]
open TrigField

/-- the documented pole of `lowpass(cutoff)`: `R = x − sqrt(x² − 1)`, `x = 2 − cos(cutoff)` -/
def poleRadius (c : α) : α :=
  let x := ofInt 2 - cos c
  x - sqrt (x * x - ofInt 1)

/-- **envelope**: `y[n] = (1−R)·u[n] + R·y[n−1]`, `y[−1] = 0`, with `u = |x|` (`abs`) or `u = x²`
    (`squared`; `rms` = its square root), `R` the pole of the cutoff, default cutoff `π/512`. -/
def envelopeSpec (s : Option EnvStrategy) (cutoff : Option α) (xs : List α) : List α :=
  let c := cutoff.getD (pi / ofInt 512)
  let R := poleRadius c
  match s.getD EnvStrategy.rms with
  | .abs => onePoleFrom (ofInt 1 - R) R (ofInt 0) (xs.map abs)
  | .squared => onePoleFrom (ofInt 1 - R) R (ofInt 0) (xs.map fun x => x * x)
  | .rms => (onePoleFrom (ofInt 1 - R) R (ofInt 0) (xs.map fun x => x * x)).map sqrt

/-- the one-pole recursion with a pole per sample: `y[n] = (1−R[n])·u[n] + R[n]·y[n−1]`; as long as
    both lists last -/
def onePoleVarFrom : α → List α → List α → List α
  | prev, r :: rs, u :: us =>
    ((ofInt 1 - r) * u + r * prev) :: onePoleVarFrom ((ofInt 1 - r) * u + r * prev) rs us
  | _, _, _ => []

/-- **envelope with a time-varying cutoff** `c[n]`: the pole follows the cutoff sample by sample -/
def envelopeVarSpec (s : Option EnvStrategy) (cs xs : List α) : List α :=
  match s.getD EnvStrategy.rms with
  | .abs => onePoleVarFrom (ofInt 0) (cs.map poleRadius) (xs.map abs)
  | .squared => onePoleVarFrom (ofInt 0) (cs.map poleRadius) (xs.map fun x => x * x)
  | .rms => (onePoleVarFrom (ofInt 0) (cs.map poleRadius) (xs.map fun x => x * x)).map sqrt

end envelope

/-! ### clip: `min(high, max(low, x))`, a limit that is `none` does not apply -/
section clip
variable [LT α] [DecidableLT α]

def clip1 (low high : Option α) (x : α) : α :=
  let y := match low with
    | some lo => if x < lo then lo else x
    | none => x
  match high with
    | some hi => if hi < y then hi else y
    | none => y

def clipSpec (low high : Option α) (xs : List α) : Except String (List α) :=
  match low, high with
  | some lo, some hi => if hi < lo then .error "ValueError" else .ok (xs.map (clip1 low high))
  | _, _ => .ok (xs.map (clip1 low high))

/-- every limit that is given bounds the sample -/
def withinLimits (low high : Option α) (y : α) : Prop :=
  (∀ lo, low = some lo → ¬ y < lo) ∧ (∀ hi, high = some hi → ¬ hi < y)

end clip

/-! ### zcross -/
section zcross
variable [Mul α] [Neg α] [OfNat α 0] [OfNat α 1] [LT α] [DecidableLT α] [DecidableEq α]

/-- strictly outside the band `[-h, h]` -/
def outside (h x : α) : Prop := x > h ∨ x < -h
instance (h x : α) : Decidable (outside h x) := by unfold outside; exact inferInstance

/-- sign as `-1 / 0 / 1` -/
def sgn3 (x : α) : α := if x < 0 then -1 else if 0 < x then 1 else 0

/-- the *current sign* before a sample: the sign of the latest earlier sample outside the
    band; `first_sign`'s sign when there is none (`0` = not yet determined). -/
def curSign (h fs : α) (pre : List α) : α :=
  match pre.reverse.find? (fun y => decide (outside h y)) with
  | some y => sgn3 y
  | none => sgn3 fs

/-- beyond the threshold on the side opposite to the sign `s` -/
def crossing (h s x : α) : Prop := (s = 1 ∧ x < -h) ∨ (s = -1 ∧ x > h)
instance (h s x : α) : Decidable (crossing h s x) := by unfold crossing; exact inferInstance

/-- **zcross**: one output per input; `1` exactly where the sample lies beyond the threshold
    on the side opposite to the current sign. -/
def zcrossSpec (h fs : α) (xs : List α) : List Nat :=
  (List.range xs.length).map fun n =>
    if crossing h (curSign h fs (xs.take n)) (xs.getD n 0) then 1 else 0

/-- the specification as a recursion over the current sign `s ∈ {-1, 0, 1}` -/
def zFrom (h : α) : α → List α → List Nat
  | _, [] => []
  | s, x :: xs =>
    (if crossing h s x then 1 else 0) :: zFrom h (if outside h x then sgn3 x else s) xs

/-- `zcrossSpec` as one pass over the input, the current sign starting as `first_sign`'s sign -/
def zcrossSpecRec (h fs : α) (xs : List α) : List Nat := zFrom h (sgn3 fs) xs

end zcross

/-! ### unwrap -/
section unwrap
variable [Add α] [Mul α] [Sub α] [Neg α] [Div α] [OfNat α 0] [OfNat α 1] [LT α] [DecidableLT α]

/-- representative of `d` modulo `step` of least absolute value (`+step/2` on a tie) -/
def nearRes (fl : α → α) (step d : α) : α :=
  let a := d - step * fl (d / step)
  if step - a < a then a - step else a

/-- correction added from a jump `d` on: nothing for small jumps -/
def corr (fl : α → α) (maxDelta step d : α) : α :=
  if absG d > maxDelta then nearRes fl step d - d else 0

/-- adjacent differences `x[1]-x[0], x[2]-x[1], …` -/
def diffs [Sub α] : List α → List α
  | x :: y :: rest => (y - x) :: diffs (y :: rest)
  | _ => []

/-- **unwrap**: `y[n] = x[n] + Σ_{k ≤ n} corr (x[k] − x[k−1])` -/
def unwrapSpec (fl : α → α) (maxDelta step : α) (xs : List α) : List α :=
  (List.range xs.length).map fun n =>
    xs.getD n 0 + sumL ((diffs (xs.take (n + 1))).map (corr fl maxDelta step))

/-- specification as a recursion: `delta` is the correction accumulated so far -/
def uFrom (fl : α → α) (md step : α) : α → α → List α → List α
  | _, _, [] => []
  | d0, delta, d1 :: rest =>
    (d1 + (delta + corr fl md step (d1 - d0))) ::
      uFrom fl md step d1 (delta + corr fl md step (d1 - d0)) rest

/-- `unwrapSpec` as one pass over the input: no correction before the first sample -/
def unwrapSpecRec (fl : α → α) (maxDelta step : α) : List α → List α
  | [] => []
  | d0 :: rest => d0 :: uFrom fl maxDelta step d0 0 rest

/-- `fl` is a floor function: integer valued, `fl x ≤ x < fl x + 1`
    (hypothesis of the unwrap theorems; `Rat.floor` satisfies it) -/
def IsFloor [IntCast α] [LE α] (fl : α → α) : Prop :=
  ∀ x : α, (∃ k : Int, fl x = (k : α)) ∧ fl x ≤ x ∧ x < fl x + 1

/-- all adjacent pairs of a list satisfy `R` -/
def AdjAll (R : α → α → Prop) : List α → Prop
  | x :: y :: rest => R x y ∧ AdjAll R (y :: rest)
  | _ => True

end unwrap

/-! ### the `Rat` instances the driver runs -/
namespace R

def mavgSpec (size : Nat) (zero : Rat) (xs : List Rat) := C20.mavgSpec size zero xs
def mavgClosed (size : Nat) (zero : Rat) (xs : List Rat) := C20.mavgClosed size zero xs
def accSpec (xs : List Rat) := C20.accSpec xs
def amdfSpec (lag size : Nat) (zero : Rat) (xs : List Rat) := C20.amdfSpec lag size zero xs
def clipSpec (low high : Option Rat) (xs : List Rat) := C20.clipSpec low high xs
def zcrossSpec (h fs : Rat) (xs : List Rat) := C20.zcrossSpec h fs xs
def unwrapSpec (md step : Rat) (xs : List Rat) := C20.unwrapSpec fl md step xs

def mavgSpecRec (size : Nat) (zero : Rat) (xs : List Rat) := C20.mavgSpecRec size zero xs
def accSpecRec (xs : List Rat) := C20.accSpecRec xs
def amdfSpecRec (lag size : Nat) (zero : Rat) (xs : List Rat) := C20.amdfSpecRec lag size zero xs
def zcrossSpecRec (h fs : Rat) (xs : List Rat) := C20.zcrossSpecRec h fs xs
def unwrapSpecRec (md step : Rat) (xs : List Rat) := C20.unwrapSpecRec fl md step xs

end R

namespace F
def envelopeSpec (s : Option EnvStrategy) (cutoff : Option Float) (xs : List Float) :=
  C20.envelopeSpec s cutoff xs
def envelopeVarSpec (s : Option EnvStrategy) (cs xs : List Float) := C20.envelopeVarSpec s cs xs
end F

end ALV.C20
