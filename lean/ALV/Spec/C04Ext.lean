/-
  C04 — specification, part 3 (executable, Mathlib-free): what the documentation says about

  * constructor argument kinds: `Poly(None)` is the zero polynomial, `Poly(c)` the constant `c`,
    `Poly([c0, c1, …])` has `c_k` at power `k`, `Poly({k: c, …})` has `c` at power `k`
    (`CoefArg.coef`);
  * the FREE RESPONSE: a filter whose numerator is zero but which has feedback terms is not the
    all-zero filter: its output is the homogeneous recursion
          a0·y[n] = − Σ_{k≥1} a_k·y[n−k],   y[−k] = k-th item of the memory,
    which is non-zero as soon as the initial state is (memory items, or a non-null zero value when
    no memory is given) and does not depend on the input values at all (`freeResp`).
-/
import ALV.Model.C04Cx
import ALV.Spec.C04
import ALV.Spec.C04Hist
namespace ALV.C04
variable {α : Type}

/-- the polynomial a constructor argument denotes: coefficient of `z^-k` -/
def CoefArg.coef [OfNat α 0] : CoefArg α → Int → α
  | .none, _ => 0
  | .number c, k => if k = 0 then c else 0
  | .list l, k => if k < 0 then 0 else l.getD k.toNat 0
  | .dict p, k => coefLast p k      -- a dictionary: the last pair with that key wins; absent = 0

section free
variable [Add α] [Mul α] [Sub α] [Div α] [OfNat α 0]

/-- homogeneous recursion on the past outputs `hy` (most recent first), `n` steps -/
def freeResp (as : List α) (a0 : α) : List α → Nat → List α
  | _, 0 => []
  | hy, n + 1 =>
    let y := (0 - dot as hy) / a0
    y :: freeResp as a0 (y :: hy) n

end free

/-! ### histories over ℚ(i): the instances the driver entry "ghist" executes -/

/-- a history over the Gaussian rationals, as coded -/
def gaussHistModel (ops : List (HOp GRat)) : List (HObs GRat) := histModel ops

/-- … and as the property says -/
def gaussHistSpec (ops : List (HOp GRat)) : List (HObs GRat) := histSpec ops

end ALV.C04
