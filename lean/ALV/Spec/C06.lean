/-
  C06 — specification in the words of the property (executable, Mathlib-free).

  "When any coefficient of a causal filter is a Stream, output n uses each coefficient stream's
   n-th value:   a0[n]*y[n] = sum_k b_k[n]*x[n-k] - sum_{k>=1} a_k[n]*y[n-k],
   constants standing for constant streams; the output ends when the input or any coefficient
   stream ends.  Filter arithmetic on such filters acts on coefficient sequences element by
   element, a constant stream behaves like the constant, and every coefficient stream is read
   exactly once per output sample however many times the algebra used it."

  * `TVDiffEq`   — the first sentence, literally, as a predicate on an output list.
  * `tvspec`     — its unique solution over *unbounded* histories (nothing is shifted or
                   truncated, no iterator: the value for sample `n` is looked up at index `n`).
  * `endLen`     — "ends when the input or any coefficient stream ends".
  * `specCallTV` — the contract of `ZFilter(num, den)(x, memory, zero)` from raw
                   (power, coefficient) pairs.
  * `snap`       — the coefficient polynomial "at time n" (element by element reading of the
                   algebra clause: arithmetic on filters is arithmetic on these snapshots).
-/
import ALV.Model.C06
import ALV.Spec.C04
namespace ALV.C06
open ALV.C04
variable {α : Type}

section spec
variable [Add α] [Mul α] [Sub α] [Div α] [OfNat α 0]

/-- Time-varying difference equation with unbounded histories.  `n` = index of the next output;
`hy` = all previous outputs, most recent first, followed by the memory; `hx` = all previous
inputs, most recent first (`zero` before time 0).  Ends with the input or as soon as one
coefficient has no `n`-th value. -/
def tvspec (b as : List (Coef α)) (a0 : Coef α) (zero : α) :
    Nat → List α → List α → List α → List α
  | _, _, _, [] => []
  | n, hy, hx, x :: xs =>
    match row? b n, row? as n, a0.get? n with
    | some bn, some an, some g =>
      let y := (dot bn (takeP zero bn.length (x :: hx)) - dot an hy) / g
      y :: tvspec b as a0 zero (n + 1) (y :: hy) (x :: hx) xs
    | _, _, _ => []

/-- the value a coefficient contributes to output `n` (constants stand for constant streams) -/
def Coef.val (c : Coef α) (n : Nat) : α := (c.get? n).getD 0

/-- number of outputs: the input length, cut by every coefficient *stream*'s length -/
def endLen (n : Nat) : List (Coef α) → Nat
  | [] => n
  | .const _ :: cs => endLen n cs
  | .strm s :: cs => endLen (min n s.length) cs

/-- The property sentence: the output ends when the input or any coefficient stream ends, and at
every time `n` before that the difference equation holds with every coefficient's `n`-th value. -/
def TVDiffEq (b : List (Coef α)) (a0 : Coef α) (as : List (Coef α)) (zero : α)
    (mem xs ys : List α) : Prop :=
  ys.length = endLen xs.length (a0 :: (b ++ as)) ∧
  ∀ n : Nat, n < ys.length →
    a0.val n * yAt zero mem ys n =
      sigma b.length (fun k => (b.getD k 0).val n * xAt zero xs ((n : Int) - k))
      - sigma as.length (fun k => (as.getD k 0).val n * yAt zero mem ys ((n : Int) - (k + 1)))

end spec

section specCall
variable [Add α] [Mul α] [Sub α] [Div α] [OfNat α 0] [DecidableEq α]

/-- The whole contract, from the constructor arguments.  As in C04 the transfer function is first
rewritten so that the denominator starts at delay 0; a remaining negative delay ⇒ ValueError; the
all-zero filter (no stream, every constant zero besides the gain) outputs the zero value once per
input; otherwise the time-varying difference equation. -/
def specCallTV (num den : List (Int × Coef α)) (mem : Mem α) (zero : α) (xs : List α) :
    Except Err (List α) :=
  match listMin (keysNZ den) with
  | none => .error .valueError
  | some p =>
    if (keysNZ num).any (fun k => decide (k < p)) then .error .valueError
    else
      let b := coeffsFrom num p
      let a := coeffsFrom den p
      let a0 := coefLast den p
      let as := a.tail
      if b.all (fun c => c == 0) ∧ as.all (fun c => c == 0) then .ok (xs.map fun _ => zero)
      else .ok (tvspec b as a0 zero 0 (specMem zero as.length mem) [] xs)

/-- The contract over a two-call history of ONE filter object (first output consumed to its end,
then the second call): a coefficient Stream is an iterator the filter owns, so the second call
goes on with each coefficient stream where the first call stopped reading — "output n uses each
coefficient stream's n-th value" with the streams' own numbering continued; memory, zero value and
input are those of the second call.  If the first output was ended by a coefficient stream, that
stream has ended: so does the second output, at once.  A refused call changes nothing. -/
def specCallTwice (num den : List (Int × Coef α)) (mem1 : Mem α) (zero1 : α) (xs1 : List α)
    (mem2 : Mem α) (zero2 : α) (xs2 : List α) : Except Err (List α) × Except Err (List α) :=
  let r1 := specCallTV num den mem1 zero1 xs1
  let r2 : Except Err (List α) :=
    match r1 with
    | .error e => .error e
    | .ok ys =>
      if ys.length = xs1.length then
        specCallTV (num.map fun kv => (kv.1, kv.2.dropC xs1.length))
          (den.map fun kv => (kv.1, kv.2.dropC xs1.length)) mem2 zero2 xs2
      else .ok []
  (r1, r2)

end specCall

/-! ### the algebra clause: snapshots -/
section snap
variable [OfNat α 0]

/-- the coefficient polynomial at time `n`: every Stream coefficient replaced by its `n`-th item -/
def snap (n : Nat) (p : List (Int × Coef α)) : List (Int × α) :=
  p.map (fun kv => (kv.1, kv.2.val n))

/-- time `n` is inside every Stream coefficient of `p` -/
def Coef.defined (n : Nat) : Coef α → Prop
  | .const _ => True
  | .strm s => n < s.length

def polyDefined (n : Nat) (p : List (Int × Coef α)) : Prop := ∀ kv ∈ p, kv.2.defined n

end snap

end ALV.C06
