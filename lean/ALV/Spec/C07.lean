/-
  C07 — specification in the words of the property (executable, Mathlib-free).

  A Poly denotes the finitely supported coefficient function `coeff p : ℤ → α`
  (a Laurent polynomial).  The ring operations, evaluation and calculus are
  given *coefficient-wise* (sum, convolution, Σ c·v^k, (k+1)·c_{k+1}, c_{k-1}/k)
  and a result is reported in canonical form: powers ascending, no zero stored.
  `Lemmas/C07Spec.lean` ties these definitions to Mathlib's ring `K[T;T⁻¹]`
  (`toLaurent (sAdd p q) = toLaurent p + toLaurent q`, …), which is the
  specification that the theorems of `Props/C07.lean` are stated against.
-/
import ALV.Model.C07
namespace ALV.C07
variable {α : Type} [Add α] [Mul α] [Sub α] [Neg α] [Div α] [OfNat α 0] [OfNat α 1] [DecidableEq α]

/-- the coefficient of `x^k` denoted by a list of terms (all entries of power `k` summed) -/
def coeff : List (Int × α) → Int → α
  | [], _ => 0
  | (k', c) :: t, k => if k' = k then c + coeff t k else coeff t k

/-- insert a key into an ascending duplicate-free list -/
def insertKey (k : Int) : List Int → List Int
  | [] => [k]
  | a :: t => if k < a then k :: a :: t else if k = a then a :: t else a :: insertKey k t

/-- ascending candidate support without repetitions -/
def sortedKeys (ks : List Int) : List Int := ks.foldr insertKey []

/-- canonical form of the function `f` whose support is inside `ks` -/
def canonOn (ks : List Int) (f : Int → α) : List (Int × α) :=
  ((sortedKeys ks).map (fun k => (k, f k))).filter (fun kc => !decide (kc.2 = 0))

/-- canonical form of what a term list denotes: this is `sorted(dict(p.terms()).items())` -/
def canon (p : List (Int × α)) : List (Int × α) := canonOn (keys p) (coeff p)

def sumL (l : List α) : α := l.foldr (fun a s => a + s) 0

def sAdd (p q : List (Int × α)) := canonOn (keys p ++ keys q) (fun k => coeff p k + coeff q k)
def sNeg (p : List (Int × α)) := canonOn (keys p) (fun k => -coeff p k)
def sSub (p q : List (Int × α)) := canonOn (keys p ++ keys q) (fun k => coeff p k - coeff q k)

/-- convolution: `(p q)_k = Σ_i p_i · q_{k-i}` -/
def sMul (p q : List (Int × α)) :=
  canonOn (p.flatMap fun a => q.map fun b => a.1 + b.1)
    (fun k => sumL (p.map fun a => a.2 * coeff q (k - a.1)))

def sConst (c : α) : List (Int × α) := canonOn [0] (fun k => if k = 0 then c else 0)

/-- `p^n` is the n-fold product -/
def sPow (p : List (Int × α)) : Nat → List (Int × α)
  | 0 => sConst 1
  | n + 1 => sMul (sPow p n) p

/-- integer powers: negative ones only of a monomial `c·x^d` (a unit of the Laurent ring) -/
def sPowZ (p : List (Int × α)) (n : Int) : Option (List (Int × α)) :=
  if 0 ≤ n then some (sPow p n.toNat)
  else match canon p with
    | [(d, c)] => some (canon [(d * n, powInt c n)])
    | _ => none

/-- `p(v) = Σ c_k · v^k` -/
def sEval (p : List (Int × α)) (v : α) : α := sumL (p.map fun a => a.2 * powInt v a.1)

/-- `p(q) = Σ c_k · q^k` (substitution) -/
def sComp (p q : List (Int × α)) : Option (List (Int × α)) :=
  (canon p).foldr (fun a acc => do
      let s ← acc
      let qk ← sPowZ q a.1
      pure (sAdd (sMul (sConst a.2) qk) s)) (some [])

/-- `(p')_k = (k+1) · p_{k+1}` -/
def sDiff (p : List (Int × α)) :=
  canonOn ((keys p).map (· - 1)) (fun k => ofIntA (k + 1) * coeff p (k + 1))

def sDiffN (p : List (Int × α)) : Nat → List (Int × α)
  | 0 => canon p
  | n + 1 => sDiff (sDiffN p n)

/-- `(∫p)_k = p_{k-1} / k` (defined when `p_{-1} = 0`) -/
def sInteg (p : List (Int × α)) : Option (List (Int × α)) :=
  if coeff p (-1) = 0 then
    some (canonOn ((keys p).map (· + 1)) (fun k => if k = 0 then 0 else coeff p (k - 1) / ofIntA k))
  else none

/-- division by a unit of the Laurent ring (a non-zero monomial `w·x^d`) -/
def sDivMono (p : List (Int × α)) (d : Int) (w : α) : List (Int × α) :=
  canonOn ((keys p).map (· - d)) (fun k => coeff p (k + d) / w)

/-- `==` is equality of the denoted Laurent polynomials -/
def sEq (p q : List (Int × α)) : Bool := canon p == canon q

/-- The Lagrange interpolator passes through its points: the values an
    interpolator must return at the abscissae are the ordinates. -/
def sLagrangeAtNodes (pairs : List (α × α)) : List α := pairs.map (·.2)

/-- distinct abscissae — the property's precondition on the point set -/
def distinctX (pairs : List (α × α)) : Bool :=
  match pairs with
  | [] => true
  | a :: t => t.all (fun b => !decide (a.1 = b.1)) && distinctX t

end ALV.C07
