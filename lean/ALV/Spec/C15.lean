/-
  C15 — specification (property shaped).  Mathlib-free; executable.

  "A MultiKeyDict behaves as a key -> value map in which keys holding equal values are grouped."
  The abstract state is exactly that map: a `Log` = list of live bindings `(key, value)`, every
  key at most once, ordered by the time of the key's most recent assignment (oldest first).

    d[keys] = v   removes the bindings of `keys` and appends `(k, v)` for every `k` of `keys`
                  (a key given twice counts at its last position)
    del d[k]      removes the binding of `k`; `KeyError` when there is none
    d[k]          the value bound to `k`; `KeyError` when there is none
    an operation that raises (missing key, unhashable key or value) changes nothing
    value2keys v  the keys bound to `v`, in order of most recent assignment
    key2keys k    `value2keys (d[k])`
    values        every bound value once;   len = how many values;   key tuples = one per value

  StrategyDict adds the attribute map (`name -> value`) and the default strategy.
-/
import ALV.Model.C15
namespace ALV.C15

section MK
variable {K V : Type} [DecidableEq K] [DecidableEq V]

/-- keep the last occurrence of every element, preserving order -/
def dedupLast : List K → List K
  | [] => []
  | k :: r => if k ∈ r then dedupLast r else k :: dedupLast r

abbrev Log (K V : Type) := List (K × V)

/-- the keys bound to `v`, least recently assigned first -/
def keysOf (l : Log K V) (v : V) : List K := (l.filter (fun e => e.2 = v)).map (·.1)

def specGet (l : Log K V) (k : K) : Option V := dget l k

def specSet (l : Log K V) (keys : List K) (v : V) : Log K V :=
  l.filter (fun e => e.1 ∉ keys) ++ (dedupLast keys).map (fun k => (k, v))

/-- `none` = `KeyError` -/
def specDel (l : Log K V) (k : K) : Option (Log K V) :=
  if dhas l k then some (l.filter (fun e => e.1 ≠ k)) else none

def specKey2keys (l : Log K V) (k : K) : Option (List K) := (dget l k).map (keysOf l)

/-- every bound value exactly once -/
def specValues (l : Log K V) : List V := dedupLast (l.map (·.2))

def specLen (l : Log K V) : Nat := (specValues l).length

/-- one key tuple per value -/
def specItems (l : Log K V) : List (List K × V) := (specValues l).map (fun v => (keysOf l v, v))

/-- lookup by a whole key tuple: the value whose tuple it is -/
def specGetT (l : Log K V) (t : List K) : Option V := (specValues l).find? (fun v => keysOf l v = t)

def specStep (l : Log K V) : Op K V → Log K V × Res K V
  | .set keys v => (specSet l keys v, .done)
  | .del k => match specDel l k with
      | some l' => (l', .done)
      | none => (l, .keyError)
  | .get k => (l, .ofVal (specGet l k))
  | .getT t => (l, .ofVal (specGetT l t))
  | .key2keys k => (l, .ofKeys (specKey2keys l k))
  | .value2keys v => (l, .keys (keysOf l v))
  | .len => (l, .num (specLen l))
  -- an operation that raises assigns nothing: the map is what it was
  | .setUnhashable _ => (l, .rejected)
  | .setBadKey _ _ _ => (l, .rejected)
  | .badOperand => (l, .rejected)
  | .const r => (l, r)
  -- the inherited `in` / `get` see the key tuples: a tuple is "in" the dict when it is the whole
  -- key tuple of a value
  | .contains t => (l, .bool (specGetT l t).isSome)
  | .dictGet t => (l, Res.orNone (specGetT l t))

def specRun : Log K V → List (Op K V) → Log K V × List (Res K V)
  | l, [] => (l, [])
  | l, op :: ops =>
    let r := specStep l op
    let t := specRun r.1 ops
    (t.1, r.2 :: t.2)

/-- "d[k] is the last value assigned to k", read off the history alone: the value of the last
    assignment whose tuple contains `k`, unless `k` was deleted afterwards -/
def lastAssigned (k : K) : List (Op K V) → Option V → Option V
  | [], cur => cur
  | .set keys v :: ops, cur => lastAssigned k ops (if k ∈ keys then some v else cur)
  | .del k' :: ops, cur => lastAssigned k ops (if k' = k then none else cur)
  | _ :: ops, cur => lastAssigned k ops cur

/-- **Coherence of the three maps** (the invariant of every reachable `MultiKeyDict`). -/
structure Inv (s : St K V) : Prop where
  /-- one entry, hence one key tuple, per value -/
  invNodup : (s.invDict.map (·.1)).Nodup
  /-- the storage is `_inv_dict` read backwards, entry by entry -/
  storeEq : s.store = s.invDict.map (fun e => (e.2, e.1))
  /-- no value without keys -/
  tupNe : ∀ e ∈ s.invDict, e.2 ≠ []
  /-- no key twice in a tuple -/
  tupNodup : ∀ e ∈ s.invDict, e.2.Nodup
  /-- the key tuples partition the keys: a key lies in one tuple only -/
  disj : ∀ e ∈ s.invDict, ∀ e' ∈ s.invDict, ∀ k, k ∈ e.2 → k ∈ e'.2 → e = e'
  /-- `_keys_dict` maps exactly the keys of every tuple to that tuple -/
  keys : ∀ k t, dget s.keysDict k = some t ↔ ∃ v, (v, t) ∈ s.invDict ∧ k ∈ t
  /-- `_keys_dict` has one entry per key -/
  keysNodup : (s.keysDict.map (·.1)).Nodup

/-- the three-map state `s` represents the abstract map `l`: it is coherent and every value owns
    the tuple of its keys in the order of `l` (most recent assignment last) -/
structure Rep (s : St K V) (l : Log K V) : Prop where
  inv : Inv s
  logNodup : (l.map (·.1)).Nodup
  groups : ∀ v, value2keys s v = keysOf l v

/-- the canonical abstract map of a state: the tuples of `_inv_dict` laid out one after the other -/
def absLog (s : St K V) : Log K V := s.invDict.flatMap (fun e => e.2.map (fun k => (k, e.1)))

/-- two abstract maps are the same map with the same grouping -/
def Log.equiv (l l' : Log K V) : Prop := ∀ v, keysOf l v = keysOf l' v

end MK

/-! ## StrategyDict -/

structure SDSpec (K V : Type) where
  log : Log K V := []
  /-- instance attributes named like strategy names -/
  attr : Dict K V := []
  /-- the instance's `default`; `none` = not chosen (the class-level `NotImplemented` lambda) -/
  default : Option V := none

section SD
variable {K V : Type} [DecidableEq K] [DecidableEq V]

/-- value `w` is stored and every one of its names is in `keys` -/
def losesAllNames (l : Log K V) (w : V) (keys : List K) : Bool :=
  keysOf l w ≠ [] ∧ ∀ k ∈ keysOf l w, k ∈ keys

/-- `sd[keys] = v`: the map is assigned; every name of `keys` becomes an attribute equal to `v`;
    the default is kept unless it loses all its names (or there is none), then it is `v` -/
def sdSpecSet (g : SDSpec K V) (keys : List K) (v : V) : SDSpec K V :=
  { log := specSet g.log keys v
    attr := keys.foldl (fun a k => dset a k v) g.attr
    default := match g.default with
      | none => some v
      | some w => if losesAllNames g.log w keys then some v else some w }

/-- `del sd[k]`: the binding goes, the attribute goes when it still equals the item, the
    default goes when `k` was its last name -/
def sdSpecDel (g : SDSpec K V) (k : K) : Option (SDSpec K V) :=
  match dget g.log k with
  | none => none
  | some w => some
    { log := g.log.filter (fun e => e.1 ≠ k)
      attr := if dget g.attr k = some w then derase g.attr k else g.attr
      default := if g.default = some w ∧ keysOf g.log w = [k] then none else g.default }

def sdSpecDelattr (g : SDSpec K V) : Option K → Except Err (SDSpec K V)
  | none => match g.default with
      | none => .error .attr
      | some _ => .ok { g with default := none }
  | some k =>
    match dget g.log k, dget g.attr k with
    | none, none => .error .attr
    | none, some _ => .ok { g with attr := derase g.attr k }
    | some _, none => .error .attr
    | some w, some a =>
      if w = a then (match sdSpecDel g k with | some g' => .ok g' | none => .error .key)
      else .ok { g with attr := dset g.attr k w }

def Res.ofExceptSpec (g : SDSpec K V) : Except Err (SDSpec K V) → SDSpec K V × Res K V
  | .ok g' => (g', .done)
  | .error .key => (g, .keyError)
  | .error .attr => (g, .attrError)

def sdSpecStep (g : SDSpec K V) : SOp K V → SDSpec K V × Res K V
  | .set keys v => (sdSpecSet g keys v, .done)
  | .del k => match sdSpecDel g k with
      | some g' => (g', .done)
      | none => (g, .keyError)
  | .get k => (g, .ofVal (specGet g.log k))
  | .getattr name => (g, match dget g.attr name with
      | some v => .val v
      | none => .attrError)
  | .setattr none v => ({ g with default := some v }, .done)
  | .setattr (some k) v => ({ g with attr := dset g.attr k v }, .done)
  | .delattr a => Res.ofExceptSpec g (sdSpecDelattr g a)
  | .default => (g, .ofDefault g.default)
  | .call => (g, .ofDefault g.default)
  | .len => (g, .num (specLen g.log))
  -- an operation that raises changes nothing: map, attributes and default are what they were
  | .setRefused _ => (g, .rejected)
  | .rejected => (g, .rejected)
  | .const r => (g, r)
  | .getT t => (g, .ofVal (specGetT g.log t))
  | .contains t => (g, .bool (specGetT g.log t).isSome)
  | .dictGet t => (g, Res.orNone (specGetT g.log t))

def sdSpecRun : SDSpec K V → List (SOp K V) → SDSpec K V × List (Res K V)
  | g, [] => (g, [])
  | g, op :: ops =>
    let r := sdSpecStep g op
    let t := sdSpecRun r.1 ops
    (t.1, r.2 :: t.2)

/-- "sd[k] is the last strategy assigned to the name k", read off a StrategyDict history alone: the
    strategy of the last assignment (that did not raise) whose names contain `k`, unless `k` was deleted
    afterwards.  (A deletion through the attribute, `del sd.k`, is state dependent — it removes the item
    only when attribute and item are equal — and is excluded by hypothesis where this is used.) -/
def sdLastAssigned (k : K) : List (SOp K V) → Option V → Option V
  | [], cur => cur
  | .set keys v :: ops, cur => sdLastAssigned k ops (if k ∈ keys then some v else cur)
  | .del k' :: ops, cur => sdLastAssigned k ops (if k' = k then none else cur)
  | _ :: ops, cur => sdLastAssigned k ops cur

/-- the StrategyDict state `s` represents the abstract state `g` -/
structure SDRep (s : SD K V) (g : SDSpec K V) : Prop where
  rep : Rep s.mkd g.log
  attr : ∀ k, dget s.attrs (some k) = dget g.attr k
  dflt : dget s.attrs none = g.default

end SD
end ALV.C15
