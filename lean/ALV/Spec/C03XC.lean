/-
  C03 — raising elements WITH copies: the specification.

  Without copies a Stream denotes a list of events (`Spec/C03X.lean`).  With copies that is no longer
  possible: `itertools.tee` hands an exception of its source to the ONE copy that reaches it first and
  does not store it, so what a copy will still deliver depends on what the other copies do before.
  The specification keeps the list of events wherever nothing is shared and makes the sharing
  explicit where it is:

  * `evs es`      — nothing below is shared: the Stream IS the list of events `es`; every method is the
                    list function of `Spec/C03X.lean` (`mapE`, `filterE`, `++`, `limE`, `skipE`);
  * `view k pos`  — a reader of the shared sequence `k`, `pos` items behind its start;
  * a wrapper is kept as a wrapper only over something shared (the smart constructors `SIt.mapS` …
    fold it into the list as soon as nothing shared is left below).

  A shared sequence (`SHub`) is what it still has to deliver (`parent` — a list of events when
  nothing below is shared) and the ITEMS delivered so far (`buf`).  A reader behind the front gets the
  stored item; a reader at the front takes the head event of `parent` for everybody: an item is appended
  to `buf` (every other reader will see it), an exception is delivered to this reader only and is
  gone — the "already delivered" exceptions of a shared sequence are exactly the ones no longer in
  `parent`.
-/
import ALV.Spec.C03X
namespace ALV.C03
variable {α : Type}

inductive SIt (α : Type) where
  | evs (es : List (Ev α))
  | view (k : Nat) (pos : Nat)
  | map (f : α → Ev α) (t : SIt α)
  | filter (p : α → Ev Bool) (t : SIt α)
  | chain (a b : SIt α)
  | islice (n : Nat) (t : SIt α)
  | skipper (n : Nat) (t : SIt α)

structure SHub (α : Type) where
  parent : SIt α
  buf : List α

abbrev SHeap (α : Type) := List (SHub α)

def SIt.mapS (f : α → Ev α) : SIt α → SIt α
  | .evs es => .evs (mapE f es)
  | t => .map f t

def SIt.filterS (p : α → Ev Bool) : SIt α → SIt α
  | .evs es => .evs (filterE p es)
  | t => .filter p t

def SIt.chainS : SIt α → SIt α → SIt α
  | .evs xs, .evs ys => .evs (xs ++ ys)
  | a, b => .chain a b

def SIt.isliceS (n : Nat) : SIt α → SIt α
  | .evs es => .evs (limE n es)
  | t => .islice n t

def SIt.skipperS (n : Nat) : SIt α → SIt α
  | .evs es => .evs (skipE n es)
  | t => .skipper n t

/-- `next`: on a list of events its head; on a reader of a shared sequence the stored item or the head
    event of the shared sequence; on a wrapper over something shared what CPython's wrapper does with
    the three outcomes (map / filter / chain go on after an exception, islice / a generator are
    finished by it).  `none`: fuel exhausted. -/
def snext : Nat → SHeap α → SIt α → Option (SHeap α × SIt α × Res α)
  | 0, _, _ => none
  | _ + 1, h, .evs [] => some (h, .evs [], .stop)
  | _ + 1, h, .evs (.ok v :: r) => some (h, .evs r, .item v)
  | _ + 1, h, .evs (.error e :: r) => some (h, .evs r, .raise e)
  | f + 1, h, .view k pos =>
    match h[k]? with
    | none => some (h, .view k pos, .stop)
    | some hub =>
      match hub.buf[pos]? with
      | some v => some (h, .view k (pos + 1), .item v)
      | none =>
        match snext f h hub.parent with
        | none => none
        | some (h', p', .stop) => some (h'.set k ⟨p', hub.buf⟩, .view k pos, .stop)
        | some (h', p', .raise e) => some (h'.set k ⟨p', hub.buf⟩, .view k pos, .raise e)   -- delivered once
        | some (h', p', .item v) => some (h'.set k ⟨p', hub.buf ++ [v]⟩, .view k (pos + 1), .item v)
  | f + 1, h, .map g t =>
    match snext f h t with
    | none => none
    | some (h', t', .stop) => some (h', t'.mapS g, .stop)
    | some (h', t', .raise e) => some (h', t'.mapS g, .raise e)
    | some (h', t', .item v) =>
      match g v with
      | .ok w => some (h', t'.mapS g, .item w)
      | .error e => some (h', t'.mapS g, .raise e)
  | f + 1, h, .filter p t =>
    match snext f h t with
    | none => none
    | some (h', t', .stop) => some (h', t'.filterS p, .stop)
    | some (h', t', .raise e) => some (h', t'.filterS p, .raise e)
    | some (h', t', .item v) =>
      match p v with
      | .error e => some (h', t'.filterS p, .raise e)
      | .ok true => some (h', t'.filterS p, .item v)
      | .ok false => snext f h' (t'.filterS p)
  | f + 1, h, .chain a b =>
    match snext f h a with
    | none => none
    | some (h', a', .item v) => some (h', a'.chainS b, .item v)
    | some (h', a', .raise e) => some (h', a'.chainS b, .raise e)
    | some (h', _, .stop) => snext f h' b
  | _ + 1, h, .islice 0 _ => some (h, .evs [], .stop)
  | f + 1, h, .islice (n + 1) t =>
    match snext f h t with
    | none => none
    | some (h', _, .stop) => some (h', .evs [], .stop)
    | some (h', _, .raise e) => some (h', .evs [], .raise e)
    | some (h', t', .item v) => some (h', t'.isliceS n, .item v)
  | f + 1, h, .skipper 0 t =>
    match snext f h t with
    | none => none
    | some (h', _, .stop) => some (h', .evs [], .stop)
    | some (h', _, .raise e) => some (h', .evs [], .raise e)
    | some (h', t', .item v) => some (h', t'.skipperS 0, .item v)
  | f + 1, h, .skipper (n + 1) t =>
    match snext f h t with
    | none => none
    | some (h', _, .stop) => some (h', .evs [], .stop)
    | some (h', _, .raise e) => some (h', .evs [], .raise e)
    | some (h', t', .item _) => snext f h' (t'.skipperS n)

/-- `take(n)`: up to `n` items, or the first exception that reaches the reader -/
def stakeN (f : Nat) : Nat → SHeap α → SIt α → Option (SHeap α × SIt α × Except String (List α))
  | 0, h, t => some (h, t, .ok [])
  | n + 1, h, t =>
    match snext f h t with
    | none => none
    | some (h', t', .stop) => some (h', t', .ok [])
    | some (h', t', .raise e) => some (h', t', .error e)
    | some (h', t', .item v) =>
      match stakeN f n h' t' with
      | none => none
      | some (h'', t'', .ok vs) => some (h'', t'', .ok (v :: vs))
      | some (h'', t'', .error e) => some (h'', t'', .error e)

def sdrain (f : Nat) : Nat → SHeap α → SIt α → Option (SHeap α × SIt α × Except String (List α))
  | 0, _, _ => none
  | g + 1, h, t =>
    match snext f h t with
    | none => none
    | some (h', t', .stop) => some (h', t', .ok [])
    | some (h', t', .raise e) => some (h', t', .error e)
    | some (h', t', .item v) =>
      match sdrain f g h' t' with
      | none => none
      | some (h'', t'', .ok vs) => some (h'', t'', .ok (v :: vs))
      | some (h'', t'', .error e) => some (h'', t'', .error e)

def stakeIt (f : Nat) (h : SHeap α) (t : SIt α) (c : Cnt) : Option (SHeap α × SIt α × Obs α) :=
  match takeMode c with
  | .one =>
    match snext f h t with
    | none => none
    | some (h', t', .stop) => some (h', t', .err "StopIteration")
    | some (h', t', .raise e) => some (h', t', .err e)
    | some (h', t', .item v) => some (h', t', .item v)
  | .all => (sdrain f f h t).map fun (h', t', r) => (h', t', obsOf r)
  | .n k => (stakeN f k h t).map fun (h', t', r) => (h', t', obsOf r)

structure SSt (α : Type) where
  heap : SHeap α
  pool : List (Option (SIt α))

/-- `copy` / `tee`: what the Stream denoted becomes a shared sequence with nothing delivered yet; the
    Stream and its copy are two readers at its start -/
def sshare (h : SHeap α) (t : SIt α) : SHeap α × SIt α :=
  (h ++ [⟨t, []⟩], .view h.length 0)

def sstep (f : Nat) (st : SSt α) : XOp α → Option (SSt α × Obs α)
  | .new es => some (⟨st.heap, st.pool ++ [some (.evs es)]⟩, .new st.pool.length)
  | .take i c =>
    match st.pool[i]? with
    | some (some t) => (stakeIt f st.heap t c).map fun (h', t', o) => (⟨h', st.pool.set i (some t')⟩, o)
    | _ => some (st, .err "noobj")
  | .next i =>
    match st.pool[i]? with
    | some (some t) => (stakeIt f st.heap t .none).map fun (h', t', o) => (⟨h', st.pool.set i (some t')⟩, o)
    | _ => some (st, .err "noobj")
  | .drain i =>
    match st.pool[i]? with
    | some (some t) => (stakeIt f st.heap t .inf).map fun (h', t', o) => (⟨h', st.pool.set i (some t')⟩, o)
    | _ => some (st, .err "noobj")
  | .peek i c =>
    -- `self.copy().take(n)`: the Stream becomes a reader of the shared sequence; the temporary reader is dropped
    match st.pool[i]? with
    | some (some t) =>
      let (h1, v) := sshare st.heap t
      (stakeIt f h1 v c).map fun (h', _, o) => (⟨h', st.pool.set i (some v)⟩, o)
    | _ => some (st, .err "noobj")
  | .copy i =>
    match st.pool[i]? with
    | some (some t) =>
      let (h1, v) := sshare st.heap t
      some (⟨h1, st.pool.set i (some v) ++ [some v]⟩, .new st.pool.length)
    | _ => some (st, .err "noobj")
  | .skip i n =>
    match st.pool[i]? with
    | some (some t) => some (⟨st.heap, st.pool.set i (some (t.skipperS n))⟩, .unit)
    | _ => some (st, .err "noobj")
  | .limit i n =>
    match st.pool[i]? with
    | some (some t) => some (⟨st.heap, st.pool.set i (some (t.isliceS n))⟩, .unit)
    | _ => some (st, .err "noobj")
  | .append i es =>
    match st.pool[i]? with
    | some (some t) => some (⟨st.heap, st.pool.set i (some (t.chainS (.evs es)))⟩, .unit)
    | _ => some (st, .err "noobj")
  | .map i g =>
    match st.pool[i]? with
    | some (some t) => some (⟨st.heap, st.pool.set i (some (t.mapS g))⟩, .unit)
    | _ => some (st, .err "noobj")
  | .filter i p =>
    match st.pool[i]? with
    | some (some t) => some (⟨st.heap, st.pool.set i (some (t.filterS p))⟩, .unit)
    | _ => some (st, .err "noobj")
  | .attr i g =>
    match st.pool[i]? with
    | some (some t) => some (⟨st.heap, st.pool.set i none ++ [some (t.mapS g)]⟩, .new st.pool.length)
    | _ => some (st, .err "noobj")
  | .nextAttr i =>
    match st.pool[i]? with
    | some (some _) => some (st, .err "AttributeError")
    | _ => some (st, .err "noobj")
  | .skipBad i e =>
    match st.pool[i]? with
    | some (some _) => some (⟨st.heap, st.pool.set i (some (.evs [.error e]))⟩, .unit)
    | _ => some (st, .err "noobj")

def srun (f : Nat) : SSt α → List (XOp α) → List (Option (Obs α))
  | _, [] => []
  | st, op :: ops =>
    match sstep f st op with
    | none => [none]
    | some (st', o) => some o :: srun f st' ops

def SSt.empty : SSt α := ⟨[], []⟩

/-- what the reader `pos` items behind the start of a shared sequence (items delivered so far `buf`, events
    still to deliver `es`) has in front of it: the stored items it has not read yet, then `es` -/
def viewOf (es : List (Ev α)) (buf : List α) (pos : Nat) : List (Ev α) := (buf.drop pos).map Except.ok ++ es

/-- a pool in which nothing is shared is a pool of event lists -/
def SSt.lists (st : SSt α) : XPool α :=
  st.pool.map fun x => match x with
    | some (.evs es) => some es
    | _ => none

end ALV.C03
