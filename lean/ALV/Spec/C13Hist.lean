/-
  C13 — histories of designs sharing parameter objects: the specification (property shaped).

  What a `take` step must show is stated WITHOUT any running state, from the steps before it
  (`past`, most recent first):

    * a number parameter is itself;
    * a pool object (Stream / generator / iterator) gives value number
        #(arguments naming it in the `take` steps of the past)  (+1 for a second argument naming
        the same object in this very call, read after the first);
    * a tee object (list / tuple / caller's tee hub) gives value number
        #(`take j` steps of the past)   — every design reads it from the start, on its own;
    * a control gives the value of the last `set` in the past (else its initial value);

  and the coefficients of the instant are the constant design `designOf kind v1 v2` of these two
  values ("sample by sample equal to the constant design").  The caller's objects afterwards: see
  `callerSpec`.
-/
import ALV.Model.C13Hist
namespace ALV.C13
open ALV

section generic
variable {α : Type} [TrigField α] [ZeroTest α]

def b2n (b : Bool) : Nat := if b then 1 else 0

/-- how many values the `take` steps of `past` pulled from heap object `i` -/
def drawsOf (dsgs : List (Dsg α)) (i : Nat) : List (HOp α) → Nat
  | [] => 0
  | .take j :: past =>
    let d := dsgs.getD j emptyDsg
    drawsOf dsgs i past + b2n (d.p1.isSrc i) + b2n (d.p2.isSrc i)
  | _ :: past => drawsOf dsgs i past

/-- how many instants of design `j` the past produced -/
def takesOf (j : Nat) : List (HOp α) → Nat
  | [] => 0
  | .take k :: past => takesOf j past + (if j = k then 1 else 0)
  | _ :: past => takesOf j past

/-- the value last assigned to control `i` -/
def lastSet (i : Nat) : List (HOp α) → Option α
  | [] => none
  | .set k v :: past => if i = k then some v else lastSet i past
  | _ :: past => lastSet i past

/-- the value argument `p` of design `j` has after `past`; `extra` = draws made earlier in the
same call -/
def parValue (srcs : List (Src α)) (dsgs : List (Dsg α)) (past : List (HOp α)) (j : Nat) (extra : Nat) :
    Par α → α
  | .const v => v
  | .src i =>
    let s := srcs.getD i emptySrc
    match s.flav with
    | .pool => cyc s.vals (drawsOf dsgs i past + extra)
    | .tee => cyc s.vals (takesOf j past)
    | .ctrl => (lastSet i past).getD (cyc s.vals 0)

/-- does the first argument `p` name the same object as the second `q`?  (then the second reads
one pull later) -/
def sameObj (p q : Par α) : Nat :=
  match q with
  | .const _ => 0
  | .src i => b2n (p.isSrc i)

/-- what the step `op` must show after `past` -/
def obsSpec (srcs : List (Src α)) (dsgs : List (Dsg α)) (past : List (HOp α)) : HOp α → Option (Emit α)
  | .take j =>
    let d := dsgs.getD j emptyDsg
    let v1 := parValue srcs dsgs past j 0 d.p1
    let v2 := parValue srcs dsgs past j (sameObj d.p1 d.p2) d.p2
    some ⟨v1, v2, designOf d.kind v1 v2⟩
  | _ => none

def specFrom (srcs : List (Src α)) (dsgs : List (Dsg α)) (past : List (HOp α)) : List (HOp α) → List (Option (Emit α))
  | [] => []
  | op :: ops => obsSpec srcs dsgs past op :: specFrom srcs dsgs (op :: past) ops

/-- the observations a history must show, one per step -/
def histSpec (srcs : List (Src α)) (dsgs : List (Dsg α)) (ops : List (HOp α)) : List (Option (Emit α)) :=
  specFrom srcs dsgs [] ops

/-- what the caller's object `i` must yield next after the whole history `past` (reversed) -/
def callerSpec (srcs : List (Src α)) (dsgs : List (Dsg α)) (past : List (HOp α)) (i n : Nat) : List α :=
  let s := srcs.getD i emptySrc
  match s.flav with
  | .pool => (List.range n).map fun k => cyc s.vals (drawsOf dsgs i past + k)
  | .tee => (List.range n).map fun k => cyc s.vals k
  | .ctrl => List.replicate n ((lastSet i past).getD (cyc s.vals 0))

/-- the value a step assigns to control `i`, if it does -/
def setVal (i : Nat) : HOp α → Option α
  | .set k v => if i = k then some v else none
  | _ => none

/-- every value a parameter can ever take in a history: the number itself, or any value of the
object, or any value assigned to it -/
def parVals (srcs : List (Src α)) (ops : List (HOp α)) : Par α → List α
  | .const v => [v]
  | .src i => (srcs.getD i emptySrc).vals ++ ops.filterMap (setVal i)

end generic
end ALV.C13
