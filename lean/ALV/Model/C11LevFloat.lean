/-
  C11 — the float regime of `levinson_durbin`.  Mathlib-free; executable.

  The recursion of `ALV/Model/C11.lean` (`inner`, `levStep`, `levLoop`, `levinson`) once more,
  parameterised by the SUMMATION function: the code says

      def inner(a, b): return sum(acdata[abs(i-j)] * ai * bj for i, ai in … for j, bj in …)

  and the builtin `sum` of CPython ≥ 3.12 is NOT the left fold `((0 + t₀) + t₁) + …` on floats: it
  is Neumaier's compensated summation (`Python/bltinmodule.c`, `builtin_sum_impl`):

      f = 0.0; c = 0.0
      for x in items:
          t = f + x
          if fabs(f) >= fabs(x): c += (f - t) + x
          else:                  c += (x - t) + f
          f = t
      if c and isfinite(c): f += c
      return f

  (the first float item is added to the int `0` by the generic `+`, which is the first pass of this
  loop: `t = x`, `c += (x - x) + 0`).  Measured on /repo with CPython 3.12.1: the left fold
  reproduces 28 % of random `levinson_durbin` results bit for bit, the compensated sum all of them.

  `levinsonG lsum = levinson` on every carrier and `levinsonG (sumPyG fin) = levinson` over every
  field (the compensation term is identically zero in exact arithmetic) are theorems
  (`Lemmas/C11LevFloat.lean`), so the generic definitions below ARE the model the theorems talk
  about; the driver runs them on `F64` with `sum = sumPyG F64.isFinite`.

  The other operations, in the code's order (read from `lazy_lpc.py`, `lazy_filters.py`,
  `lazy_poly.py`):
    term of the sum                           → `(acdata[|i-j|] * ai) * bj`, i outer, j inner
    `B = A(1/z) * z ** -m`                    → reversal around `m` (no arithmetic)
    `inner(A, z ** -m) / inner(B, B)`         → one division, `ZeroDivisionError` iff `⟨B,B⟩ == 0`
    `A -= q * B`                              → `a + (-(q * b))` = `a - q * b` per coefficient
    `A.error = inner(A, A)`
  Absent powers are read as the Poly zero `0.`; `x * 0.0 = ±0.0` and `s + (±0.0) = s` are exact, so
  the dense lists of the model and the sparse `Poly` hold the same numbers (finite arithmetic).
-/
import ALV.Model.C11Float
namespace ALV.C11
variable {α : Type} [Add α] [Mul α] [Sub α] [Neg α] [Div α] [OfNat α 0] [OfNat α 1]
  [DecidableEq α]

/-- the terms of `inner(a, b)` in generator order -/
def innerTerms (r : List α) (a b : List α) : List α :=
  (List.range a.length).flatMap fun i =>
    (List.range b.length).map fun j =>
      r.getD (if i ≤ j then j - i else i - j) 0 * a.getD i 0 * b.getD j 0

/-- `inner` with the summation function `sum` for the builtin `sum` -/
def innerG (sum : List α → α) (r : List α) (a b : List α) : α := sum (innerTerms r a b)

def levStepG (sum : List α → α) (r : List α) (s : LevState α) : Option (LevState α) :=
  let m := s.a.length
  let b := (0 : α) :: s.a.reverse
  let bb := innerG sum r b b
  if bb = 0 then none
  else
    let q := innerG sum r s.a (delay m) / bb
    some ⟨List.zipWith (fun x y => x - q * y) (s.a ++ [0]) b, s.ks ++ [-q]⟩

def levLoopG (sum : List α → α) (r : List α) : Nat → LevState α → Option (LevState α)
  | 0, s => some s
  | n + 1, s => match levStepG sum r s with
    | none => none
    | some s' => levLoopG sum r n s'

/-- `levinson_durbin(acdata, order)`: (numerator list, `A.error`, reflection coefficients);
    `none` = ParCorError -/
def levinsonG (sum : List α → α) (r : List α) (order : Nat) : Option (List α × α × List α) :=
  let rr := extendAc r order
  match levLoopG sum rr order ⟨[1], []⟩ with
  | none => none
  | some s => some (s.a, innerG sum rr s.a s.a, s.ks)

section Order
variable [LT α] [DecidableLT α]

/-- `fabs` -/
def absG (x : α) : α := if x < 0 then -x else x

/-- one pass of CPython's float `sum` loop on the pair (running sum, compensation) -/
def neuStep (s : α × α) (x : α) : α × α :=
  let t := s.1 + x
  if absG s.1 < absG x then (t, s.2 + ((x - t) + s.1)) else (t, s.2 + ((s.1 - t) + x))

/-- CPython ≥ 3.12 `sum(items)` on floats; `fin` = `isfinite` -/
def sumPyG (fin : α → Bool) (l : List α) : α :=
  let s := l.foldl neuStep (0, 0)
  if s.2 ≠ 0 ∧ fin s.2 = true then s.1 + s.2 else s.1

end Order

/-- `levinson_durbin` on binary64 autocorrelation data -/
def levinsonF64 (r : List F64) (order : Nat) : Option (List F64 × F64 × List F64) :=
  levinsonG (sumPyG F64.isFinite) r order

/-- the same with the left fold for `sum` (the generic model verbatim; CPython < 3.12) -/
def levinsonF64Fold (r : List F64) (order : Nat) : Option (List F64 × F64 × List F64) :=
  levinson r order

end ALV.C11
