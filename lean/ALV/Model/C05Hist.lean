/-
  C05 — filter lists are MUTABLE lists: histories of one `CascadeFilter` / `ParallelFilter` object in
  which parts are replaced in place between reads (code shaped, Mathlib-free).

  Python source modelled (lazy_filters.py, `class FilterList(list, LinearFilterProperties)`):

    obj[i] = g            list.__setitem__ (not overloaded): negative indices count from the end
    obj[:] = [...]        list.__setitem__ with the full slice: all the parts are replaced
    obj.append(g)         list.append
    obj.extend([...])     list.extend / `+=`
    obj.numpoly / obj.denpoly          computed from `self.callables` on EVERY access: nothing is kept
    obj.numlist / obj.denlist          LinearFilterProperties: ValueError("Non-causal filter") for a negative
                                       power, else list(poly.values()) (powers 0 … order)
    obj(seq, zero=0)                   reduce over `self.callables` on every call

  As coded there is no cache: a read is a function of the CURRENT parts (`runHist`).  The shape that was
  seeded in round 4 — `_sum_filter` kept in `self._summed_cache` under the key `hash(tuple(self))`,
  where `LinearFilter.__hash__` hashes only the POWERS of the two polynomials — is kept as a regression
  model (`runHistCached`) with its refutation theorem.
-/
import ALV.Model.C05List
namespace ALV.C05
open ALV.C07
variable {α : Type}

/-- Python's index normalisation of `list.__setitem__` (`none`: IndexError) -/
def pyIndex (n : Nat) (i : Int) : Option Nat :=
  if 0 ≤ i then (if i.toNat < n then some i.toNat else none)
  else (if (-i).toNat ≤ n then some (n - (-i).toNat) else none)

/-- `parts[n] = g` -/
def FLs.set : FLs α → Nat → FL α → FLs α
  | .nil, _, _ => .nil
  | .cons _ t, 0, g => .cons g t
  | .cons p t, n + 1, g => .cons p (t.set n g)

/-- what can be done to the object between two reads -/
inductive Mut (α : Type) where
  /-- `obj[i] = g` -/
  | setItem (i : Int) (g : FL α)
  /-- `obj[:] = [...]` -/
  | setAll (ps : FLs α)
  /-- `obj.append(g)` -/
  | append (g : FL α)
  /-- `obj.extend([...])`, `obj += [...]` -/
  | extend (ps : FLs α)

/-- the parts after one mutation (`none`: IndexError — outside the tie, the list is unchanged) -/
def Mut.apply : Mut α → FLs α → Option (FLs α)
  | .setItem i g, ps => (pyIndex ps.length i).map fun n => ps.set n g
  | .setAll qs, _ => some qs
  | .append g, ps => some (ps ++ .cons g .nil)
  | .extend qs, ps => some (ps ++ qs)

/-- an event in the life of one filter list object -/
inductive Ev (α : Type) where
  | act (m : Mut α)
  /-- read `numpoly` and `denpoly` -/
  | polys
  /-- read `numlist` and `denlist` -/
  | lists
  /-- `obj(xs, zero=0)` -/
  | call (xs : List α)

/-- what a read returns -/
inductive Obs (α : Type) where
  | polys (r : Except PyErr (MPoly α × MPoly α))
  | lists (n d : Except PyErr (List α))
  | out (r : Except PyErr (List α))

def Ev.isRead : Ev α → Bool
  | .act _ => false
  | _ => true

/-- the parts after the events: only mutations act on the object -/
def afterEvs : FLs α → List (Ev α) → Option (FLs α)
  | ps, [] => some ps
  | ps, .act m :: r => (m.apply ps).bind fun qs => afterEvs qs r
  | ps, _ :: r => afterEvs ps r

section Arith
variable [Add α] [Mul α] [Sub α] [Neg α] [Div α] [OfNat α 0] [OfNat α 1] [DecidableEq α]

/-- `LinearFilterProperties.numlist` / `.denlist` from the polynomial -/
def polyList (p : Except PyErr (MPoly α)) : Except PyErr (List α) := do
  let q ← p
  if q.any (fun kv => decide (kv.1 < 0)) then .error .value else pure (C04.dense q)

/-- one read of the object of class `k` whose parts are `ps` NOW -/
def readObs (env : Nat → α → α) (k : Kind) (ps : FLs α) : Ev α → Obs α
  | .call xs => .out (FL.call env (.node k ps) xs)
  | .lists =>
      let r := FL.polys (.node k ps)
      .lists (polyList (r.map (·.1))) (polyList (r.map (·.2)))
  | _ => .polys (FL.polys (.node k ps))

/-- **the history as coded**: every read is computed from the current parts -/
def runHist (env : Nat → α → α) (k : Kind) : FLs α → List (Ev α) → Option (List (Obs α))
  | _, [] => some []
  | ps, .act m :: r => (m.apply ps).bind fun qs => runHist env k qs r
  | ps, e :: r => (runHist env k ps r).map (readObs env k ps e :: ·)

/-! ### regression model: the seeded cache of `ParallelFilter._sum_filter` -/

/-- `hash(tuple(self))`: the tuple of the parts' hash keys — a nested filter list is unhashable (TypeError) -/
def cacheKey (ps : FLs α) : Except PyErr (List (HKey α)) := ps.toList.mapM FL.hash

/-- `numpoly` / `denpoly` of a `ParallelFilter` with `_sum_filter` kept under `hash(tuple(self))`;
the cache holds the last key with its sum -/
def polysCached (k : Kind) (ps : FLs α) (cache : Option (List (HKey α) × (MPoly α × MPoly α))) :
    Except PyErr (MPoly α × MPoly α) × Option (List (HKey α) × (MPoly α × MPoly α)) :=
  if !k.par then (FL.polys (.node k ps), cache)
  else if !ps.linear then (.error .attribute, cache)
  else match cacheKey ps with
    | .error e => (.error e, cache)
    | .ok key =>
      match cache with
      | some (key', nd) => if key' = key then (.ok nd, cache) else
          match FL.polys (.node k ps) with
          | .ok nd' => (.ok nd', some (key, nd'))
          | .error e => (.error e, cache)
      | none =>
          match FL.polys (.node k ps) with
          | .ok nd' => (.ok nd', some (key, nd'))
          | .error e => (.error e, cache)

/-- the history with the seeded cache (only the `polys` reads are modelled) -/
def runHistCached (k : Kind) : FLs α → Option (List (HKey α) × (MPoly α × MPoly α)) → List (Ev α) →
    Option (List (Except PyErr (MPoly α × MPoly α)))
  | _, _, [] => some []
  | ps, c, .act m :: r => (m.apply ps).bind fun qs => runHistCached k qs c r
  | ps, c, .polys :: r =>
      let x := polysCached k ps c
      (runHistCached k ps x.2 r).map (x.1 :: ·)
  | ps, c, _ :: r => runHistCached k ps c r

end Arith
end ALV.C05
