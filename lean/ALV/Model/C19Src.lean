/-
  C19 — the vocabulary the source translator (`harness/props/c19_tr.py`) writes Python generator
  functions in (`lean/ALV/Gen/C19Src.lean` is made of these combinators and of `NumOps`), and the
  model of TODAY's `modulo_counter` / `attack` (`mcNow`, `attackNow`: the models `mcG`, `attackG`
  of `Model/C19Float.lean` with the two repairs D28 / D23 that the source received).

  Python ↦ Lean, one line per construct (this table is what the translator trusts):

    a generator function read through `n` `next()` calls      a value of `Run α` (outputs, exception)
    `x = E` / `x += E`  (E raises nothing)                     `let x := E` / `let x := o.add x E`
    `x = E` where E is `int(..)` or `.. % m % m`               `runPre E fun x => …` (function level),
                                                               `Iter.pre E fun x => …` (before the `yield` of a
                                                               loop body), `post E fun x => …` (after it)
    `E % m1 % m2 …` (left nested)                              `modChain o E [m1, m2, …]`
    `int(E)`                                                   `o.trunc E`
    `abs(E) < float("inf")`                                    `finiteG o E`  (`int(E)` would not raise)
    `for v.. in xzip(l1, l2, ..): BODY` (one `yield` in BODY)  `forG (fun state (v..) => BODY) n state (zip l1 (zip l2 ..))`
    `while True: BODY`                                         `whileG (fun state => BODY) n state`
    `for v in xrange(k): yield E` (E pure, no state)           `rangeG k n fun v => E`     (a list segment)
    `while True: yield E` (E pure, no state)                   `List.replicate n E`        (a list segment)
    `for v in it: yield E`                                     `it.map fun v => E`         (a list segment)
    segments in sequence, end of the function                  `takeRun n (s1 ++ s2 ++ …)`
    `if isinstance(x, Iterable): A else: B`                    `match x with | .strm x => A | .num x => B`
    `it = iter(x)` / `it = None`                               `let it := some x` / `let it := none`
    `try: x = next(it) except StopIteration: return`           `nextOr it ([], none) fun x it => …`
    `if it is None: A else: B`                                 `match it with | none => A | some it => B`
    `if x is None or C: A else: B` (x an optional number)      `match x with | none => A | some x => if C then A else B`
    `yield E` at function level                                `[E]`                       (a list segment)
    `for v in g(..): yield f(v)` (g a generator function)      `mapOut f (g .. n)`
    `return Stream(E for v in r)` (r the run of a generator)   `mapRunG (fun v => E) r`  with E in Python's order of
                                                               evaluation: `bindE (raising primitive) fun t => … .ok PURE`
    `tbl[j]` (a list, j an int; IndexError)                    `indexG tbl j`
    `int(ceil(E))`                                             `o.ceil E`
    `float(k)` (k an int)                                      `o.ofInt k`
    `x * a` (x a number, a a number or a Stream)               `Arg.map (fun v => o.mul x v) a`
    `len(self)`, `self.table`, `self.cycles * 2 * pi`          `table.length`, `table`, the parameter `den`
    `int(floor(E))`                                            `floor E`  (a parameter: `NumOps` has no floor)
    `j % k` (ints; ZeroDivisionError)                          `intModG j k`
    `return E` of a function that returns one value            `bindE (raising primitive) fun t => … .ok PURE`

  The state of a loop is the tuple of the variables its body assigns, in order of first assignment.
  Mathlib-free; executable.
-/
import ALV.Model.C19Float
namespace ALV.C19

/-- one pass through a loop body holding exactly one `yield`: an exception before the `yield`, or
    the yielded value and what the code after the `yield` leaves (the next state, or an exception) -/
inductive Iter (α σ : Type) where
  | fail (e : String)
  | yield (y : α) (next : Except String σ)

/-- a raising expression evaluated before the `yield` of a loop body -/
def Iter.pre {α σ β : Type} (x : Except String β) (k : β → Iter α σ) : Iter α σ :=
  match x with
  | .error e => .fail e
  | .ok v => k v

/-- a raising expression evaluated after the `yield` of a loop body -/
def post {σ β : Type} (x : Except String β) (k : β → Except String σ) : Except String σ :=
  match x with
  | .error e => .error e
  | .ok v => k v

/-- a raising expression evaluated at function level (before any loop) -/
def runPre {α β : Type} (x : Except String β) (k : β → Run α) : Run α :=
  match x with
  | .error e => ([], some e)
  | .ok v => k v

/-- `for items in xs: BODY`, read through `k` `next()` calls -/
def forG {α σ ι : Type} (body : σ → ι → Iter α σ) : Nat → σ → List ι → Run α
  | k + 1, st, x :: xs =>
    match body st x with
    | .fail e => ([], some e)
    | .yield y (.error e) => ([y], some e)
    | .yield y (.ok st') => rcons y (forG body k st' xs)
  | _, _, _ => ([], none)

/-- `while True: BODY`, read through `k` `next()` calls -/
def whileG {α σ : Type} (body : σ → Iter α σ) : Nat → σ → Run α
  | 0, _ => ([], none)
  | k + 1, st =>
    match body st with
    | .fail e => ([], some e)
    | .yield y (.error e) => ([y], some e)
    | .yield y (.ok st') => rcons y (whileG body k st')

/-- `for v in xrange(k): yield f v`, at most `n` of them read -/
def rangeG {α : Type} (k : Int) (n : Nat) (f : Nat → α) : List α := (List.range (min k.toNat n)).map f

/-- the function ends after these samples; `n` reads -/
def takeRun {α : Type} (n : Nat) (xs : List α) : Run α := (xs.take n, none)

/-- `for v in g(..): yield f v`: the outputs of the generator through `f`; its exception, if any, after them -/
def mapOut {α β : Type} (f : α → β) (r : Run α) : Run β := (r.1.map f, r.2)

/-- a raising primitive inside an expression; the rest of the expression is evaluated after it -/
def bindE {β γ : Type} (x : Except String β) (k : β → Except String γ) : Except String γ :=
  match x with
  | .error e => .error e
  | .ok v => k v

/-- `tbl[j]` -/
def indexG {α : Type} (tbl : List α) (j : Int) : Except String α :=
  match pyIndex tbl j with
  | some x => .ok x
  | none => .error "IndexError"

/-- `j % k` of two ints: floored; `k = 0` raises -/
def intModG (j k : Int) : Except String Int :=
  if k = 0 then .error "ZeroDivisionError" else .ok (j.fmod k)

/-- `Stream(E for v in r)`: lazily, the first failing sample ends the stream -/
def mapRunG {α β : Type} (f : α → Except String β) (r : Run α) : Run β := mapRun f r.1 r.2

/-- `try: x = next(it) except StopIteration: return` -/
def nextOr {α β : Type} (it : Option (List α)) (stop : β) (k : α → Option (List α) → β) : β :=
  match it with
  | some (x :: xs) => k x (some xs)
  | _ => stop

section G
variable {α : Type} (o : NumOps α)

/-- `a % m1 % m2 % …` -/
def modChain (a : α) : List α → Except String α
  | [] => .ok a
  | m :: ms =>
    match o.mod a m with
    | .error e => .error e
    | .ok r => modChain r ms

/-- `abs(x) < float("inf")`: false exactly for `inf`, `-inf`, `nan` — the values `int(x)` refuses -/
def finiteG (x : α) : Bool :=
  match o.trunc x with
  | .ok _ => true
  | .error _ => false

/-! ### today's code where it differs from `mcG` / `attackG` -/

/-- `steps = int(ratio) if abs(ratio) < float("inf") else 0` (D28 repaired: no batching when the
    batch size cannot be computed) -/
def stepsNow (m s : α) : Int :=
  match o.trunc (o.div m s) with
  | .ok k => k
  | .error _ => 0

/-- `modulo_counter` as it is written today: `mcG` with the guarded batch size -/
def mcNow (start modulo step : Arg α) (n : Nat) : Run α :=
  match start with
  | .strm ps =>
    match step with
    | .strm ss =>
      match modulo with
      | .strm ms => gPMS o n o.zero o.zero ps ms ss
      | .num m => gPS o m n o.zero o.zero ps ss
    | .num s =>
      match modulo with
      | .strm ms => gPM o s n o.zero o.zero ps ms
      | .num m =>
        if o.isZero s then gP0 o m n ps
        else if stepsNow o m s > 1 then gFastP o m s (stepsNow o m s) n o.zero o.zero 0 ps
        else gP o m s n o.zero o.zero ps
  | .num a =>
    match step with
    | .strm ss =>
      match modulo with
      | .strm ms => gMS o n a ms ss
      | .num m => gS o m n a ss
    | .num s =>
      match modulo with
      | .strm ms => gM o s n a ms
      | .num m =>
        if o.isZero s then
          match mod2G o a m with
          | .error e => ([], some e)
          | .ok c => (List.replicate n c, none)
        else if stepsNow o m s > 1 then gFastN o m s (stepsNow o m s) n a 0
        else gN o m s n a

/-- `sinusoid(freq, phase)` as it is written today: `sin` of `modulo_counter(phase, 2 * pi, freq)`; the sine and the
    value of `2 * pi` are parameters -/
def sinusoidNow {β : Type} (sin : α → β) (twoPi : α) (freq phase : Arg α) (n : Nat) : Run β :=
  mapOut sin (mcNow o phase (.num twoPi) freq n)

/-- one sample of `TableLookup.__call__` in Python's order of evaluation: `int(idx)`, the left neighbour, `ceil`, the
    right neighbour (`lookupAtG` asks for both integers first) -/
def lookupAtNow (tbl : List α) (idx : α) : Except String α :=
  match o.trunc idx with
  | .error x => .error x
  | .ok i =>
    match pyIndex tbl i with
    | none => .error "IndexError"
    | some x =>
      match o.ceil idx with
      | .error e => .error e
      | .ok c =>
        match pyIndex tbl (c - (tbl.length : Int)) with
        | none => .error "IndexError"
        | some y => .ok (o.add (o.mul x (o.sub o.one (o.sub idx (o.ofInt i)))) (o.mul y (o.sub idx (o.ofInt i))))

/-- `TableLookup.__getitem__(idx)` as it is written today (D15 repaired: `left = int(floor(idx))`, both neighbours
    `% len`), in Python's order of evaluation; `floor` = `int(math.floor(·))` -/
def getItemNow (floor : α → Except String Int) (tbl : List α) (idx : α) : Except String α :=
  let L : Int := tbl.length
  match floor idx with
  | .error e => .error e
  | .ok left =>
    if L = 0 then .error "ZeroDivisionError"
    else match pyIndex tbl (left.fmod L) with
      | none => .error "IndexError"
      | some x =>
        match o.ceil idx with
        | .error e => .error e
        | .ok c =>
          match pyIndex tbl (c.fmod L) with
          | none => .error "IndexError"
          | some y =>
            .ok (o.add (o.mul x (o.sub o.one (o.sub idx (o.ofInt left)))) (o.mul y (o.sub idx (o.ofInt left))))

/-- `TableLookup(tbl, cycles)(freq, phase)` as it is written today (`den` = the value of `cycles * 2 * pi`): the
    positions come from today's `modulo_counter` -/
def tableCallNow (tbl : List α) (den : α) (freq phase : Arg α) (n : Nat) : Run α :=
  let total : α := o.ofInt (tbl.length : Int)
  let cycleLength := o.div total den
  let r := mcNow o (phase.map (o.mul cycleLength ·)) (.num total) (freq.map (o.mul cycleLength ·)) n
  mapRun (lookupAtNow o tbl) r.1 r.2

/-- `attack` as it is written today: `attackG`, but an empty sustain iterable gives the empty
    envelope (D23 repaired: `except StopIteration: return`) -/
def attackNow (a d : α) (s : Arg α) (n : Nat) : Run α :=
  match s with
  | .strm [] => ([], none)
  | _ => attackG o a d s n

end G
end ALV.C19
