/-
  C08 — histories around `blocks` / `zero_pad` (code shaped, core Lean only):

  * `bloopEv` / `blocksTrace`: the generator seen by an OBSERVING source that may FAIL:
    every block with the number of items pulled from the source when it is handed out, and
    how the run ends (`Ending.stop`: the source finishes, the padded tail clause runs;
    `Ending.fail`: the source raises something else after its items — the exception passes
    through the generator, nothing more is produced).
  * `bloopMut` / `blocksMut`: the yielded container IS the generator's deque (docstring note of
    `blocks`): whatever the caller leaves in it after block `k` is the deque the loop goes on
    with (`res := edit k res`).
  * `bloopLive` / `blocksLive`: a live source (ControlStream idiom) whose item `i` depends on
    how many blocks have already been handed out when it is pulled.
  * `zeroPadTrace`: `zero_pad` over an observing / failing source.
-/
import ALV.Model.C08
namespace ALV.C08
variable {α : Type}

/-- how the source ends after delivering its items -/
inductive Ending where
  | stop   -- StopIteration: normal end of input
  | fail   -- any other exception
  deriving DecidableEq, Repr

/-- `bloop` with the number of items pulled so far attached to each yielded block -/
def bloopEv (size hop : Nat) : BState α → Nat → List α → List (Nat × List α) × BState α
  | s, _, [] => ([], s)
  | s, n, x :: xs =>
    let r := bstep size hop s x
    let t := bloopEv size hop r.1 (n + 1) xs
    ((r.2.toList.map fun b => (n + 1, b)) ++ t.1, t.2)

structure Trace (α : Type) where
  events : List (Nat × List α)   -- (items pulled when handed out, block)
  raised : Bool                  -- the source's exception came out of the generator

/-- `blocks(src, size, hop, pad)` consumed to its end, `src` delivering `xs` and then ending with `e` -/
def blocksTrace (size hop : Nat) (pad : α) (xs : List α) (e : Ending) : Trace α :=
  let t := bloopEv size hop ⟨[], 0⟩ 0 xs
  match e with
  | .fail => ⟨t.1, true⟩
  | .stop => ⟨t.1 ++ (btail size hop pad t.2).map (fun b => (xs.length, b)), false⟩

/-- caller's in-place, length-preserving operations on a yielded `deque` -/
inductive Edit (α : Type) where
  | set (i : Nat) (v : α)      -- blk[i] = v   (0 ≤ i < len)
  | rotate (r : Int)           -- blk.rotate(r)
  | reverse                    -- blk.reverse()

def Edit.apply : Edit α → List α → List α
  | .set i v, l => l.set i v
  | .rotate r, l =>
    let k := (r % (l.length : Int)).toNat
    l.drop (l.length - k) ++ l.take (l.length - k)
  | .reverse, l => l.reverse

def applyEdits (es : List (Edit α)) (l : List α) : List α := es.foldl (fun l e => e.apply l) l

/-- the loops of `blocks` when the caller changes the yielded deque in place: after the yield of
block number `k` the deque holds `edit k res`. -/
def bloopMut (size hop : Nat) (edit : Nat → List α → List α) :
    BState α → Nat → List α → List (List α) × BState α
  | s, _, [] => ([], s)
  | s, k, x :: xs =>
    let r := bstep size hop s x
    match r.2 with
    | none => bloopMut size hop edit r.1 k xs
    | some b =>
      let t := bloopMut size hop edit ⟨edit k b, r.1.idx⟩ (k + 1) xs
      (b :: t.1, t.2)

def blocksMut (size hop : Nat) (pad : α) (edit : Nat → List α → List α) (xs : List α) :
    List (List α) :=
  let t := bloopMut size hop edit ⟨[], 0⟩ 0 xs
  t.1 ++ btail size hop pad t.2

/-- live source: the `i`-th item pulled is `item i ph` where `ph` is the number of blocks already
handed out at that moment (what the caller did after each block decides the following items) -/
def bloopLive (size hop : Nat) (item : Nat → Nat → α) :
    BState α → Nat → Nat → Nat → List (List α) × BState α
  | s, _, _, 0 => ([], s)
  | s, i, ph, n + 1 =>
    let r := bstep size hop s (item i ph)
    let t := bloopLive size hop item r.1 (i + 1) (ph + r.2.toList.length) n
    (r.2.toList ++ t.1, t.2)

/-- `blocks` over a live source that ends after `n` items -/
def blocksLive (size hop : Nat) (pad : α) (item : Nat → Nat → α) (n : Nat) : List (List α) :=
  let t := bloopLive size hop item ⟨[], 0⟩ 0 0 n
  t.1 ++ btail size hop pad t.2

/-- `zero_pad` over an observing source: every output item with the number of source items pulled
when it comes out; a failing source ends the output (no right padding). -/
def zeroPadTrace (left right : Nat) (zero : α) (xs : List α) (e : Ending) : List (Nat × α) × Bool :=
  let pre := (List.replicate left zero).map fun z => (0, z)
  let mid := (List.range xs.length).zip xs |>.map fun p => (p.1 + 1, p.2)
  match e with
  | .fail => (pre ++ mid, true)
  | .stop => (pre ++ mid ++ (List.replicate right zero).map (fun z => (xs.length, z)), false)

end ALV.C08
