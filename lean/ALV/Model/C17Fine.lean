/-
  C17 — the fine-grained transition system: chunk assembly seen from inside.

  The coarse system (`ALV.Model.C17`) treats `chunks(self.audio, size=cs)` as a precomputed
  sequence: a player is at `write` with the next chunk ready.  Here every pull of ONE sample from
  the played iterable is a step of its own (the harness plays scheduler-aware iterables: each
  `next()` on them is a yield point), so that a thread switch can happen in the middle of filling
  a chunk — the place where two players would interfere through anything shared between their
  chunk generators.

  Per player the chunk generator is modelled code-shaped (both strategies, `chunks.struct` =
  `blocks` + `Struct.pack` and `chunks.array`, have the same shape):

      for el in seq:            -- `pull`: one step; the iterable may raise instead
        chunk[idx] = el         -- `buf := buf ++ [el]`
        if idx == size: yield   -- `write` becomes the pending operation
      if idx != 0: pad; yield   -- end of the iterable: zero padding, `write`

  State = the coarse state (whose `todo` is kept as a ghost: it plays no part in what the fine
  system does or writes) + one `Asm` per player.  The steps that do not touch the chunk generator
  are the coarse ones.  `ALV.Lemmas.C17Fine` proves that, when no iterable raises, every fine step
  is a coarse step or a stutter step (`pull`), i.e. the fine system refines the coarse one.

  An iterable that raises (`Cfg.fails`, copied into `Player.fail` / `Asm.fail`) kills the player
  thread (`FCfg.dieFixed = false`: the code as it was — no epilogue: the device stream stays open
  and the thread stays in `_threads`), or, with proposed_fixes/D21-player-dies-close-spins.diff
  (`dieFixed = true`: `try … finally` around the loop, in /repo since dd9cc91), sends it to its
  epilogue — then this step IS the coarse system's exception step and the refinement holds for
  raising iterables too (`ALV.Lemmas.C17Fine.sim_reach` under `Sound`).

  Mathlib-free; executable.
-/
import ALV.Model.C17
namespace ALV.C17

/-- chunk assembly of one player -/
structure Asm where
  rest : List Int                -- samples of the played iterable not yet pulled
  fail : Bool                    -- the iterable raises when asked for the sample after `rest`
  buf : List Int                 -- samples stored so far in the chunk under assembly
  deriving Repr, Inhabited

structure FCfg where
  cfg : Cfg                      -- `cfg.fails`: by player index, the iterables that raise after their samples
  dieFixed : Bool                -- `run` has its loop inside `try … finally` (proposed fix)
  deriving Repr, Inhabited

structure FState where
  base : State
  asm : List Asm
  deriving Repr, Inhabited

def initF (script : List Cmd) : FState := { base := init script, asm := [] }

/-- `AudioThread.__init__` stores the iterable: nothing is pulled before `run` -/
def newAsm (_fc : FCfg) (_i : Nat) (p : Player) : Asm :=
  { rest := p.audio, fail := p.fail, buf := [] }

/-- one `Asm` for the player the control script may just have created -/
def syncAsm (fc : FCfg) (ps : List Player) (asm : List Asm) : List Asm :=
  match ps[asm.length]? with
  | some p => asm ++ [newAsm fc asm.length p]
  | none => asm

def stepMainF (fc : FCfg) (fs : FState) : Option FState :=
  (stepMain fc.cfg fs.base).map fun s' => { base := s', asm := syncAsm fc s'.players fs.asm }

/-- the `for chunk in chunks(...)` header with nothing in the buffer: the generator asks the
    iterable for a sample; at its (normal) end the loop is left without any yield point -/
def loopHeadF (a : Asm) : PPc := if a.rest.isEmpty && !a.fail then .finAcq else .write

/-- at `write`: is the chunk complete (full, or padded at the end of the iterable)? -/
def chunkReady (p : Player) (a : Asm) : Bool :=
  a.buf.length == p.cs || (a.rest.isEmpty && !a.fail)

def stepPlayerF (fc : FCfg) (fs : FState) (i : Nat) : Option FState :=
  match fs.base.players[i]?, fs.asm[i]? with
  | some p, some a =>
    let s := fs.base
    let bad := decide (s.terminated > 0) || p.sst == .closed
    match p.pc with
    | .begin => some { fs with base := setP s i { p with pc := loopHeadF a } }
    | .isSet =>
      some { fs with base := setP s i { p with pc := if p.go then loopHeadF a else .stopStream } }
    | .startStream =>
      some { fs with base := { setP s i { p with sst := .active, pc := loopHeadF a } with
                               perr := s.perr || bad } }
    | .write =>
      if chunkReady p a then
        -- `yield export()` / `yield s.pack(*block)`, then `self.write_stream(st, chunk, …)`
        let c := a.buf ++ List.replicate (p.cs - a.buf.length) 0
        let p' : Player := { p with written := p.written ++ [c], todo := p.todo.tail,
                                    pc := if fc.cfg.fixed && p.halting then .stopStream else .isSet }
        let s' : State := { setP s i p' with perr := s.perr || bad || p.sst != .active }
        some { base := s', asm := fs.asm.set i { a with buf := [] } }
      else
        match a.rest with
        | x :: r => some { fs with asm := fs.asm.set i { a with rest := r, buf := a.buf ++ [x] } }
        | [] =>
          -- the iterable raises: the exception leaves `run`
          some { fs with base := setP s i { p with pc := if fc.dieFixed then .finAcq else .done } }
    | _ => (stepPlayer fc.cfg s i).map fun s' => { fs with base := s' }
  | _, _ => none

def stepF (fc : FCfg) (fs : FState) : Tid → Option FState
  | .main => stepMainF fc fs
  | .player i => stepPlayerF fc fs i

def runSchedF (fc : FCfg) (fs : FState) : List Tid → FState × List Tid
  | [] => (fs, [])
  | t :: ts =>
    match stepF fc fs t with
    | some fs' => runSchedF fc fs' ts
    | none => (fs, t :: ts)

def enabledF (fc : FCfg) (fs : FState) (t : Tid) : Bool := (stepF fc fs t).isSome

def terminalF (fc : FCfg) (fs : FState) : Bool := (tids fs.base).all (fun t => !enabledF fc fs t)

/-- the pending operation of a player at `write` is a pull from its iterable -/
def pulling (fs : FState) (i : Nat) : Bool :=
  match fs.base.players[i]?, fs.asm[i]? with
  | some p, some a => p.pc == .write && !chunkReady p a
  | _, _ => false

end ALV.C17
