/-
  C13 — designs with STREAM-VALUED parameters, as the strategy bodies are written (code shaped).
  Core Lean only; executable at `Float`.

  Every strategy is written so that it works for numbers and for Streams: each USE of a parameter
  (or of an intermediate value such as `R`) takes its own copy of a tee hub,

      cutoff = thub(cutoff, 1); x = 2 - cos(cutoff); x = thub(x, 2); R = x - sqrt(x ** 2 - 1); R = thub(R, 2)
      return (1 - R) / (1 - R * z ** -1)

  `thub(data, n)` is the identity on a number and a `StreamTeeHub` on an iterable: `n` independent
  iterators (`itertools.tee`) over the ONE sequence `data` yields when the hub is its only reader.
  An elementwise operation on Streams reads one item of every operand per item it yields.

  So a coefficient of the returned filter is an EXPRESSION (`SE`) whose leaves are iterator objects
  (`IObj`): a hub copy, or the caller's argument itself when a strategy uses it without a hub
  (`exp(-cutoff)`, `alpha * z ** -delay`).  The state of a design is the position of every iterator
  object (`Pos`).  Reading one item of a coefficient (`SE.next`) reads one item of each of its
  leaves, left to right; a leaf that occurs twice — a Stream used twice without a hub, or one filter
  OBJECT placed twice in a cascade (`pair * 2`) — is advanced twice, so each occurrence sees every
  other value.  `SE.at p k` is the value at instant `k` when nothing is shared.

  The programs below transcribe the strategy bodies line by line; hub identifiers are `base + line`
  so that a strategy called several times (`gammatone.klapuri` calls two resonator strategies twice
  each) makes NEW hubs at every call, as python does.

  Trusted here (not modelled): `itertools.tee` (a copy at position `k` yields item `k` of the hub's
  source, `SE.next` on `copy`), which is right when the hub is the only reader of its source —
  the static ownership conditions are the executable check `wfDesign`, proved for every program.
-/
import ALV.Model.C13Hist
namespace ALV.C13
open ALV

/-- an iterator object a coefficient reads -/
inductive IObj where
  /-- the caller's `i`-th argument itself -/
  | par (i : Nat)
  /-- copy number `c` of tee hub `h` -/
  | copy (h c : Nat)
deriving DecidableEq, Repr

/-- constants of the strategy bodies -/
inductive K0 where
  | zero | one | two | half | pi
  /-- `e` (`math.e`; the model's `exp 1`) -/
  | e
  /-- `float(n)` -/
  | nat (n : Nat)
deriving DecidableEq, Repr

inductive Op1 where
  | neg | cos | sin | exp | sqrt
  /-- `x ** 2` -/
  | sq
  /-- `el if el else 1` -/
  | zsafe
deriving DecidableEq, Repr

inductive Op2 where
  | add | sub | mul | div | pow
deriving DecidableEq, Repr

/-- a (possibly Stream-valued) python expression -/
inductive SE where
  | k (c : K0)
  /-- the argument `i` used directly -/
  | par (i : Nat)
  /-- copy `c` of the hub `h = thub(src, n)` -/
  | copy (h n c : Nat) (src : SE)
  | op1 (o : Op1) (e : SE)
  | op2 (o : Op2) (a b : SE)
deriving DecidableEq, Repr

/-- a filter whose coefficients are expressions (dense lists, index = delay) -/
structure SSec where
  num : List SE
  den : List SE
deriving DecidableEq, Repr

def emptySec : SSec := ⟨[], []⟩

/-- the iterator objects an expression reads, in reading order -/
def SE.leaves : SE → List IObj
  | .k _ => []
  | .par i => [.par i]
  | .copy h _ c _ => [.copy h c]
  | .op1 _ e => e.leaves
  | .op2 _ a b => a.leaves ++ b.leaves

/-- every hub an expression depends on: (identifier, declared copies, source), nested ones included -/
def SE.hubs : SE → List (Nat × Nat × SE)
  | .k _ => []
  | .par _ => []
  | .copy h n _ src => (h, n, src) :: src.hubs
  | .op1 _ e => e.hubs
  | .op2 _ a b => a.hubs ++ b.hubs

def secExprs (s : SSec) : List SE := s.num ++ s.den
def secLeaves (s : SSec) : List IObj := (secExprs s).flatMap SE.leaves

/-- positions of the iterator objects -/
abbrev Pos := IObj → Nat

def Pos.init : Pos := fun _ => 0

def bumpO (st : Pos) (o : IObj) : Pos := fun x => if x = o then st x + 1 else st x

/-! ### the static conditions under which python's tee hubs behave as copies (`wfDesign`) -/

/-- the distinct hubs of a design -/
def designHubs (secs : List SSec) : List (Nat × Nat × SE) :=
  ((secs.flatMap secExprs).flatMap SE.hubs).eraseDups

/-- every iterator object with a reader: the leaves of the coefficients, and the leaves of every hub's
source (read by the hub) -/
def designLeaves (secs : List SSec) : List IObj :=
  secs.flatMap secLeaves ++ (designHubs secs).flatMap fun h => h.2.2.leaves

/-- 1. one identifier = one hub (same source, same declared number of copies);
    2. every iterator object has exactly ONE reader (no Stream is used twice, no copy is taken twice);
    3. of a hub declared with `n` copies exactly the copies `0 … n-1` are used (fewer: the
       `MemoryLeakWarning` of `StreamTeeHub.__del__`; more: its `IndexError`). -/
def wfDesign (secs : List SSec) : Bool :=
  let hs := designHubs secs
  let ls := designLeaves secs
  decide ((hs.map (·.1)).Nodup) && decide ls.Nodup &&
  hs.all fun h => (List.range h.2.1).all (fun c => ls.contains (.copy h.1 c)) &&
                  ls.all (fun o => match o with
                                   | .copy h' c => h' != h.1 || decide (c < h.2.1)
                                   | _ => true)

section generic
variable {α : Type} [TrigField α] [ZeroTest α]
open TrigField ZeroTest

def K0.val : K0 → α
  | .zero => c0
  | .one => c1
  | .two => c2
  | .half => ALV.C13.half
  | .pi => TrigField.pi
  | .e => TrigField.exp c1
  | .nat n => TrigField.ofNat n

def Op1.ap : Op1 → α → α
  | .neg, x => -x
  | .cos, x => TrigField.cos x
  | .sin, x => TrigField.sin x
  | .exp, x => TrigField.exp x
  | .sqrt, x => TrigField.sqrt x
  | .sq, x => ALV.C13.sq x
  | .zsafe, x => if ZeroTest.isZero x then c1 else x

def Op2.ap : Op2 → α → α → α
  | .add, x, y => x + y
  | .sub, x, y => x - y
  | .mul, x, y => x * y
  | .div, x, y => x / y
  | .pow, x, y => TrigField.pow x y

/-- the value of an expression at instant `k`, every argument at ITS `k`-th value
(`p i k` = value number `k` of argument `i`; a number is a constant sequence) -/
def SE.at (p : Nat → Nat → α) (k : Nat) : SE → α
  | .k c => c.val
  | .par i => p i k
  | .copy _ _ _ src => src.at p k
  | .op1 o e => o.ap (e.at p k)
  | .op2 o a b => o.ap (a.at p k) (b.at p k)

/-- `next(expression)`: one item of every leaf, left to right -/
def SE.next (p : Nat → Nat → α) : SE → Pos → α × Pos
  | .k c, st => (c.val, st)
  | .par i, st => (p i (st (.par i)), bumpO st (.par i))
  | .copy h _ c src, st => (src.at p (st (.copy h c)), bumpO st (.copy h c))
  | .op1 o e, st =>
    let r := e.next p st
    (o.ap r.1, r.2)
  | .op2 o a b, st =>
    let ra := a.next p st
    let rb := b.next p ra.2
    (o.ap ra.1 rb.1, rb.2)

def nextL (p : Nat → Nat → α) : List SE → Pos → List α × Pos
  | [], st => ([], st)
  | e :: es, st =>
    let r := e.next p st
    let rs := nextL p es r.2
    (r.1 :: rs.1, rs.2)

/-- one instant of a filter object is read: an item of every coefficient (numerator first).  The
lists are RAW: a Stream-valued coefficient is stored whatever its values. -/
def readSec (p : Nat → Nat → α) (s : SSec) (st : Pos) : Coefs α × Pos :=
  let n := nextL p s.num st
  let d := nextL p s.den n.2
  (⟨n.1, d.1⟩, d.2)

/-- the coefficient lists of a filter at instant `k` when nothing is shared -/
def secAt (p : Nat → Nat → α) (k : Nat) (s : SSec) : Coefs α :=
  ⟨s.num.map (SE.at p k), s.den.map (SE.at p k)⟩

/-- a schedule of reads: entry `j` = "the filter at position `j` of the cascade yields its next
instant" (sections may be read at different rates, in any order) -/
def runReads (p : Nat → Nat → α) (secs : List SSec) : List Nat → Pos → List (Coefs α)
  | [], _ => []
  | j :: js, st =>
    let r := readSec p (secs.getD j emptySec) st
    r.1 :: runReads p secs js r.2

/-- what a schedule must show (`past` = the reads before, latest first): read number `k` of the
filter at position `j` shows ITS instant `k`, whatever was read in between -/
def specReads (p : Nat → Nat → α) (secs : List SSec) : List Nat → List Nat → List (Coefs α)
  | _, [] => []
  | past, j :: js => secAt p (past.count j) (secs.getD j emptySec) :: specReads p secs (j :: past) js

end generic

/-! ### the strategy bodies (lazy_filters.py 1087-1500, lazy_auditory.py 205-219) -/

namespace S
def one : SE := .k .one
def two : SE := .k .two
def neg (a : SE) : SE := .op1 .neg a
def add (a b : SE) : SE := .op2 .add a b
def sub (a b : SE) : SE := .op2 .sub a b
def mul (a b : SE) : SE := .op2 .mul a b
def div (a b : SE) : SE := .op2 .div a b
def sqr (a : SE) : SE := .op1 .sq a
end S
open S

/-- `cutoff = thub(cutoff, 1); x = 2 ∓ cos(cutoff); x = thub(x, 2); R = x - sqrt(x ** 2 - 1);
    R = thub(R, 2)` — the two copies of `R` -/
def poleRS (b : Nat) (lp : Bool) (cutoff : SE) : Nat → SE :=
  let cut := SE.copy b 1 0 cutoff
  let xsrc := if lp then sub two (.op1 .cos cut) else add two (.op1 .cos cut)
  let x := fun c => SE.copy (b + 1) 2 c xsrc
  let rsrc := sub (x 0) (.op1 .sqrt (sub (sqr (x 1)) one))
  fun c => SE.copy (b + 2) 2 c rsrc

/-- `lowpass.pole`: `(1 - R) / (1 - R * z ** -1)` -/
def lowpassPoleS (b : Nat) (cutoff : SE) : SSec :=
  let R := poleRS b true cutoff
  ⟨[sub one (R 0)], [one, neg (R 1)]⟩

/-- `highpass.pole`: `(1 - R) / (1 + R * z ** -1)` -/
def highpassPoleS (b : Nat) (cutoff : SE) : SSec :=
  let R := poleRS b false cutoff
  ⟨[sub one (R 0)], [one, R 1]⟩

/-- `cutoff = thub(cutoff, 2); numR = ±(sin(cutoff) - 1); denR = (el if el else 1 for el in cos(cutoff));
    R = thub(numR / denR, 2)` -/
def zRS (b : Nat) (lp : Bool) (cutoff : SE) : Nat → SE :=
  let cut := fun c => SE.copy b 2 c cutoff
  let numR := if lp then sub (.op1 .sin (cut 0)) one else sub one (.op1 .sin (cut 0))
  let denR := SE.op1 .zsafe (.op1 .cos (cut 1))
  fun c => SE.copy (b + 1) 2 c (div numR denR)

/-- `lowpass.z`: `gain = (1 + R) / 2; gain * (1 + z ** -1) / (1 + R * z ** -1)`
(`gain`, a Stream, multiplies a two-term polynomial: `Poly.__mul__` takes a hub of two copies) -/
def lowpassZS (b : Nat) (cutoff : SE) : SSec :=
  let R := zRS b true cutoff
  let gain := fun c => SE.copy (b + 2) 2 c (div (add one (R 0)) two)
  ⟨[gain 0, gain 1], [one, R 1]⟩

/-- `highpass.z`: `gain * (1 - z ** -1) / (1 - R * z ** -1)` -/
def highpassZS (b : Nat) (cutoff : SE) : SSec :=
  let R := zRS b false cutoff
  let gain := fun c => SE.copy (b + 2) 2 c (div (add one (R 0)) two)
  ⟨[gain 0, neg (gain 1)], [one, neg (R 1)]⟩

/-- `R = thub(exp(-cutoff), 2)` resp. `R = thub(exp(cutoff - pi), 2)` -/
def expRS (b : Nat) (minus : Bool) (cutoff : SE) : Nat → SE :=
  let src := if minus then SE.op1 .exp (neg cutoff) else SE.op1 .exp (sub cutoff (.k .pi))
  fun c => SE.copy b 2 c src

def lowpassPoleExpS (b : Nat) (cutoff : SE) : SSec :=
  let R := expRS b true cutoff
  ⟨[sub one (R 0)], [one, neg (R 1)]⟩

def highpassPoleExpS (b : Nat) (cutoff : SE) : SSec :=
  let R := expRS b false cutoff
  ⟨[sub one (R 0)], [one, R 1]⟩

/-- `lowpass.z_exp`: `G = (R + 1) / 2; G * (1 + z ** -1) / (1 + R * z ** -1)` -/
def lowpassZExpS (b : Nat) (cutoff : SE) : SSec :=
  let R := expRS b false cutoff
  let G := fun c => SE.copy (b + 1) 2 c (div (add (R 0) one) two)
  ⟨[G 0, G 1], [one, R 1]⟩

def highpassZExpS (b : Nat) (cutoff : SE) : SSec :=
  let R := expRS b true cutoff
  let G := fun c => SE.copy (b + 1) 2 c (div (add (R 0) one) two)
  ⟨[G 0, neg (G 1)], [one, neg (R 1)]⟩

def lowpassS (b : Nat) : Strategy → SE → SSec
  | .pole => lowpassPoleS b
  | .z => lowpassZS b
  | .poleExp => lowpassPoleExpS b
  | .zExp => lowpassZExpS b

def highpassS (b : Nat) : Strategy → SE → SSec
  | .pole => highpassPoleS b
  | .z => highpassZS b
  | .poleExp => highpassPoleExpS b
  | .zExp => highpassZExpS b

/-- `bandwidth = thub(bandwidth, 1); R = exp(-bandwidth * .5); R = thub(R, n)` -/
def resRS (b n : Nat) (bandwidth : SE) : Nat → SE :=
  let bw := SE.copy b 1 0 bandwidth
  fun c => SE.copy (b + 1) n c (.op1 .exp (mul (neg bw) (.k .half)))

/-- `1 - 2 * R * cost * z ** -1 + R ** 2 * z ** -2` -/
def resDenS (R1 R2 cost : SE) : List SE := [one, neg (mul (mul two R1) cost), sqr R2]

/-- `resonator.poles_exp`: `R = thub(R, 5); cost = cos(freq) * (2 * R) / (1 + R ** 2); cost = thub(cost, 2);
    gain = (1 - R ** 2) * sqrt(1 - cost ** 2); gain / denominator` -/
def resonatorPolesExpS (b : Nat) (freq bandwidth : SE) : SSec :=
  let R := resRS b 5 bandwidth
  let cost := fun c => SE.copy (b + 2) 2 c (div (mul (.op1 .cos freq) (mul two (R 0))) (add one (sqr (R 1))))
  let gain := mul (sub one (sqr (R 2))) (.op1 .sqrt (sub one (sqr (cost 0))))
  ⟨[gain], resDenS (R 3) (R 4) (cost 1)⟩

/-- `resonator.freq_poles_exp`: `R = thub(R, 3); freq = thub(freq, 2); gain = (1 - R ** 2) * sin(freq)` -/
def resonatorFreqPolesExpS (b : Nat) (freq bandwidth : SE) : SSec :=
  let R := resRS b 3 bandwidth
  let fr := fun c => SE.copy (b + 2) 2 c freq
  ⟨[mul (sub one (sqr (R 0))) (.op1 .sin (fr 0))], resDenS (R 1) (R 2) (.op1 .cos (fr 1))⟩

/-- `resonator.z_exp`: `R = thub(R, 5); cost = cos(freq) * (1 + R ** 2) / (2 * R); gain = (1 - R ** 2) * .5;
    gain * (1 - z ** -2) / denominator` (`gain` multiplies a two-term polynomial: a hub of two copies) -/
def resonatorZExpS (b : Nat) (freq bandwidth : SE) : SSec :=
  let R := resRS b 5 bandwidth
  let cost := div (mul (.op1 .cos freq) (add one (sqr (R 0)))) (mul two (R 1))
  let gain := fun c => SE.copy (b + 2) 2 c (mul (sub one (sqr (R 2))) (.k .half))
  ⟨[gain 0, .k .zero, neg (gain 1)], resDenS (R 3) (R 4) cost⟩

/-- `resonator.freq_z_exp`: `R = thub(R, 3)`; `freq` is used once -/
def resonatorFreqZExpS (b : Nat) (freq bandwidth : SE) : SSec :=
  let R := resRS b 3 bandwidth
  let gain := fun c => SE.copy (b + 2) 2 c (mul (sub one (sqr (R 0))) (.k .half))
  ⟨[gain 0, .k .zero, neg (gain 1)], resDenS (R 1) (R 2) (.op1 .cos freq)⟩

def resonatorS (b : Nat) : ResStrategy → SE → SE → SSec
  | .polesExp => resonatorPolesExpS b
  | .freqPolesExp => resonatorFreqPolesExpS b
  | .zExp => resonatorZExpS b
  | .freqZExp => resonatorFreqZExpS b

/-- `1 + v * z ** -delay` (dense) -/
def onePlusDelayedS (delay : Nat) (v : SE) : List SE :=
  match delay with
  | 0 => [add one v]
  | d + 1 => one :: (List.replicate d (.k .zero) ++ [v])

/-- `comb.fb`: `1 / (1 - alpha * z ** -delay)` -/
def combFbS (delay : Nat) (alpha : SE) : SSec := ⟨[one], onePlusDelayedS delay (neg alpha)⟩

/-- `comb.tau`: `alpha = e ** (-delay / tau)` -/
def combTauS (delay : Nat) (tau : SE) : SSec :=
  combFbS delay (.op2 .pow (.k .e) (div (neg (.k (.nat delay))) tau))

/-- `comb.ff`: `1 + alpha * z ** -delay` -/
def combFfS (delay : Nat) (alpha : SE) : SSec := ⟨onePlusDelayedS delay alpha, [one]⟩

/-- `gammatone.klapuri`: `bw = thub(bandwidth, 1); bw2 = thub(bw * 2, 4); freq = thub(freq, 4);
    resons = [resonator.z_exp, resonator.poles_exp] * 2; CascadeFilter(reson(freq, bw2) for reson in resons)`
— FOUR calls, each making its own hubs (bases 10, 20, 30, 40) and taking its own copy of `freq` and `bw2` -/
def klapuriS (freq bandwidth : SE) : List SSec :=
  let bw := SE.copy 0 1 0 bandwidth
  let bw2 := fun c => SE.copy 1 4 c (mul bw two)
  let fr := fun c => SE.copy 2 4 c freq
  [resonatorZExpS 10 (fr 0) (bw2 0), resonatorPolesExpS 20 (fr 1) (bw2 1),
   resonatorZExpS 30 (fr 2) (bw2 2), resonatorPolesExpS 40 (fr 3) (bw2 3)]

/-- the variant "design each of the two sections once and repeat the pair" (`pair * 2`): the SAME two
filter objects at positions 0, 2 and 1, 3 of the cascade -/
def klapuriAliasedS (freq bandwidth : SE) : List SSec :=
  let bw := SE.copy 0 1 0 bandwidth
  let bw2 := fun c => SE.copy 1 2 c (mul bw two)
  let fr := fun c => SE.copy 2 2 c freq
  let pair := [resonatorZExpS 10 (fr 0) (bw2 0), resonatorPolesExpS 20 (fr 1) (bw2 1)]
  pair ++ pair

/-- the stream program of a design kind called with its arguments (`par 0`, `par 1`) -/
def progOf : Kind → List SSec
  | .lowpass st => [lowpassS 0 st (.par 0)]
  | .highpass st => [highpassS 0 st (.par 0)]
  | .resonator st => [resonatorS 0 st (.par 0) (.par 1)]
  | .combFb d => [combFbS d (.par 0)]
  | .combTau d => [combTauS d (.par 0)]
  | .combFf d => [combFfS d (.par 0)]
  | .klapuri => klapuriS (.par 0) (.par 1)

section generic
variable {α : Type} [TrigField α] [ZeroTest α]

/-- the arguments of a call as sequences: argument 0 cycles `v1`, argument 1 cycles `v2`
(`Stream(*vals)`; a number is a one-element cycle) -/
def argSeq (v1 v2 : List α) : Nat → Nat → α := fun i k => if i = 0 then cyc v1 k else cyc v2 k

/-- a raw coefficient record as the constant designs show it (`Poly` does not store a zero NUMBER) -/
def trimmed (s : Coefs α) : Coefs α := mk s.num s.den

/-- the specification of a schedule of reads, in the words of the property ("stream-valued parameters
whose coefficients must equal the constant design's sample by sample"): read number `k` of the section at
position `j` is section `j` of the CONSTANT design of value number `k` of each argument -/
def constReads (kind : Kind) (v1 v2 : List α) : List Nat → List Nat → List (Coefs α)
  | _, [] => []
  | past, j :: js =>
    (designOf kind (cyc v1 (past.count j)) (cyc v2 (past.count j))).getD j ⟨[], []⟩
      :: constReads kind v1 v2 (j :: past) js

/-- what the driver runs for the entry `thub`: the machine on the strategy's program -/
def thubModel (kind : Kind) (v1 v2 : List α) (sched : List Nat) : List (Coefs α) :=
  runReads (argSeq v1 v2) (progOf kind) sched Pos.init

end generic
end ALV.C13
