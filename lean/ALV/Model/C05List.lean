/-
  C05 — model of `FilterList` / `CascadeFilter` / `ParallelFilter` as *objects* (code shaped):
  nested filter expressions of any depth and any mixture of kinds, the constructor's
  argument-resolution rule, the `list` methods a filter list inherits, `__call__`, `numpoly` /
  `denpoly`, `len`, `==` / `!=` / `hash` between all the objects that can meet in a comparison.
  Mathlib-free; executable; generic in the number type.

  Python source modelled (lazy_filters.py):

    FilterList.__init__(self, *filters)
        if len(filters) == 1 and not callable(filters[0]) and isinstance(filters[0], Iterable):
          filters = filters[0]
        self.extend(filters)
    FilterListMeta.__binary__  (`add`, `*`, reflected `*`):   cls(getattr(super(cls, self), dname)(other))
        -- every class of the hierarchy gets its own dunder with its own `cls`: for a user subclass
        -- `MyC(CascadeFilter)` this is `MyC(CascadeFilter.__add__(self, other))`, and the lone
        -- CascadeFilter result (callable) is kept as ONE part
    FilterList.callables       [(filt if callable(filt) else LinearFilter(filt)) for filt in self]
    FilterList.__eq__          type(self) == type(other) and list.__eq__(self, other)
    FilterList.__ne__          type(self) != type(other) or list.__ne__(self, other)
    (no __hash__: a class that defines __eq__ is unhashable, as `list` already is)
    CascadeFilter.__call__     reduce(lambda data, filt: filt(data), self.callables, seq)
    CascadeFilter.numpoly      reduce(operator.mul, (filt.numpoly for filt in self.callables))   (denpoly alike)
    ParallelFilter.__call__    zero per input when empty, else reduce(operator.add, (filt(arg0) for filt in self.callables))
    ParallelFilter._sum_filter reduce(operator.add, (ZFilter(filt.numpoly, filt.denpoly) for filt in self.callables))
    ParallelFilter.numpoly     self._sum_filter().numpoly                                         (denpoly alike)
        -- as coded since the repair of D22 (/repo 04c3c25): `FL.polys`.  The OLD shape
        -- `reduce(operator.add, self).numpoly` (Python's `+` between the raw ELEMENTS: two filter lists are
        -- concatenated) is kept as the regression model `FL.polysC` with its refutation theorem
    LinearFilter.__eq__        isinstance(other, LinearFilter) and numpoly == and denpoly ==
    LinearFilter.__ne__        not (self == other)
    list.__eq__ / list.__ne__  CPython `list_richcompare`: lengths, then the first pair of items with
                               `not (x == y)`; only the items' `==` is ever called

    FilterList.is_linear       all(isinstance(filt, LinearFilter) or (hasattr(filt, "is_linear") and filt.is_linear())
                                   for filt in self.callables)
    CascadeFilter.numpoly      ... except AttributeError: raise AttributeError("Non-linear filter")
    ParallelFilter.numpoly     if not self.is_linear(): raise AttributeError("Non-linear filter")

  Not modelled: parts that are neither a ZFilter, a number, a sample-wise callable nor a filter list
  (coefficient lists / dicts as parts, callables with memory), Stream coefficients, `<`/`<=`/`>`/`>=` (they return a filter
  list holding one bool), `plot`, `poles` / `zeros`.
-/
import ALV.Model.C05
namespace ALV.C05
open ALV.C07

/-- the class of a filter list object -/
structure Kind where
  /-- `ParallelFilter` family (else `CascadeFilter` family) -/
  par : Bool
  /-- depth of user subclassing below the library class (0 = the library class itself) -/
  sub : Nat
  deriving DecidableEq, Repr

mutual
/-- what a filter list can hold (and a filter list itself): nested to any depth -/
inductive FL (α : Type) where
  /-- a `ZFilter` object -/
  | leaf (f : ZF α)
  /-- a plain number (not callable: `callables` casts it with `LinearFilter(c)`) -/
  | num (c : α)
  /-- any other callable (here: a function applied sample by sample): a non-linear part; `id` is its
  identity — functions compare and hash by identity, what it computes is `env id` -/
  | other (id : Nat)
  /-- a `CascadeFilter` / `ParallelFilter` (or user subclass) holding these parts -/
  | node (k : Kind) (ps : FLs α)
/-- the parts, in list order -/
inductive FLs (α : Type) where
  | nil
  | cons (p : FL α) (t : FLs α)
end

variable {α : Type}

namespace FLs
def toList : FLs α → List (FL α)
  | .nil => []
  | .cons p t => p :: t.toList
def ofList : List (FL α) → FLs α
  | [] => .nil
  | p :: t => .cons p (ofList t)
def append : FLs α → FLs α → FLs α
  | .nil, b => b
  | .cons p t, b => .cons p (append t b)
instance : Append (FLs α) := ⟨append⟩
def length : FLs α → Nat
  | .nil => 0
  | .cons _ t => t.length + 1
/-- `list * n` (`n ≤ 0` gives the empty list) -/
def rep (ps : FLs α) : Nat → FLs α
  | 0 => .nil
  | n + 1 => ps ++ rep ps n
end FLs

/-! ### the constructor -/

/-- one positional argument of `CascadeFilter(...)` / `ParallelFilter(...)` -/
inductive Arg (α : Type) where
  /-- a filter object (`ZFilter`, filter list): callable — and iterable too (a `LinearFilter` yields its
  two dictionaries, a filter list its parts) -/
  | filt (o : FL α)
  /-- a number: neither callable nor iterable -/
  | number (c : α)
  /-- a plain list / tuple / generator of parts: iterable, not callable -/
  | iter (ps : FLs α)

def Arg.callable : Arg α → Bool
  | .filt _ => true
  | _ => false
def Arg.iterable : Arg α → Bool
  | .number _ => false
  | _ => true
/-- the argument kept as one part (`none`: a coefficient list as a part is outside this model) -/
def Arg.asPart : Arg α → Option (FL α)
  | .filt o => some o
  | .number c => some (.num c)
  | .iter _ => none
/-- what iterating over the argument gives (`none`: the items of a `LinearFilter` are its two
dictionaries, of a number there are none — the rule below never iterates those) -/
def Arg.items : Arg α → Option (FLs α)
  | .iter ps => some ps
  | _ => none

/-- `FilterList.__init__`: one argument that is iterable and NOT callable is unpacked; anything else
(no argument, a lone filter object of whatever kind, several arguments) is the list of parts -/
def resolve (args : List (Arg α)) : Option (FLs α) :=
  match args with
  | [a] => if !a.callable && a.iterable then a.items else a.asPart.map fun p => .cons p .nil
  | _ => (args.mapM Arg.asPart).map FLs.ofList

/-- `Kind(*args)` -/
def construct (k : Kind) (args : List (Arg α)) : Option (FL α) := (resolve args).map (.node k)

/-- `cls(x)` climbing down the user subclasses: `MyC(CascadeFilter(parts))` keeps the lone
(callable) `CascadeFilter` as one part -/
def wrap (par : Bool) : Nat → FLs α → FL α
  | 0, ps => .node ⟨par, 0⟩ ps
  | n + 1, ps => .node ⟨par, n + 1⟩ (.cons (wrap par n ps) .nil)

/-! ### the methods a filter list has from `list` (results and their kinds) -/

/-- what a filter list can be combined / compared with -/
inductive Obj (α : Type) where
  /-- a ZFilter, a number or a filter list -/
  | fl (o : FL α)
  /-- a plain `list` (`tuple = false`) or `tuple` of such -/
  | plain (tuple : Bool) (items : FLs α)

/-- `a + b` with a filter list on the left: `cls(list.__add__(self, other))` — `list.__add__` wants a
list (any subclass), so a tuple, a ZFilter or a number raises TypeError; a plain list on the left
(`[h] + C`) is `list.__add__` of the base class and gives a plain list -/
def Obj.add : Obj α → Obj α → Except PyErr (Obj α)
  | .fl (.node k a), .fl (.node _ b) => .ok (.fl (wrap k.par k.sub (a ++ b)))
  | .fl (.node k a), .plain false b => .ok (.fl (wrap k.par k.sub (a ++ b)))
  | .plain false a, .fl (.node _ b) => .ok (.plain false (a ++ b))
  | .plain t a, .plain t' b => if t = t' then .ok (.plain t (a ++ b)) else .error .type
  | _, _ => .error .type

/-- `a * n` and `n * a` -/
def Obj.mulInt : Obj α → Int → Except PyErr (Obj α)
  | .fl (.node k a), n => .ok (.fl (wrap k.par k.sub (a.rep n.toNat)))
  | .plain t a, n => .ok (.plain t (a.rep n.toNat))
  | _, _ => .error .type

/-- in-place methods keep the object (and its class): `append`, `extend` / `+=`.  (`obj *= n` is NOT in
place: the class defines `__mul__`, CPython takes that before the sequence slot of `list`, so it is
`obj = obj * n`, i.e. `Obj.mulInt`.) -/
def FL.append : FL α → FL α → Option (FL α)
  | .node k a, x => some (.node k (a ++ .cons x .nil))
  | _, _ => none
def FL.extend : FL α → FLs α → Option (FL α)
  | .node k a, b => some (.node k (a ++ b))
  | _, _ => none

/-- `obj[i:j]`, `list(obj)`, `obj.copy()`: plain lists (`list` methods that are not overloaded) -/
def FL.slice : FL α → Nat → Nat → Option (Obj α)
  | .node _ a, i, j => some (.plain false (FLs.ofList ((a.toList.take j).drop i)))
  | _, _, _ => none

def Obj.len : Obj α → Option Nat
  | .fl (.node _ a) => some a.length
  | .plain _ a => some a.length
  | _ => none

/-! ### calling -/

section Arith
variable [Add α] [Mul α] [Sub α] [Neg α] [Div α] [OfNat α 0] [OfNat α 1] [DecidableEq α]

/-- `LinearFilter(c)` for a number found in a filter list (`callables`) -/
def castNum (c : α) : Except PyErr (ZF α) := ofScalar c

mutual
/-- `obj(seq, zero=0)`; `env i` is what the callable with identity `i` does to a sample -/
def FL.call (env : Nat → α → α) : FL α → List α → Except PyErr (List α)
  | .leaf f, xs => C05.call f xs
  | .num c, xs => do
      let f ← castNum c
      C05.call f xs
  | .other i, xs => .ok (xs.map (env i))
  | .node k ps, xs => if k.par then ps.parCall env xs none else ps.casCall env xs
/-- `reduce(lambda data, filt: filt(data), self.callables, seq)` -/
def FLs.casCall (env : Nat → α → α) : FLs α → List α → Except PyErr (List α)
  | .nil, xs => .ok xs
  | .cons p t, xs => do
      let y ← p.call env xs
      t.casCall env y
/-- `reduce(operator.add, (filt(arg0) for filt in self.callables))`, the zero value per input
without parts; `acc` = the running sum (`none` before the first part) -/
def FLs.parCall (env : Nat → α → α) : FLs α → List α → Option (List α) → Except PyErr (List α)
  | .nil, xs, none => .ok (xs.map fun _ => 0)
  | .nil, _, some acc => .ok acc
  | .cons p t, xs, acc => do
      let y ← p.call env xs
      t.parCall env xs (some (match acc with
        | none => y
        | some a => addSig a y))
end

/-! ### `numpoly` / `denpoly` -/

mutual
/-- `is_linear()` of a part: a LinearFilter (numbers are cast to one), or a filter list of linear parts -/
def FL.linear : FL α → Bool
  | .leaf _ => true
  | .num _ => true
  | .other _ => false
  | .node _ ps => ps.linear
def FLs.linear : FLs α → Bool
  | .nil => true
  | .cons p t => p.linear && t.linear
end

mutual
/-- `(obj.numpoly, obj.denpoly)` AS CODED (since /repo 04c3c25, the repair of D22): `ParallelFilter` adds the
parts as filters, `reduce(operator.add, (ZFilter(filt.numpoly, filt.denpoly) for filt in self.callables))`;
`CascadeFilter` multiplies the polynomials.  `reduce` without initial value: TypeError without parts. -/
def FL.polys : FL α → Except PyErr (MPoly α × MPoly α)
  | .leaf f => .ok (f.num, f.den)
  | .num c => do
      let f ← castNum c
      pure (f.num, f.den)
  | .other _ => .error .attribute
  | .node k ps =>
      if k.par then do
        if !ps.linear then .error .attribute
        match ← ps.sumF none with
        | none => .error .type
        | some h => pure (h.num, h.den)
      else do
        match ← ps.prodP none with
        | none => .error .type
        | some nd => pure nd
/-- the running products of the numerators and of the denominators -/
def FLs.prodP : FLs α → Option (MPoly α × MPoly α) → Except PyErr (Option (MPoly α × MPoly α))
  | .nil, acc => .ok acc
  | .cons p t, acc => do
      let nd ← p.polys
      t.prodP (some (match acc with
        | none => nd
        | some a => (C07.mul a.1 nd.1, C07.mul a.2 nd.2)))
/-- the running sum of the parts as filters -/
def FLs.sumF : FLs α → Option (ZF α) → Except PyErr (Option (ZF α))
  | .nil, acc => .ok acc
  | .cons p t, acc => do
      let nd ← p.polys
      let z ← ofPolys nd.1 nd.2
      match acc with
      | none => t.sumF (some z)
      | some a => do
          let s ← add a z
          t.sumF (some s)
end

/-- Python's `a + b` between two ELEMENTS of a filter list, as `reduce(operator.add, self)` meets
them: filters add, a number enters through `ZFilter([c])`, two filter lists are CONCATENATED (class of
the left one), a filter list and a filter / number do not add -/
def pyAdd : FL α → FL α → Except PyErr (FL α)
  | .leaf f, .leaf g => do
      let h ← add f g
      pure (.leaf h)
  | .leaf f, .num c => do
      let h ← addScalar f c
      pure (.leaf h)
  | .num c, .leaf g => do
      let h ← raddScalar c g
      pure (.leaf h)
  | .num c, .num d => .ok (.num (c + d))
  | .node k a, .node _ b => .ok (wrap k.par k.sub (a ++ b))
  | _, _ => .error .type

/-- `reduce(operator.add, self)` (`none`: no element, TypeError in `reduce`) -/
def reduceAdd (ps : FLs α) : Except PyErr (Option (FL α)) :=
  match ps.toList with
  | [] => .ok none
  | p :: t => do
      let r ← t.foldlM pyAdd p
      pure (some r)

/-- REGRESSION MODEL (the code before the repair of D22; refuted by `parallel_of_lists_as_coded_wrong`):
`(obj.numpoly, obj.denpoly)` with `ParallelFilter`: the attribute of whatever
`reduce(operator.add, self)` returned — a filter, a number (AttributeError) or another filter list
(its own property: the recursion is on a NEW object, hence the fuel; `none` = out of fuel). -/
def FL.polysC : Nat → FL α → Except PyErr (Option (MPoly α × MPoly α))
  | 0, _ => .ok none
  | _ + 1, .leaf f => .ok (some (f.num, f.den))
  | _ + 1, .num c => do
      let f ← castNum c
      pure (some (f.num, f.den))
  | _ + 1, .other _ => .error .attribute
  | fuel + 1, .node k ps =>
      if k.par then do
        if !ps.linear then .error .attribute
        match ← reduceAdd ps with
        | none => .error .type
        | some (.leaf h) => pure (some (h.num, h.den))
        | some (.num _) => .error .attribute
        | some (.other _) => .error .attribute
        | some r => FL.polysC fuel r
      else do
        let r ← ps.toList.foldlM (fun (acc : Option (Option (MPoly α × MPoly α))) p => do
          match acc with
          | some none => pure (some none)
          | _ =>
            match ← FL.polysC fuel p with
            | none => pure (some none)
            | some nd => pure (some (some (match acc with
                | some (some a) => (C07.mul a.1 nd.1, C07.mul a.2 nd.2)
                | _ => nd)))) none
        match r with
        | none => .error .type
        | some x => pure x

/-! ### `==`, `!=`, `hash` -/

mutual
/-- `a == b` between a ZFilter / number / filter list and another one -/
def FL.eq : FL α → FL α → Bool
  | .leaf f, .leaf g => C05.eq f g
  | .num c, .num d => decide (c = d)
  | .other i, .other j => decide (i = j)
  | .node k a, .node k' b => decide (k = k') && a.eq b
  | _, _ => false
/-- `list.__eq__`: same length and item by item `==` -/
def FLs.eq : FLs α → FLs α → Bool
  | .nil, .nil => true
  | .cons p t, .cons q u => p.eq q && t.eq u
  | _, _ => false
end

/-- `list.__ne__` (CPython `list_richcompare` with `Py_NE`): different lengths, or some pair of items
with `not (x == y)` — the items' `!=` is never called -/
def FLs.listNe : FLs α → FLs α → Bool
  | .nil, .nil => false
  | .cons p t, .cons q u => !(p.eq q) || t.listNe u
  | _, _ => true

/-- `a != b` as coded: `LinearFilter.__ne__` is `not (self == other)`, `FilterList.__ne__` is
`type(self) != type(other) or list.__ne__(self, other)`, numbers compare as numbers; objects of
different sorts end in one of these with the answer True -/
def FL.ne : FL α → FL α → Bool
  | .leaf f, .leaf g => neFixed f g
  | .num c, .num d => decide (c ≠ d)
  | .other i, .other j => decide (i ≠ j)
  | .node k a, .node k' b => decide (k ≠ k') || a.listNe b
  | _, _ => true

/-- `==` over everything that can meet: a filter list is never equal to a plain list / tuple with the
same items (`type(self) == type(other)` fails; `FilterList.__eq__` is tried first for a plain list on
the left, being a subclass of `list`), a list is never equal to a tuple -/
def Obj.eq : Obj α → Obj α → Bool
  | .fl a, .fl b => a.eq b
  | .plain t a, .plain t' b => decide (t = t') && a.eq b
  | _, _ => false

def Obj.ne : Obj α → Obj α → Bool
  | .fl a, .fl b => a.ne b
  | .plain t a, .plain t' b => decide (t ≠ t') || a.listNe b
  | _, _ => true

/-- what `hash()` hashes -/
inductive HKey (α : Type) where
  /-- `LinearFilter.__hash__`: the tuple of the sorted powers of both polynomials -/
  | powers (l : List Int)
  /-- a number hashes by value (CPython: equal numbers hash equally — trusted) -/
  | number (c : α)
  /-- a function hashes by identity -/
  | ident (id : Nat)
  deriving DecidableEq

/-- `hash(obj)`: filter lists (and plain lists) are unhashable -/
def FL.hash : FL α → Except PyErr (HKey α)
  | .leaf f => .ok (.powers (hashKey f))
  | .num c => .ok (.number c)
  | .other i => .ok (.ident i)
  | .node _ _ => .error .type

end Arith
end ALV.C05
