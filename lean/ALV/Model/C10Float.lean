/-
  C10 — the float regime of `acorr` / `lag_matrix` / `levinson_durbin` / `lpc.kautocor` /
  `lpc.kcovar`, bit for bit.  Mathlib-free; executable.

  1. The definitions of `ALV/Model/C10.lean` once more, parameterised by the function `S` that
     stands for Python's builtin `sum(<generator of numbers>)`.  On exact numbers `sum` is the left
     fold `sumL`; on binary64 CPython >= 3.12 runs the float loop of `builtin_sum_impl`
     (Neumaier's compensated summation): `sumN`.  `…S sumL = …` (no law of arithmetic: any carrier)
     and `sumN = sumL` over a ring are theorems (`Lemmas/C10Float.lean`), so the generic
     definitions below ARE the model the theorems of `Props/C10.lean` talk about; the driver runs
     them on `F64` (binary64 as bit patterns, `Model/C11Float.lean`) with `S = sumN`.

     `sum` of FILTERS (`sum(gamma[q] * B[q] for q in xrange(m))` in `lpc.kcovar`) is not the float
     loop: the items are ZFilter objects, `0 + f0 + f1 + …` goes through `ZFilter.__add__` →
     `Poly.__add__`, one IEEE addition per coefficient and per term: that stays `sumL` (`kcNewB`).

  2. Operation order, read from `lazy_lpc.py` / `lazy_filters.py` / `lazy_poly.py`:
       inner(a, b)                    sum of `(r[|i-j|] * a_i) * b_j`, i outer, j inner
       B = A(1 / z) * z ** -m         the coefficients of A moved (products by 1, sums with an
                                      empty Poly): no rounding
       c = inner(A, z**-m) / inner(B, B)          one division; ZeroDivisionError iff divisor == 0
       A -= c * B                     `ZFilter([c]) * B`: `c * b_i` per coefficient; `-`: negation;
                                      `Poly.__add__`: `a_i + (-(c * b_i))` = `a_i - c * b_i` (IEEE)
       k = -inner(A, z ** -m) / beta[m - 1]       `(-x) / y`
       A += k * B[m - 1]              `a_i + k * b_i`
     Terms absent from a `Poly` are read as `0.0`; `x + 0`, `x - 0`, `0 * x` are exact on finite
     numbers, `F64` stores `-0.0` as `+0.0` (a zero's sign is never observed here: divisors equal
     to zero raise), a coefficient that becomes zero is dropped by `Poly` (`trim`).  Runs that meet
     a non-finite number are flagged by the driver and not compared.
-/
import ALV.Model.C10
import ALV.Model.C11Float
namespace ALV.C10
variable {α : Type} [Add α] [Mul α] [Sub α] [Neg α] [Div α] [OfNat α 0] [OfNat α 1]

/-! ### CPython's float `sum` -/

/-- one item of the float loop of `builtin_sum_impl` (CPython 3.12): state (`f_result`, `c`),
    `t = f_result + x; c += fabs(f_result) >= fabs(x) ? (f_result - t) + x : (x - t) + f_result` -/
def neuStep (absGe : α → α → Bool) (s : α × α) (x : α) : α × α :=
  let t := s.1 + x
  (t, if absGe s.1 x then s.2 + ((s.1 - t) + x) else s.2 + ((x - t) + s.1))

/-- `sum(floats)`: the loop from (0, 0), then `if (c && isfinite(c)) f_result += c` -/
def sumN [DecidableEq α] (absGe : α → α → Bool) (fin : α → Bool) (l : List α) : α :=
  let s := l.foldl (neuStep absGe) (0, 0)
  if s.2 ≠ 0 ∧ fin s.2 = true then s.1 + s.2 else s.1

/-! ### the model with `sum` as a parameter -/

section generic
variable (S : List α → α)

def acorrS (blk : List α) (maxLag : Option Nat) : List α :=
  let lags := match maxLag with
    | none => blk.length
    | some L => L + 1
  (List.range lags).map fun tau =>
    S ((List.range (blk.length - tau)).map fun n => coef blk n * coef blk (n + tau))

def lagTableS (blk : List α) (L : Nat) : List (List α) :=
  (List.range (L + 1)).map fun j => (List.range (L + 1)).map fun i =>
    S ((List.range (blk.length - L)).map fun k => coef blk (L + k - i) * coef blk (L + k - j))

def lagMatrixS (blk : List α) (maxLag : Option Nat) : Except String (List (List α)) :=
  match maxLag with
  | none => if blk.length = 0 then .ok [] else .ok (lagTableS S blk (blk.length - 1))
  | some L => if L ≥ blk.length then .error "ValueError" else .ok (lagTableS S blk L)

variable [DecidableEq α]

def innerS (r a b : List α) : α :=
  S ((List.range a.length).flatMap fun i => (List.range b.length).map fun j =>
    coef r (adiff i j) * coef a i * coef b j)

def levStepS (r : List α) (m : Nat) (A : List α) : Except String (List α) :=
  let B := revShift m A
  let num := innerS S r A (delay m)
  let den := innerS S r B B
  if den = 0 then .error "ParCorError" else .ok (subScaled A (num / den) B)

def levIterS (r : List α) : Nat → Except String (List α)
  | 0 => .ok [1]
  | n + 1 => do
    let A ← levIterS r n
    levStepS S r (n + 1) A

def levinsonS (r : List α) (order : Option Nat) : Except String (List α × α) :=
  match order with
  | none =>
    if r.length = 0 then .error "IndexError"
    else do
      let A ← levIterS S r (r.length - 1)
      pure (A, innerS S r A A)
  | some p => do
    let r' := zeroExt r p
    let A ← levIterS S r' p
    pure (A, innerS S r' A A)

def kautocorS (blk : List α) (order : Option Nat) : Except String (List α × α) :=
  levinsonS S (acorrS S blk order) order

def innerMS (phi : List (List α)) (a b : List α) : α :=
  S ((List.range a.length).flatMap fun i => (List.range b.length).map fun j =>
    coef (phi.getD i []) j * coef a i * coef b j)

def kcUpdateS (phi : List (List α)) (unstable : α → Bool) (m : Nat) (s : KState α) :
    Except String (KState α) :=
  let bm := coef s.beta (m - 1)
  if bm = 0 then .error "ZeroDivisionError"
  else
    let k := -(innerMS S phi s.A (delay m)) / bm
    if unstable k then .error "ValueError"
    else .ok { s with A := addScaled s.A k (s.B.getD (m - 1) []) }

def kcGammaS (phi : List (List α)) (m : Nat) (s : KState α) : Except String (List α) :=
  if (List.range m).any (fun q => coef s.beta q = 0) then .error "ZeroDivisionError"
  else .ok ((List.range m).map fun q => innerMS S phi (delay (m + 1)) (s.B.getD q []) / coef s.beta q)

def kcExtendS (phi : List (List α)) (m : Nat) (s : KState α) : Except String (KState α) := do
  let gamma ← kcGammaS S phi m s
  let Bm := kcNewB m gamma s.B
  pure { s with B := s.B ++ [Bm], beta := s.beta ++ [innerMS S phi Bm Bm] }

def kcIterS (phi : List (List α)) (unstable : α → Bool) : Nat → Except String (KState α)
  | 0 => .ok ⟨[1], [delay 1], [innerMS S phi (delay 1) (delay 1)]⟩
  | n + 1 => do
    let s ← kcIterS phi unstable n
    let s1 ← kcUpdateS S phi unstable (n + 1) s
    kcExtendS S phi (n + 1) s1

def kcovarOnS (phi : List (List α)) (unstable : α → Bool) : Except String (List α × α) :=
  if phi.length ≤ 1 then .error "IndexError"
  else do
    let order := phi.length - 1
    let s ← kcIterS S phi unstable (order - 1)
    let s1 ← kcUpdateS S phi unstable order s
    pure (s1.A, innerMS S phi s1.A s1.A)

def kcovarWithS (unstable : α → Bool) (blk : List α) (order : Option Nat) :
    Except String (List α × α) := do
  let phi ← lagMatrixS S blk order
  kcovarOnS S phi unstable

end generic

/-! ### binary64 -/

open ALV.C11 (F64)

/-- `fabs(a) >= fabs(b)` -/
def f64AbsGe (a b : F64) : Bool := decide (a.toFloat.abs ≥ b.toFloat.abs)

/-- builtin `sum` on a generator of floats -/
def sumF64 (l : List F64) : F64 := sumN f64AbsGe F64.isFinite l

/-- `k >= 1 or k <= -1` -/
def unstableF64 (k : F64) : Bool := decide (k.toFloat ≥ 1.0) || decide (k.toFloat ≤ -1.0)

def acorrF64 (blk : List F64) (maxLag : Option Nat) : List F64 := acorrS sumF64 blk maxLag
def lagMatrixF64 (blk : List F64) (maxLag : Option Nat) : Except String (List (List F64)) :=
  lagMatrixS sumF64 blk maxLag
def levinsonF64 (r : List F64) (order : Option Nat) : Except String (List F64 × F64) :=
  levinsonS sumF64 r order
def kautocorF64 (blk : List F64) (order : Option Nat) : Except String (List F64 × F64) :=
  kautocorS sumF64 blk order
def kcovarF64 (blk : List F64) (order : Option Nat) : Except String (List F64 × F64) :=
  kcovarWithS sumF64 unstableF64 blk order

/-- the same runs with the plain left fold for `sum` (CPython < 3.12; the generic model verbatim) -/
def levinsonF64Plain (r : List F64) (order : Option Nat) : Except String (List F64 × F64) :=
  levinson r order

end ALV.C10
