/-
  C14 — model of the CALL layer of the window strategies (code shaped, core Lean only).

  `ALV.C14.call` (Model/C14.lean) takes an integer size and an optional number.  What a Python
  caller writes is richer:

      window.cos(8)            window.cos(8, 2)         window.cos(8, alpha=2)     window.cos(size=8)
      window(8)                window.default(8)        window["cos"](8, 0.0)      window.cos(8, False)
      window.cos.symm(9, 2)    wsymm.periodic["cos"](8) window.hann(8, 2)          window.cos(4.0)
      window.cos(8, None)      wsymm.cos(Fraction(1))   window.cos(True)           window.cos()

  This file models exactly that, on top of the GENERATED tables (`ALV.Gen.Windows`):

  * `Val` — the Python values that occur as arguments: `int`, `bool`, `float`, `Fraction`, `None`, `str`;
  * `bind` — Python's binding of positional and keyword arguments to the parameter list of a
    function (too many positionals, unknown keyword, a parameter given twice, a required parameter
    missing: `TypeError`; an omitted parameter gets its default);
  * `funcSig` — the parameter list of the function `exec` creates for (template, table row):
    `template.format(params_def = row["params_def"], …)`, from the generated `windowSig` / `wsymmSig`
    and `Row.params`;
  * `runTemplate` — the generated template for the KIND of value `size` is: `periodicT`/`symmT` for an
    index (`int`, `bool`), `periodicN`/`symmN` for a number without `__index__` (`float`, `Fraction`),
    `periodicO`/`symmO` for `None` / `str`;
  * a non-numeric `alpha` (`None`, `str`) raises `TypeError` as soon as ONE sample evaluates a formula
    that uses `alpha` (and not before: `wsymm.cos(1, None)` is `[1.0]`, `window.cos(0, None)` is `[]`).
    Which samples do is computed by running the very same generated template and formula at the
    two-point class `Taint` ("does this value depend on alpha");
  * `resolveRoute` — the ways to get at a strategy: `sd[name]` / `sd.name`, `sd(...)` /
    `sd.default(...)` (default strategy), `sd.symm[name]` / `sd.periodic[name]` (dictionary links,
    generated `dictLinks`), `sd[name].symm` / `sd[name].periodic` (function links).
-/
import ALV.Model.C14
namespace ALV.C14
open ALV ALV.Gen.Windows

/-- Python argument values.  A `float` is given by its exact value (every finite double is a
    rational); a `Fraction` by its value. -/
inductive Val where
  | int (i : Int)
  | bool (b : Bool)
  | float (q : Rat)
  | frac (q : Rat)
  | none
  | str
  deriving Repr, DecidableEq

/-- `operator.index(v)`: only `int` and `bool` have `__index__` -/
def Val.index : Val → Option Int
  | .int i => some i
  | .bool b => some (if b then 1 else 0)
  | _ => Option.none

/-- the exact value of a number -/
def Val.rat : Val → Option Rat
  | .int i => some (i : Rat)
  | .bool b => some (if b then 1 else 0)
  | .float q => some q
  | .frac q => some q
  | _ => Option.none

/-- the value as it takes part in float arithmetic (`None` / `str`: no number, `TypeError`) -/
def Val.toNum {α : Type} [TrigField α] : Val → Option α
  | .int i => some (TrigField.ofInt i)
  | .bool b => some (TrigField.ofInt (if b then 1 else 0))
  | .float q => some (TrigField.ofQ q)
  | .frac q => some (TrigField.ofQ q)
  | _ => Option.none

/-- the default written in a signature, as a value: `alpha=1` is an `int`, `alpha=.16` a `float` -/
def _root_.ALV.Gen.Windows.Lit.toVal (l : Lit) : Val :=
  if l.isInt then .int l.num else .float (mkRat l.num l.den)

/-- what a caller writes between the parentheses -/
structure Args where
  pos : List Val := []
  kw : List (String × Val) := []
  deriving Repr, DecidableEq

/-- the parameter list of the function `exec` creates from a template for a table row -/
def funcSig (tmpl : List SigItem) (row : Row) : List Param :=
  tmpl.flatMap fun
    | .param p => [p]
    | .paramsDef => row.params

/-- positional arguments fill the parameters from the left -/
def bindPos : List Param → List Val → Except String (List (String × Val))
  | _, [] => .ok []
  | [], _ :: _ => .error "TypeError"                         -- takes N positional arguments but M were given
  | p :: ps, v :: vs => (bindPos ps vs).map ((p.name, v) :: ·)

/-- keyword arguments: the name must be a parameter not yet bound -/
def bindKw (sig : List Param) : List (String × Val) → List (String × Val) → Except String (List (String × Val))
  | bound, [] => .ok bound
  | bound, (k, v) :: rest =>
    if !(sig.any (·.name == k)) then .error "TypeError"           -- unexpected keyword argument
    else if (bound.lookup k).isSome then .error "TypeError"       -- multiple values for argument
    else bindKw sig (bound ++ [(k, v)]) rest

/-- parameters still unbound take their default; a required one is missing: TypeError -/
def bindDefaults : List Param → List (String × Val) → Except String (List (String × Val))
  | [], _ => .ok []
  | p :: ps, bound =>
    match bound.lookup p.name, p.dflt with
    | some v, _ => (bindDefaults ps bound).map ((p.name, v) :: ·)
    | Option.none, some l => (bindDefaults ps bound).map ((p.name, l.toVal) :: ·)
    | Option.none, Option.none => .error "TypeError"              -- missing required positional argument

/-- Python's argument binding for a plain `def f(p1, p2=d2, ...)` -/
def bind (sig : List Param) (a : Args) : Except String (List (String × Val)) := do
  let b ← bindPos sig a.pos
  let b ← bindKw sig b a.kw
  bindDefaults sig b

/-- "does this value depend on alpha": the two-point number class.  Every operation depends on alpha
    iff one of its operands does; literals and `pi` do not. -/
structure Taint where
  t : Bool
  deriving Repr, DecidableEq

instance : TrigField Taint where
  add a b := ⟨a.t || b.t⟩
  mul a b := ⟨a.t || b.t⟩
  sub a b := ⟨a.t || b.t⟩
  neg a := a
  div a b := ⟨a.t || b.t⟩
  ofInt _ := ⟨false⟩
  pi := ⟨false⟩
  cos a := a
  sin a := a
  exp a := a
  sqrt a := a
  abs a := a
  pow a b := ⟨a.t || b.t⟩

variable {α : Type} [TrigField α]

def ofExcept : Except String (List α) → Outcome α
  | .ok xs => .ok xs
  | .error e => .err e

/-- the generated template of a dictionary, run with a `size` of the given kind of value -/
def runTemplate (symm : Bool) (f : α → α → α) : Val → Outcome α
  | .int i => .ok ((if symm then symmT else periodicT) f i)
  | .bool b => .ok ((if symm then symmT else periodicT) f (if b then 1 else 0))
  | .float q => ofExcept ((if symm then symmN else periodicN) f q)
  | .frac q => ofExcept ((if symm then symmN else periodicN) f q)
  | .none => ofExcept ((if symm then symmO else periodicO) f)
  | .str => ofExcept ((if symm then symmO else periodicO) f)

/-- the table row a function object was generated from -/
def rowOf (sname : String) : Option Row := rows.find? fun r => r.names.head? == some sname

/-- the body of a generated function, run on its bound parameters (`f` the row's formula, `ft` the same formula at
    the class `Taint`) -/
def evalBound (symm : Bool) (f : α → α → α → α) (ft : Taint → Taint → Taint → Taint) (b : List (String × Val)) : Outcome α :=
  match b.lookup "size" with
  | Option.none => .err "TypeError"
  | some size =>
    match b.lookup "alpha" with
    | Option.none => runTemplate symm (fun s n => f s n (TrigField.ofInt 0)) size   -- no such parameter: unused
    | some v =>
      match (v.toNum : Option α) with
      | some av => runTemplate symm (fun s n => f s n av) size
      | Option.none =>
        -- alpha is None / a str: TypeError at the first sample whose formula uses alpha
        match runTemplate (α := Taint) symm (fun s n => ft s n ⟨true⟩) size with
        | .err e => .err e
        | .ok ts =>
          if ts.any (·.t) then .err "TypeError"
          else runTemplate symm (fun s n => f s n (TrigField.ofInt 0)) size

/-- calling a function object with Python arguments -/
def pyCallFunc (fn : Func) (a : Args) : Outcome α :=
  match rowOf fn.sname, formula (α := α) fn.sname, formula (α := Taint) fn.sname with
  | some row, some f, some ft =>
    match bind (funcSig (if fn.symm then wsymmSig else windowSig) row) a with
    | .error e => .err e
    | .ok b => evalBound fn.symm f ft b
  | _, _, _ => .err "KeyError"

/-- how the caller gets at the strategy -/
inductive Route where
  /-- `sd[name]`, `sd.name` -/
  | item
  /-- `sd(...)`, `sd.default(...)`: the default strategy (no name) -/
  | dflt
  /-- `sd.symm[name]`, `sd.periodic[name]` -/
  | dictLink (attr : String)
  /-- `sd[name].symm`, `sd[name].periodic` -/
  | funcLink (attr : String)
  deriving Repr, DecidableEq

def DictId.name : DictId → String
  | .window => "window"
  | .wsymm => "wsymm"

def DictId.ofName : String → Option DictId
  | "window" => some .window
  | "wsymm" => some .wsymm
  | _ => Option.none

/-- `sd.symm`, `sd.periodic` (module-level assignments, generated table `dictLinks`); other attribute: AttributeError -/
def dictAttr (d : DictId) (attr : String) : Option DictId :=
  -- later assignments win
  match (dictLinks.filter fun l => l.1 == d.name && l.2.1 == attr).getLast? with
  | some l => DictId.ofName l.2.2
  | Option.none => Option.none

def resolveRoute (d : DictId) (name : Option String) : Route → Except String Func
  | .item =>
    match name with
    | some k => match (generated.dict d).get k with | some f => .ok f | Option.none => .error "KeyError"
    | Option.none => .error "KeyError"
  | .dflt => match (generated.dict d).default with | some f => .ok f | Option.none => .error "TypeError"
  | .dictLink attr =>
    match dictAttr d attr, name with
    | some d', some k => match (generated.dict d').get k with | some f => .ok f | Option.none => .error "KeyError"
    | _, _ => .error "AttributeError"
  | .funcLink attr =>
    match name with
    | some k =>
      match (generated.dict d).get k with
      | Option.none => .error "KeyError"
      | some f =>
        match (if attr == "symm" then generated.symmOf f else if attr == "periodic" then generated.periodicOf f else Option.none) with
        | some g => .ok g
        | Option.none => .error "AttributeError"
    | Option.none => .error "KeyError"

/-- a call as the caller writes it: dictionary, name, route, arguments -/
def pyCall (d : DictId) (name : Option String) (r : Route) (a : Args) : Outcome α :=
  match resolveRoute d name r with
  | .error e => .err e
  | .ok fn => pyCallFunc fn a

end ALV.C14
