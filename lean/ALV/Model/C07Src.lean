/-
  C07 — the vocabulary of the source translator (`harness/props/c07_tr.py` → `ALV/Gen/C07Src.lean`).

  The translator turns the bodies of the `Poly` methods of `audiolazy/lazy_poly.py` into Lean definitions over
  the types of `Model/C07Zero.lean` (`ZPoly`, `PyNum`, `PyVal`, `MPoly PyNum`).  The Python constructs it accepts
  are mapped onto the ordered-dictionary operations of `Model/C07.lean` (`ofPairs`, `enumFrom`, `has`, `set`, `del`,
  `accum`, `find?`, `iter`, list `map` / `filter` / `foldl` / `all`) and onto the few definitions below.  These
  definitions ARE the trusted reading of the corresponding Python idioms (listed in the evidence under TRUSTED).

  Core Lean only.
-/
import ALV.Model.C07Zero
namespace ALV.C07

/-- what the first argument `data` of `Poly(data, zero)` can be in the model (integer powers, number
    coefficients); the `isinstance` chain of `Poly.__init__` is decided by the constructor -/
inductive InitData where
  | list (cs : List PyNum)                -- `isinstance(data, list)`
  | dict (pairs : List (Int × PyNum))     -- `isinstance(data, dict)` (a dict / an OrderedDict, as its items)
  | poly (p : ZPoly)                      -- `isinstance(data, Poly)`
  | none                                  -- `data is None`
  | num (c : PyNum)                       -- anything else: a number

namespace Py

/-- `thub(v, n)` of a coefficient that is a number: the number itself (a `StreamTeeHub` only for Streams) -/
def thub (v : PyNum) (_n : Nat) : PyNum := v

/-- `operator.truediv(a, b)` / `a / b` where the source divides: ZeroDivisionError for a zero divisor -/
def truediv (a b : PyNum) : Except PyErr PyNum := if b.isZero then .error .zeroDivision else .ok (a / b)

/-- `[(key, f(A[key], B[key])) for key in set(A).intersection(B)]`.  The iteration order of the Python set is
    abstracted (here: the order of `A`); the list is only ever appended to a chain that already contains all
    these keys, so the order cannot be observed. -/
def interWith (f : PyNum → PyNum → PyNum) (p q : MPoly PyNum) : List (Int × PyNum) :=
  p.filterMap (fun kv => (find? q kv.1).map (fun w => (kv.1, f kv.2 w)))

/-- `next(iteritems(d))` under a dominating test `len(d) == 1` (the translator refuses it elsewhere) -/
def next (d : MPoly PyNum) : Int × PyNum := d.headD (0, .int 0)

/-- `v ** other` for a number `v` and an exponent of integral value `n` and kind `ek`: `0 ** negative` raises
    ZeroDivisionError -/
def pow (v : PyNum) (n : Int) (ek : ExpKind) : Except PyErr PyNum :=
  if n < 0 ∧ v.isZero then .error .zeroDivision else .ok (powNum v n ek)

/-- `[x] * count` for a count of integral value `n` and kind `ek`: a float count is a TypeError, a count `≤ 0`
    gives the empty list -/
def rep (x : ZPoly) (n : Int) (ek : ExpKind) : Except PyErr (List ZPoly) :=
  if ek = .float then .error .type else .ok (List.replicate n.toNat x)

/-- `reduce(mul, l + [self])`: for an empty `l` the result is the object `self` ITSELF (`none`), otherwise a new
    instance (`some`), the left-nested product -/
def reduceMul (mul : ZPoly → ZPoly → ZPoly) (l : List ZPoly) (self : ZPoly) : Option ZPoly :=
  match l with
  | [] => none
  | a :: t => some ((t ++ [self]).foldl mul a)

/-- `reduce(step, pairs)` without an initial value, over a sequence known to be non-empty (the translator demands a
    dominating `if not self._data: return` and a length-preserving path from `self._data` to `pairs`); the
    `TypeError` of the empty sequence is outside -/
def reduce1 (f : Int × PyNum → Int × PyNum → Int × PyNum) (l : List (Int × PyNum)) : Int × PyNum :=
  match l with
  | [] => (0, .int 0)
  | h :: t => t.foldl f h

/-- the result of the translated `__pow__` in the model's result type -/
def toPowRes : Except PyErr (Option ZPoly) → PowRes
  | .error e => .err e
  | .ok none => .self
  | .ok (some r) => .new r

end Py
end ALV.C07
