/-
  C02 — stages that accept NEW sources (or new consumers) WHILE they are being consumed.

  A history is a list of events: `attach t len` hands the stage another counted source of `len` items
  (`t` = the time argument of a mixer event, unused otherwise), `fork p` takes another copy of consumer
  `p` of a tee hub, `ask c` is one `next()` on consumer `c`.  After EVERY event the pull counter of every
  source handed over so far is observed (`HObs`): "handing a source over reads nothing" and "asking for
  more reads no more than needed" are statements about these traces.

    mixer    `Streamix.add` before and during playback (stage-level abstraction of the generator of
             lazy_stream.py:689-733; `ALV.Model.C16Gen` is the same machine with values): an event with
             absolute time `T` (sum of the deltas up to it) is moved to `_playing` by the first request
             whose `count = now + 1/2 >= T` - at once when that moment has passed - and then read once
             per request until its `next` fails; the generator ends (for good) when nothing is left and
             `keep` is false
    seq      `Stream.append` on a stream that may be partially consumed: `chain(chain(a, b), c)`
    fan      a filter / stage called again on another source: independent consumers, one source each
    hub      `it.tee` behind `Stream.copy`, `StreamTeeHub`, `thub(partially consumed, n)`: one source,
             consumers with positions, a copy starts where the consumer it is taken from stands
    control  `ControlStream`: `attach` = assignment of `value`, a request shows the LAST assignment

  Core Lean only; executable.
-/
import ALV.Model.C02
namespace ALV.C02

inductive HEv where
  | attach (t : Rat) (len : Nat)
  | fork (p : Nat)
  | ask (c : Nat)

/-- what is seen after an event: did the request deliver (`true` for attach / fork), and the pull
    counters of all sources, in the order they were handed over -/
structure HObs where
  ok : Bool
  reads : List Nat
  deriving Repr, DecidableEq

def hrun {σ : Type} (step : σ → HEv → σ × HObs) : σ → List HEv → List HObs
  | _, [] => []
  | s, e :: es => (step s e).2 :: hrun step (step s e).1 es

def hfinal {σ : Type} (step : σ → HEv → σ × HObs) : σ → List HEv → σ
  | s, [] => s
  | s, e :: es => hfinal step (step s e).1 es

/-! ### mixer -/

structure MEv where
  start : Nat      -- first request (0-based) that reads it
  len : Nat        -- items the source has
  rd : Nat         -- items pulled so far
  gone : Bool      -- its `next` has failed: removed from `_playing`

structure Mix where
  now : Nat        -- outputs delivered so far (`count - 1/2 +` the deltas taken off)
  keep : Bool
  ended : Bool     -- the generator has finished
  evs : List MEv

def Mix.init (keep : Bool) : Mix := ⟨0, keep, false, []⟩

def Mix.reads (s : Mix) : List Nat := s.evs.map (·.rd)

/-- `Streamix.add`: `self._not_playing.append((delta, iter(data)))` - no `next` anywhere.  The start
    request is fixed here: the waiting loop of the generator (`smixStart T`), or the next request when
    that moment has passed. -/
def Mix.attach (s : Mix) (T : Rat) (len : Nat) : Mix :=
  { s with evs := s.evs ++ [⟨max s.now (smixStart T), len, 0, false⟩] }

/-- `data = data + next(snd)` / `to_remove.append(snd)` for one event at request `now` -/
def MEv.step (now : Nat) (e : MEv) : MEv :=
  if e.start ≤ now ∧ e.gone = false then
    if e.rd < e.len then { e with rd := e.rd + 1 } else { e with gone := true }
  else e

/-- one `next()` on the mixer -/
def Mix.ask (s : Mix) : Bool × Mix :=
  if s.ended then (false, s)
  else
    let evs := s.evs.map (MEv.step s.now)
    if s.keep = false ∧ evs.all (·.gone) = true then (false, { s with evs := evs, ended := true })
    else (true, { s with evs := evs, now := s.now + 1 })

def mixStep (s : Mix) : HEv → Mix × HObs
  | .attach t len => (s.attach t len, ⟨true, (s.attach t len).reads⟩)
  | .fork _ => (s, ⟨true, s.reads⟩)
  | .ask _ => (s.ask.2, ⟨s.ask.1, s.ask.2.reads⟩)

/-! ### seq (append) -/

structure SSrc where
  len : Nat
  rd : Nat

/-- one `next()` on nested `itertools.chain` objects: the first source that still has items -/
def seqAsk : List SSrc → Bool × List SSrc
  | [] => (false, [])
  | e :: l =>
    if e.rd < e.len then (true, { e with rd := e.rd + 1 } :: l)
    else ((seqAsk l).1, e :: (seqAsk l).2)

structure SeqSt where
  outs : Nat
  srcs : List SSrc

def SeqSt.init : SeqSt := ⟨0, []⟩
def SeqSt.reads (s : SeqSt) : List Nat := s.srcs.map (·.rd)

def seqStep (s : SeqSt) : HEv → SeqSt × HObs
  | .attach _ len => (⟨s.outs, s.srcs ++ [⟨len, 0⟩]⟩, ⟨true, s.reads ++ [0]⟩)
  | .fork _ => (s, ⟨true, s.reads⟩)
  | .ask _ =>
    let r := seqAsk s.srcs
    (⟨if r.1 then s.outs + 1 else s.outs, r.2⟩, ⟨r.1, r.2.map (·.rd)⟩)

/-! ### fan (a stage called again): consumer `c` reads source `c` only -/

structure FSrc where
  len : Nat
  rd : Nat
  asks : Nat

def fanAsk : Nat → List FSrc → Bool × List FSrc
  | _, [] => (false, [])
  | 0, e :: l =>
    if e.rd < e.len then (true, ⟨e.len, e.rd + 1, e.asks + 1⟩ :: l) else (false, ⟨e.len, e.rd, e.asks + 1⟩ :: l)
  | c + 1, e :: l => ((fanAsk c l).1, e :: (fanAsk c l).2)

def fanStep (s : List FSrc) : HEv → List FSrc × HObs
  | .attach _ len => (s ++ [⟨len, 0, 0⟩], ⟨true, s.map (·.rd) ++ [0]⟩)
  | .fork _ => (s, ⟨true, s.map (·.rd)⟩)
  | .ask c => ((fanAsk c s).2, ⟨(fanAsk c s).1, (fanAsk c s).2.map (·.rd)⟩)

/-! ### hub (tee): one source, consumers with positions -/

structure Hub where
  len : Nat
  rd : Nat
  pos : List Nat

/-- `tee` branch `c` asked once: from the shared buffer when it is behind, else one source item -/
def hubAsk (len rd : Nat) : Nat → List Nat → Bool × Nat × List Nat
  | _, [] => (false, rd, [])
  | 0, p :: ps =>
    if p < rd then (true, rd, (p + 1) :: ps)
    else if rd < len then (true, rd + 1, (p + 1) :: ps)
    else (false, rd, p :: ps)
  | c + 1, p :: ps => ((hubAsk len rd c ps).1, (hubAsk len rd c ps).2.1, p :: (hubAsk len rd c ps).2.2)

def Hub.init (len : Nat) : Hub := ⟨len, 0, [0]⟩

def hubStep (s : Hub) : HEv → Hub × HObs
  | .attach _ _ => (s, ⟨true, [s.rd]⟩)
  | .fork p => ({ s with pos := s.pos ++ [s.pos[p]?.getD 0] }, ⟨true, [s.rd]⟩)
  | .ask c =>
    let r := hubAsk s.len s.rd c s.pos
    (⟨s.len, r.2.1, r.2.2⟩, ⟨r.1, [r.2.1]⟩)

/-! ### control: the value is looked up when it is asked for -/

/-- state = number of assignments made so far; a request shows that number (= the LAST assignment) -/
def ctlStep (s : Nat) : HEv → Nat × HObs
  | .attach _ _ => (s + 1, ⟨true, []⟩)
  | .fork _ => (s, ⟨true, []⟩)
  | .ask _ => (s, ⟨true, [s]⟩)

end ALV.C02
