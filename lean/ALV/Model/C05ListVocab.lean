/-
  C05 — the vocabulary the translator `harness/props/c05_tr.py` maps the Python of the FILTER LIST classes to
  (`FilterList.__init__` / `__eq__` / `__ne__`, `CascadeFilter.numpoly` / `denpoly`, `ParallelFilter._sum_filter` /
  `numpoly` / `denpoly`), beyond the model's own operations.  Hand-written, short, to be audited: this is what the
  translator TRUSTS about Python (`tuple[i]`, `list.extend`, `reduce` without an initial value over a generator).
  Mathlib-free.
-/
import ALV.Model.C05List
import ALV.Model.C05Vocab
namespace ALV.C05
open ALV.C07
variable {α : Type}

/-- `test(filters[i])` inside a condition (`callable(filters[i])`, `isinstance(filters[i], Iterable)`); an index
out of range (IndexError) is outside the model: `false` -/
def argTest (filters : List (Arg α)) (i : Nat) (test : Arg α → Bool) : Bool :=
  match filters[i]? with
  | some a => test a
  | none => false

/-- `filters = filters[i]; self.extend(filters)`: the list is extended with what iterating over that argument gives -/
def extendItem (filters : List (Arg α)) (i : Nat) : Option (FLs α) :=
  match filters[i]? with
  | some a => a.items
  | none => none

/-- `self.extend(filters)` with the tuple of the positional arguments itself: each one is a part -/
def extendTuple (filters : List (Arg α)) : Option (FLs α) := (filters.mapM Arg.asPart).map FLs.ofList

/-- `reduce(f, (gen))` without an initial value over a GENERATOR: the items are computed one at a time, each just
before it is used (an exception of an item ends the reduction there); no item: TypeError -/
def reduceGen {β : Type} (f : β → β → Except PyErr β) : List (Except PyErr β) → Except PyErr β
  | [] => .error .type
  | x :: t => do
      let x0 ← x
      t.foldlM (fun acc y => do
        let v ← y
        f acc v) x0

/-- `try: … except AttributeError: raise AttributeError(…)`: the same exception class again -/
def reraiseAttribute {β : Type} (r : Except PyErr β) : Except PyErr β :=
  match r with
  | .error .attribute => .error .attribute
  | r => r

end ALV.C05
