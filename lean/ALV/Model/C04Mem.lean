/-
  C04 — model, part 4: how `LinearFilter.__call__` READS a memory that is an iterator (code shaped,
  Mathlib-free, executable).

      if not isinstance(memory, Iterable): memory = memory(lm)
      tw = it.takewhile(lambda pair: pair[0] < lm, enumerate(memory))
      memory = [data for idx, data in tw]
      actual_len = len(memory)
      if actual_len < lm: memory = list(zero_pad(memory, lm - actual_len, zero=zero))

  `takewhile` pulls one item, tests it, and STOPS at the first item that fails the test — that item
  has been pulled from the underlying iterator and is dropped.  So an iterator memory (generator,
  `iter(list)`, Stream over an iterator, endless source) is advanced by `lm + 1` items when it has
  that many, by all its items otherwise; a container (list, tuple, deque) gets a fresh iterator from
  `enumerate` and is not affected.  All of it happens AT THE CALL, before any output is requested.

  * `Src`, `Src.next`  — an iterator seen as what it will still deliver (finite rest / endless rule).
  * `readMem lm src`   — the comprehension above: items kept, number of items pulled, iterator after.
  * `memAsked`         — what a callable memory is asked: once, for the needed size.
-/
import ALV.Model.C04
namespace ALV.C04
variable {α : Type}

/-- an iterator, as what it will still deliver -/
inductive Src (α : Type) where
  | fin (rest : List α)                 -- finite: the items left
  | inf (g : Nat → α) (pos : Nat)       -- endless: item `i` is `g i`, next one is `g pos`

/-- `next(it)`: `none` = StopIteration -/
def Src.next : Src α → Option (α × Src α)
  | .fin [] => none
  | .fin (x :: r) => some (x, .fin r)
  | .inf g p => some (g p, .inf g (p + 1))

/-- the next `n` items an iterator would deliver (fewer when it ends) — what the caller can still
get out of it -/
def Src.peek : Nat → Src α → List α
  | 0, _ => []
  | n + 1, s => match s.next with
    | none => []
    | some (x, s') => x :: Src.peek n s'

/-- `[data for idx, data in takewhile(lambda pair: pair[0] < lm, enumerate(src))]` with `togo = lm - idx`:
(items kept, items pulled from `src`, `src` afterwards).  At `togo = 0` the test fails on the next
item — which is pulled and dropped. -/
def readMem : Nat → Src α → List α × Nat × Src α
  | 0, s => match s.next with
    | none => ([], 0, s)
    | some (_, s') => ([], 1, s')
  | n + 1, s => match s.next with
    | none => ([], 0, s)
    | some (x, s') => let r := readMem n s'; (x :: r.1, r.2.1 + 1, r.2.2)

/-- the iterator behind a `memory=` argument given as an ITERATOR (not a container) -/
def Mem.src : Mem α → Option (Src α)
  | .iter l => Option.some (.fin l)
  | .gen g => Option.some (.inf g 0)
  | _ => Option.none

/-- the sizes a callable memory is asked for: exactly once, the needed size -/
def memAsked (lm : Nat) : Mem α → List Nat
  | .callable _ => [lm]
  | _ => []

/-- the memory list `__call__` builds from an iterator memory: what `readMem` kept, LEFT padded -/
def memoryFromSrc (zero : α) (lm : Nat) (s : Src α) : List α :=
  let kept := (readMem lm s).1
  List.replicate (lm - kept.length) zero ++ kept

end ALV.C04
