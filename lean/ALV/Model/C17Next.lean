/-
  C17 — CONTROL-FLOW INTERPRETER of the synchronisation skeleton (`Skel`, `ALV.Model.C17Skel`).

  A pending operation of a thread is a yield point `Y` of its method (operation, locks held): that is
  what `ppcY` / `mpcY` say of the model's program counters.  This file computes, FROM THE SKELETON,
  where control goes from a yield point: `nextY tbl name gv y` = the yield point reached after the
  operation at `y` was performed, the local code after it executed and the guards on the way
  evaluated under the valuation `gv` (`none` = the method is over).  `entryY` = the first yield point
  of the method.  Semantics assumed (the Python subset): sequencing, `with` (acquire; release at every
  exit: normal, `break`, `return`, exception), `while` / `for chunk in chunks(…)` (`break` leaves the
  innermost loop), `if` with short-circuit `or` / `not` (a guard that calls `go.is_set()` is itself a
  yield point and is RESUMED with the value read), `try … finally` (the `finally` block runs at
  every exit, then the exit goes on), `try … except IndexError`, calls of anchored methods inlined
  (two levels, as `yieldsOf`).

  Structural recursion on `Skel` (so `decide` / `rfl` evaluate): the continuation of a block is a
  record of the yield points reached at each kind of exit, all computed under the one valuation of
  the step.  A loop whose body has no yield point on the path taken does not yield again: `none`.
  Mathlib-free.
-/
import ALV.Model.C17Skel
namespace ALV.C17

/-- how the block a `with` / `finally` closes was left (part of the control state at a `rel`) -/
inductive Exit where
  | normal | brk | ret | exc
  deriving DecidableEq, Repr, Inhabited

/-- valuation of the guards and of the outcomes of local code, for ONE step -/
structure Gv where
  halting : Bool := false        -- `self.halting` (AudioThread)
  go : Bool := false             -- what `go.is_set()` returns
  more : Bool := false           -- `chunks(…)` has another chunk (or raises when asked)
  inThreads : Bool := false      -- `self in self.device_manager._threads`
  finished : Bool := false       -- `self.finished` (AudioIO)
  wait : Bool := false           -- `self.wait`
  recordings : Bool := false     -- `self._recordings` non-empty
  threadsEmpty : Bool := false   -- `self._threads[0]` raises IndexError
  streamsOpen : Bool := false    -- `assert not self._pa._streams` fails
  raises : Bool := false         -- the operation performed at this step raises
  exit : Exit := .normal         -- how the block was left whose lock this step releases
  deriving DecidableEq, Repr, Inhabited

/-- what the interpreter returns: the LOCAL operations (no yield point: flags, list maintenance)
    executed on the way, in order, and the yield point reached (`none`: the thread's method is over) -/
abbrev R := List Op × Option Y
def R.cons (o : Op) (r : R) : R := (o :: r.1, r.2)
def R.at (y : Y) : R := ([], some y)
def R.over : R := ([], none)

/-- what is reached at each kind of exit of a block -/
structure Ctx where
  nxt : R := R.over              -- the block falls off its end
  brk : R := R.over
  ret : R := R.over
  exc : R := R.over              -- an exception (not IndexError of `_threads[0]`)
  ie : R := R.over               -- IndexError of `_threads[0]`
  deriving Repr, Inhabited

def evalG (gv : Gv) : G → Bool
  | .tt => true
  | .halting => gv.halting
  | .goIsSet => gv.go
  | .finished => gv.finished
  | .wait => gv.wait
  | .inThreads => gv.inThreads
  | .recordings => gv.recordings
  | .not g => !evalG gv g
  | .or a b => evalG gv a || evalG gv b

def hasIsSet : G → Bool
  | .goIsSet => true
  | .not g => hasIsSet g
  | .or a b => hasIsSet a || hasIsSet b
  | _ => false

/-- the (short-circuit) evaluation of the guard reaches a call of `go.is_set()` -/
def reachesIsSet (gv : Gv) : G → Bool
  | .goIsSet => true
  | .not g => reachesIsSet gv g
  | .or a b => reachesIsSet gv a || (!evalG gv a && reachesIsSet gv b)
  | _ => false

/-- value of a guard whose evaluation was suspended at its `go.is_set()` and is resumed with `gv.go`
    (what was evaluated before the call was false — else the `or` had been decided) -/
def resumeG (gv : Gv) : G → Bool
  | .goIsSet => gv.go
  | .not g => !resumeG gv g
  | .or a b => if hasIsSet a then resumeG gv a || evalG gv b else resumeG gv b
  | g => evalG gv g

def Ctx.leave (c : Ctx) (kf : R) : Exit → R
  | .normal => kf
  | .brk => c.brk
  | .ret => c.ret
  | .exc => c.exc

/-- local operations executed and first yield point reached when the block is executed with `held`
    locks and continuation `c` -/
def firstWith (gv : Gv) (callF : Meth → List Lk → Ctx → R) : List Lk → Skel → Ctx → R
  | _, .done, c => c.nxt
  | _, .brk, c => c.brk
  | _, .ret, c => c.ret
  | _, .raise, c => c.exc
  | held, .op (.call m) k, c =>
    let kf := firstWith gv callF held k c
    callF m held { nxt := kf, ret := kf, exc := c.exc, ie := c.exc }
  | held, .op .thrFirst k, c =>
    if gv.threadsEmpty then c.ie else R.cons .thrFirst (firstWith gv callF held k c)
  | held, .op .assertNoStreams k, c => if gv.streamsOpen then c.exc else firstWith gv callF held k c
  | held, .op o k, c => if o.yields then R.at (.ev o, held) else R.cons o (firstWith gv callF held k c)
  | held, .withL l _ _, _ => R.at (.acq l, held)
  | held, .whileG g b k, c =>
    let kf := firstWith gv callF held k c
    if reachesIsSet gv g then R.at (.isSet, held)
    else if evalG gv g then
      let again := if evalG gv g then firstWith gv callF held b { c with brk := kf, nxt := R.over } else kf
      firstWith gv callF held b { c with brk := kf, nxt := again }
    else kf
  | held, .forChunks b k, c =>
    let kf := firstWith gv callF held k c
    if gv.more then
      let again := if gv.more then firstWith gv callF held b { c with brk := kf, nxt := R.over } else kf
      firstWith gv callF held b { c with brk := kf, nxt := again }
    else kf
  | held, .ifG g t e k, c =>
    let kf := firstWith gv callF held k c
    if reachesIsSet gv g then R.at (.isSet, held)
    else if evalG gv g then firstWith gv callF held t { c with nxt := kf }
    else firstWith gv callF held e { c with nxt := kf }
  | held, .tryFinally b f k, c =>
    let kf := firstWith gv callF held k c
    let fin := fun (tgt : R) => firstWith gv callF held f { c with nxt := tgt }
    firstWith gv callF held b { nxt := fin kf, brk := fin c.brk, ret := fin c.ret, exc := fin c.exc, ie := fin c.ie }
  | held, .tryIndexError b h k, c =>
    let kf := firstWith gv callF held k c
    firstWith gv callF held b { c with nxt := kf, ie := firstWith gv callF held h { c with nxt := kf } }

/-- `some r`: the yield point `y` is in this block and `r` is what follows it; `none`: not here -/
def afterWith (gv : Gv) (callF : Meth → List Lk → Ctx → R)
    (callA : Meth → List Lk → Ctx → Option R) (y : Y) :
    List Lk → Skel → Ctx → Option R
  | _, .done, _ | _, .brk, _ | _, .ret, _ | _, .raise, _ => none
  | held, .op (.call m) k, c =>
    let kf := firstWith gv callF held k c
    (callA m held { nxt := kf, ret := kf, exc := c.exc, ie := c.exc }).orElse fun _ =>
      afterWith gv callF callA y held k c
  | held, .op o k, c =>
    if o.yields && y == (.ev o, held) then some (if gv.raises then c.exc else firstWith gv callF held k c)
    else afterWith gv callF callA y held k c
  | held, .withL l b k, c =>
    let kf := firstWith gv callF held k c
    let rel : R := R.at (.rel l, l :: held)
    let relE : R := R.at (.relExc l, l :: held)
    let bc : Ctx := { nxt := rel, brk := rel, ret := rel, exc := relE, ie := relE }
    if y == (.acq l, held) then some (firstWith gv callF (l :: held) b bc)
    else if y == (.rel l, l :: held) then some (c.leave kf gv.exit)
    else if y == (.relExc l, l :: held) then some c.exc
    else (afterWith gv callF callA y (l :: held) b bc).orElse fun _ => afterWith gv callF callA y held k c
  | held, .whileG g b k, c =>
    let kf := firstWith gv callF held k c
    let bc : Ctx := { c with brk := kf, nxt := firstWith gv callF held (.whileG g b k) c }
    if hasIsSet g && y == (.isSet, held) then
      some (if resumeG gv g then firstWith gv callF held b bc else kf)
    else (afterWith gv callF callA y held b bc).orElse fun _ => afterWith gv callF callA y held k c
  | held, .forChunks b k, c =>
    let kf := firstWith gv callF held k c
    let bc : Ctx := { c with brk := kf, nxt := firstWith gv callF held (.forChunks b k) c }
    (afterWith gv callF callA y held b bc).orElse fun _ => afterWith gv callF callA y held k c
  | held, .ifG g t e k, c =>
    let kf := firstWith gv callF held k c
    if hasIsSet g && y == (.isSet, held) then
      some (if resumeG gv g then firstWith gv callF held t { c with nxt := kf }
            else firstWith gv callF held e { c with nxt := kf })
    else ((afterWith gv callF callA y held t { c with nxt := kf }).orElse fun _ =>
           afterWith gv callF callA y held e { c with nxt := kf }).orElse fun _ =>
           afterWith gv callF callA y held k c
  | held, .tryFinally b f k, c =>
    let kf := firstWith gv callF held k c
    let fin := fun (tgt : R) => firstWith gv callF held f { c with nxt := tgt }
    let bc : Ctx := { nxt := fin kf, brk := fin c.brk, ret := fin c.ret, exc := fin c.exc, ie := fin c.ie }
    ((afterWith gv callF callA y held b bc).orElse fun _ =>
      afterWith gv callF callA y held f { c with nxt := c.leave kf gv.exit }).orElse fun _ =>
      afterWith gv callF callA y held k c
  | held, .tryIndexError b h k, c =>
    let kf := firstWith gv callF held k c
    let hc : Ctx := { c with nxt := kf }
    ((afterWith gv callF callA y held b { c with nxt := kf, ie := firstWith gv callF held h hc }).orElse fun _ =>
      afterWith gv callF callA y held h hc).orElse fun _ => afterWith gv callF callA y held k c

/-- calls inside an inlined call contribute nothing (as in `yieldsOf`) -/
def callF0 : Meth → List Lk → Ctx → R := fun _ _ c => c.nxt
def callF1 (tbl : List (String × Skel)) (gv : Gv) : Meth → List Lk → Ctx → R :=
  fun m held c => firstWith gv callF0 held (methTable tbl m) c
def callA1 (tbl : List (String × Skel)) (gv : Gv) (y : Y) : Meth → List Lk → Ctx → Option R :=
  fun m held c => afterWith gv callF0 (fun _ _ _ => none) y held (methTable tbl m) c

/-- the local operations before, and the first yield point of, method `name` -/
def entryY (tbl : List (String × Skel)) (name : String) (gv : Gv) : R :=
  firstWith gv (callF1 tbl gv) [] (lookupSk tbl name) {}

/-- what follows the yield point `y`: the local operations executed and the yield point reached
    (`none`: `y` is not a yield point of the method; `some (_, none)`: the method is over) -/
def nextY (tbl : List (String × Skel)) (name : String) (gv : Gv) (y : Y) : Option R :=
  afterWith gv (callF1 tbl gv) (callA1 tbl gv y) y [] (lookupSk tbl name) {}

/-- the program counter of a player thread that stands for a yield point of `run` (`none`: done) -/
def pcOfY : Option Y → PPc
  | none => .done
  | some y => (runPcs.find? fun pc => ppcY pc == some y).getD .new

/-- **the successor function of a player thread, computed from the skeleton**: `begin` goes to the
    first yield point of `AudioThread.run`, every other program counter to the yield point that
    follows its own (`new` for a program counter that is no yield point of the method) -/
def nextPc (tbl : List (String × Skel)) (gv : Gv) (pc : PPc) : PPc :=
  match pc with
  | .begin => pcOfY (entryY tbl "AudioThread.run" gv).2
  | pc =>
    match ppcY pc with
    | none => .new
    | some y =>
      match nextY tbl "AudioThread.run" gv y with
      | none => .new
      | some r => pcOfY r.2

/-- the guards of `run` in state `s`, as player `i` (= `p`) reads them in its next step -/
def playerGv (s : State) (i : Nat) (p : Player) : Gv :=
  { halting := p.halting, go := p.go, more := !(p.todo.isEmpty && !p.fail),
    inThreads := s.threads.contains i,
    raises := p.pc == .write && p.todo.isEmpty }

-- ---------------------------------------------------------------------------------------------
-- effects: what the operation at a yield point, and the local operations after it, do to the state
-- ---------------------------------------------------------------------------------------------

/-- effect of the operation at yield point `y` performed by player `i` (its record, the rest of the
    state): a lock operation on the lock the skeleton names, one backend call on the thread's device
    stream (refused by PortAudio — `perr` — after `terminate` / on a closed stream / a write on a
    stream that is not active), a write hands the next chunk over; event tests and waits change nothing -/
def applyYP (i : Nat) : Y → Player × State → Player × State
  | (.acq .thr, _), (p, s) => ({ p with lk := some (.player i) }, s)
  | (.acq .mgr, _), (p, s) => (p, { s with mlock := some (.player i) })
  | (.rel .thr, _), (p, s) => ({ p with lk := none }, s)
  | (.rel .mgr, _), (p, s) => (p, { s with mlock := none })
  | (.ev .write, _), (p, s) =>
    match p.todo with
    | [] => (p, s)
    | c :: rest =>
      ({ p with written := p.written ++ [c], todo := rest },
       { s with perr := s.perr || (decide (s.terminated > 0) || p.sst == .closed) || p.sst != .active })
  | (.ev .stopStream, _), (p, s) =>
    ({ p with sst := .stopped }, { s with perr := s.perr || (decide (s.terminated > 0) || p.sst == .closed) })
  | (.ev .startStream, _), (p, s) =>
    ({ p with sst := .active }, { s with perr := s.perr || (decide (s.terminated > 0) || p.sst == .closed) })
  | (.ev .closeStream, _), (p, s) =>
    ({ p with sst := .closed }, { s with perr := s.perr || (decide (s.terminated > 0) || p.sst == .closed) })
  | _, ps => ps

/-- effect of a local operation executed by player `i` (`run` has one: `_threads.remove(thread)`) -/
def applyLocalP (i : Nat) : Player × State → Op → Player × State
  | (p, s), .thrRemove => (p, { s with threads := s.threads.erase i })
  | ps, _ => ps

/-- **one step of a player thread, computed from the skeleton**: perform the operation at the pending
    yield point, execute the local operations on the way and publish the next yield point -/
def stepOfSkel (tbl : List (String × Skel)) (s : State) (i : Nat) (p : Player) : State :=
  let gv := playerGv s i p
  let fin := fun (r : R) (ps : Player × State) =>
    let ps' := r.1.foldl (applyLocalP i) ps
    setP ps'.2 i { ps'.1 with pc := pcOfY r.2 }
  match p.pc with
  | .begin => fin (entryY tbl "AudioThread.run" gv) (p, s)
  | pc =>
    match ppcY pc with
    | none => s
    | some y =>
      match nextY tbl "AudioThread.run" gv y with
      | none => s
      | some r => fin r (applyYP i y (p, s))

-- ---------------------------------------------------------------------------------------------
-- the control thread: `AudioIO.play`, `AudioIO.close`, `AudioThread.pause` / `play` / `stop`
-- ---------------------------------------------------------------------------------------------

/-- the method behind a control call -/
def ctlMeth : Ctl → String
  | .pause => "AudioThread.pause"
  | .resume => "AudioThread.play"
  | .stop => "AudioThread.stop"

/-- the anchored method a program counter of the control thread is a yield point of -/
def mpcMethod : MPc → Option String
  | .begin | .done | .jJoin _ => none
  | .pAcq _ _ | .pRaiseRel | .pGoSet _ | .pOpen _ | .pStart _ | .pRel => some "AudioIO.play"
  | .cAcq k _ | .cEvt k _ | .cRel k _ => some (ctlMeth k)
  | .kHAcq | .kMAcq | .kMRel _ | .kSAcq _ | .kSEvt _ | .kSRel _ | .kJoin _ | .kTerm | .kAssertRel | .kHRel _ =>
    some "AudioIO.close"

/-- the program counters whose step ends the call (the last lock release of the method) -/
def mpcReturns : MPc → Bool
  | .pRaiseRel | .pRel | .cRel _ _ | .kAssertRel | .kHRel _ => true
  | _ => false

/-- the guards of `play` / `close` as the control thread reads them in its next step; the one piece
    of control state a program counter carries besides its yield point: `kMRel none` releases the
    manager's lock on the way out of the loop (`break` in the `except IndexError`) -/
def mainGv (cfg : Cfg) (s : State) : Gv :=
  { finished := s.finished, wait := cfg.wait, threadsEmpty := s.threads.isEmpty,
    streamsOpen := s.players.any streamOpen,
    exit := match s.mpc with
      | .kMRel none => .brk
      | _ => .normal }

/-- the thread object a program counter of the control thread works on (its record is loaded once
    per step, the operations of the step act on it, it is written back at the end) -/
def mainTarget : MPc → Option Nat
  | .pGoSet i | .pOpen i | .pStart i | .cAcq _ i | .cEvt _ i | .cRel _ i | .kSAcq i | .kSEvt i | .kSRel i => some i
  | _ => none

/-- (the record of the thread object of the call, the rest of the state) -/
abbrev MS := Option Player × State

/-- effect of the operation at yield point `y` performed by the control thread -/
def applyYM : Y → MS → MS
  | (.acq .mgr, _), (t, s) => (t, { s with mlock := some .main })
  | (.acq .hlt, _), (t, s) => (t, { s with hlock := some .main })
  | (.acq .thr, _), (t, s) => (t.map fun p => { p with lk := some .main }, s)
  | (.rel .mgr, _), (t, s) => (t, { s with mlock := none })
  | (.relExc .mgr, _), (t, s) => (t, { s with mlock := none })
  | (.rel .hlt, _), (t, s) => (t, { s with hlock := none })
  | (.relExc .hlt, _), (t, s) => (t, { s with hlock := none })
  | (.rel .thr, _), (t, s) => (t.map fun p => { p with lk := none }, s)
  | (.ev .goSet, _), (t, s) => (t.map fun p => { p with go := true }, s)
  | (.ev .goClear, _), (t, s) => (t.map fun p => { p with go := false }, s)
  | (.ev .paOpen, _), (t, s) =>
    (t.map fun p => { p with sst := .active }, { s with perr := s.perr || decide (s.terminated > 0) })
  | (.ev .thrStart, _), (t, s) => (t.map fun p => { p with pc := .begin }, s)
  | (.ev .paTerminate, _), (t, s) => (t, { s with terminated := s.terminated + 1 })
  | _, ms => ms

/-- effect of a local operation of the control thread at program counter `mpc`: the flags, the list
    `_threads`, and the creation of the thread object (`AudioThread.__init__` up to its first yield
    point: the record with its initial values — lock free, event clear, `halting = False`, which the
    later `self.halting = False` of `__init__` does not change) -/
def applyLocalM (mpc : MPc) (fails : List Bool) : MS → Op → MS
  | (t, s), .setFinished v => (t, { s with finished := v })
  | (t, s), .setHalting true => (t.map fun p => { p with halting := true }, s)
  | (t, s), .thrAppend =>
    match mainTarget mpc with
    | some i => (t, { s with threads := s.threads ++ [i] })
    | none => (t, s)
  | (t, s), .newLock .thr =>
    match mpc with
    | .pAcq audio cs =>
      let f := fails.getD s.players.length false
      let ch := playChunks cs audio f
      (t, { s with players := s.players ++ [{ pc := .new, audio := audio, cs := cs, all := ch, todo := ch,
                                               written := [], sst := .unopened, lk := none, go := false,
                                               halting := false, fail := f }] })
    | _ => (t, s)
  | ms, _ => ms

/-- **the state after one step of the control thread inside a call, computed from the skeleton**
    (all but the program counter / the return to the script): the operation at the pending yield
    point, then the local operations up to the next one; `t` = the record of the thread object -/
def mainStepEff (tbl : List (String × Skel)) (cfg : Cfg) (s : State) (t : Option Player) (m : String) (y : Y) :
    Option State :=
  (nextY tbl m (mainGv cfg s) y).map fun r =>
    let ms := r.1.foldl (applyLocalM s.mpc cfg.fails) (applyYM y (t, s))
    match mainTarget s.mpc, ms.1 with
    | some i, some q => setP ms.2 i q
    | _, _ => ms.2

end ALV.C17
