/-
  C17 — the SYNCHRONISATION SKELETON of `AudioIO` / `AudioThread` (deep embedding).

  `harness/props/c17_tr.py` reads `audiolazy/lazy_io.py` with `ast` and writes, for each anchored
  method, its skeleton as a value of `Skel` (`lean/ALV/Gen/C17Src.lean`, regenerated on every check):
  every statement of the method is either one of the operations the transition system
  `ALV.Model.C17` has steps (or local code) for, a control construct (`with <lock>:`, `while`, `for
  chunk in chunks(…)`, `if`, `try … finally`, `try … except IndexError`, `break`, `return`, `raise`),
  or local code that touches no synchronisation object and is dropped — anything else is a
  translation failure.  Source order and nesting are kept.

  This file: the datatype, the readers that take the model's switches from the skeleton
  (`variantOf` = `Cfg.fixed`, `dieVariantOf` = `FCfg.dieFixed`), the linearisation `yields` (the
  yield points of a method in source order, each with the locks held there, calls of other anchored
  methods inlined), the tables that say which yield point each program counter of the model is
  (`ppcY`, `mpcY`), and the hand transcription `documentedSkeleton` the comments of the model refer
  to.  `ALV.Lemmas.C17Src` proves that the regenerated skeleton is the documented one, that the
  model's program counters are its yield points, and what each kind of yield point does in
  `stepPlayer` / `stepMain`.

  A `Skel` is a statement SEQUENCE in continuation form (every constructor but the terminators has
  the rest of the block as its last argument): plainly recursive, so `DecidableEq` is derived and
  `decide` evaluates.  Mathlib-free.
-/
import ALV.Model.C17Fine
namespace ALV.C17

/-- the three locks -/
inductive Lk where
  | hlt        -- `AudioIO.halting`
  | mgr        -- `AudioIO.lock`
  | thr        -- `AudioThread.lock`
  deriving DecidableEq, Repr, Inhabited

/-- anchored methods that are called from other anchored methods -/
inductive Meth where
  | stop               -- `thread.stop()`
  | close              -- `self.close()`
  | threadFinished     -- `self.device_manager.thread_finished(self)`
  | threadInit         -- `AudioThread(self, audio, **kwargs)`
  deriving DecidableEq, Repr, Inhabited

inductive Op where
  | goSet | goClear | goWait                           -- `self.go.set()` / `.clear()` / `.wait()`
  | setHalting (v : Bool)                              -- `self.halting = v` (AudioThread)
  | setFinished (v : Bool)                             -- `self.finished = v` (AudioIO)
  | write | stopStream | startStream | closeStream     -- device stream of the thread
  | paOpen | paTerminate                               -- `_pa.open(…)`, `_pa.terminate()`
  | newLock (l : Lk) | newEvent                        -- `threading.Lock()` / `threading.Event()` stored
  | thrFirst | thrAppend | thrRemove                   -- `thread = _threads[0]`, `.append(new)`, `.remove(thread)`
  | thrStart | thrJoin                                 -- `new_thread.start()`, `thread.join()`
  | recLast | recStop | recDrain | recFilter           -- `recst = _recordings[-1]`, `.stop()`, `.take(inf)`, filter by identity
  | assertNoStreams                                    -- `assert not self._pa._streams`
  | call (m : Meth)
  deriving DecidableEq, Repr, Inhabited

/-- guards of `if` / `while` -/
inductive G where
  | tt                 -- `True`
  | halting            -- `self.halting` (AudioThread)
  | goIsSet            -- `self.go.is_set()` — a yield point
  | finished           -- `self.finished` (AudioIO)
  | wait               -- `self.wait`
  | inThreads          -- `self in self.device_manager._threads`
  | recordings         -- `self._recordings`
  | not (g : G)
  | or (a b : G)
  deriving DecidableEq, Repr, Inhabited

inductive Skel where
  | done                                               -- end of the block
  | op (o : Op) (k : Skel)
  | withL (l : Lk) (body k : Skel)
  | whileG (g : G) (body k : Skel)
  | forChunks (body k : Skel)                          -- `for chunk in chunks(self.audio, …):`
  | ifG (g : G) (thn els k : Skel)
  | tryFinally (body fin k : Skel)
  | tryIndexError (body handler k : Skel)              -- `try: … except IndexError: …`
  | brk | ret | raise                                  -- terminators
  deriving DecidableEq, Repr, Inhabited

def lookupSk (tbl : List (String × Skel)) (name : String) : Skel :=
  match tbl.find? (fun e => e.1 == name) with
  | some e => e.2
  | none => .done

-- ---------------------------------------------------------------------------------------------
-- readers: the switches of the model
-- ---------------------------------------------------------------------------------------------

/-- every operation of a method, in source order (no inlining) -/
def opsOf : Skel → List Op
  | .done | .brk | .ret | .raise => []
  | .op o k => o :: opsOf k
  | .withL _ b k => opsOf b ++ opsOf k
  | .whileG _ b k => opsOf b ++ opsOf k
  | .forChunks b k => opsOf b ++ opsOf k
  | .ifG _ t e k => opsOf t ++ opsOf e ++ opsOf k
  | .tryFinally b f k => opsOf b ++ opsOf f ++ opsOf k
  | .tryIndexError b h k => opsOf b ++ opsOf h ++ opsOf k

/-- the code that follows the first occurrence of operation `o` in its block -/
def afterOp (o : Op) : Skel → Option Skel
  | .done | .brk | .ret | .raise => none
  | .op o' k => if o' = o then some k else afterOp o k
  | .withL _ b k => (afterOp o b).orElse fun _ => afterOp o k
  | .whileG _ b k => (afterOp o b).orElse fun _ => afterOp o k
  | .forChunks b k => (afterOp o b).orElse fun _ => afterOp o k
  | .ifG _ t e k => ((afterOp o t).orElse fun _ => afterOp o e).orElse fun _ => afterOp o k
  | .tryFinally b f k => ((afterOp o b).orElse fun _ => afterOp o f).orElse fun _ => afterOp o k
  | .tryIndexError b h k => ((afterOp o b).orElse fun _ => afterOp o h).orElse fun _ => afterOp o k

/-- `Cfg.fixed`, READ from `AudioThread.stop` and `AudioThread.run`:
    `some true`  = `stop()` is `with self.lock: halting = True; go.set()`, the loop of `run` tests
                   `self.halting or not self.go.is_set()` after the write and re-tests `halting` (`break`)
                   after `go.wait()`;
    `some false` = `stop()` is `with self.lock: go.clear(); halting = True`, `run` tests `not
                   self.go.is_set()` and goes on with `start_stream` after `go.wait()`;
    `none`       = neither: the transition system has no variant for this source. -/
def variantOf (stop run : Skel) : Option Bool :=
  let afterWrite := afterOp .write run
  let afterWait := afterOp .goWait run
  if stop = .withL .thr (.op (.setHalting true) (.op .goSet .done)) .done then
    match afterWrite, afterWait with
    | some (.ifG (.or .halting (.not .goIsSet)) _ .done _),
      some (.ifG .halting .brk .done (.op .startStream _)) => some true
    | _, _ => none
  else if stop = .withL .thr (.op .goClear (.op (.setHalting true) .done)) .done then
    match afterWrite, afterWait with
    | some (.ifG (.not .goIsSet) _ .done _), some (.op .startStream _) => some false
    | _, _ => none
  else none

/-- the epilogue of `run` (own lock; if still registered: close the device stream, unregister) -/
def epilogue : Skel :=
  .withL .thr (.ifG .inThreads (.op .closeStream (.op (.call .threadFinished) .done)) .done .done) .done

/-- `FCfg.dieFixed`, READ from `AudioThread.run`: `some true` = the loop is the body of a `try` whose
    `finally` is the epilogue (an exception of the played iterable still runs it); `some false` = the
    epilogue follows the loop (an exception skips it: D21); `none` = neither. -/
def dieVariantOf (run : Skel) : Option Bool :=
  match run with
  | .tryFinally (.forChunks _ .done) fin .done => if fin = epilogue then some true else none
  | .forChunks _ k => if k = epilogue then some false else none
  | _ => none

-- ---------------------------------------------------------------------------------------------
-- linearisation: the yield points of a method, in source order, with the locks held
-- ---------------------------------------------------------------------------------------------

/-- what a thread does at a yield point of the scheduler -/
inductive YOp where
  | acq (l : Lk)
  | rel (l : Lk)          -- end of a `with` block
  | relExc (l : Lk)       -- a `with` block left by an exception raised inside it (`raise`, a failing `assert`)
  | isSet                 -- `go.is_set()` inside a guard
  | ev (o : Op)           -- event / thread / backend operation
  deriving DecidableEq, Repr, Inhabited

abbrev Y := YOp × List Lk     -- (operation, locks held by the thread when it is pending; innermost first)

/-- operations that are yield points (the others are local code: flags and list maintenance) -/
def Op.yields : Op → Bool
  | .goSet | .goClear | .goWait | .write | .stopStream | .startStream | .closeStream
  | .paOpen | .paTerminate | .thrStart | .thrJoin => true
  | _ => false

def gYields : G → List YOp
  | .goIsSet => [.isSet]
  | .not g => gYields g
  | .or a b => gYields a ++ gYields b
  | _ => []

/-- `callY m held`: the yield points of a call of the anchored method `m` made with `held` locks -/
def yieldsWith (callY : Meth → List Lk → List Y) : List Lk → Skel → List Y
  | _, .done | _, .brk | _, .ret => []
  | held, .raise => held.map fun l => (.relExc l, held)
  | held, .op (.call m) k => callY m held ++ yieldsWith callY held k
  | held, .op .assertNoStreams k => (held.map fun l => (YOp.relExc l, held)) ++ yieldsWith callY held k
  | held, .op o k => (if o.yields then [(.ev o, held)] else []) ++ yieldsWith callY held k
  | held, .withL l b k =>
    (.acq l, held) :: yieldsWith callY (l :: held) b ++ (.rel l, l :: held) :: yieldsWith callY held k
  | held, .whileG g b k => (gYields g).map (·, held) ++ yieldsWith callY held b ++ yieldsWith callY held k
  | held, .forChunks b k => yieldsWith callY held b ++ yieldsWith callY held k
  | held, .ifG g t e k =>
    (gYields g).map (·, held) ++ yieldsWith callY held t ++ yieldsWith callY held e ++ yieldsWith callY held k
  | held, .tryFinally b f k => yieldsWith callY held b ++ yieldsWith callY held f ++ yieldsWith callY held k
  | held, .tryIndexError b h k => yieldsWith callY held b ++ yieldsWith callY held h ++ yieldsWith callY held k

def methTable (tbl : List (String × Skel)) : Meth → Skel
  | .stop => lookupSk tbl "AudioThread.stop"
  | .close => lookupSk tbl "AudioIO.close"
  | .threadFinished => lookupSk tbl "AudioIO.thread_finished"
  | .threadInit => lookupSk tbl "AudioThread.__init__"

/-- calls of anchored methods inlined two levels deep (`close → stop`, `play → __init__`,
    `run → thread_finished`; a call inside an inlined call contributes nothing) -/
def yieldsOf (tbl : List (String × Skel)) (name : String) : List Y :=
  yieldsWith (fun m held => yieldsWith (fun _ _ => []) held (methTable tbl m)) [] (lookupSk tbl name)

-- ---------------------------------------------------------------------------------------------
-- the model's program counters as yield points
-- ---------------------------------------------------------------------------------------------

/-- the yield point each program counter of a player thread stands for -/
def ppcY : PPc → Option Y
  | .new | .begin | .done => none
  | .write => some (.ev .write, [])
  | .isSet => some (.isSet, [])
  | .stopStream => some (.ev .stopStream, [])
  | .goWait => some (.ev .goWait, [])
  | .startStream => some (.ev .startStream, [])
  | .finAcq => some (.acq .thr, [])
  | .closeStream => some (.ev .closeStream, [.thr])
  | .tfAcq => some (.acq .mgr, [.thr])
  | .tfRel => some (.rel .mgr, [.mgr, .thr])
  | .finRel => some (.rel .thr, [.thr])

/-- the program counters of `AudioThread.run` (with `thread_finished` inlined), in source order -/
def runPcs : List PPc :=
  [.write, .isSet, .stopStream, .goWait, .startStream, .finAcq, .closeStream, .tfAcq, .tfRel, .finRel]

/-- the event operation of a control call -/
def ctlOp (fixed : Bool) : Ctl → Op
  | .pause => .goClear
  | .resume => .goSet
  | .stop => if fixed then .goSet else .goClear

/-- the yield point each program counter of the control thread stands for (`fixed`: which `stop()`) -/
def mpcY (fixed : Bool) : MPc → Option Y
  | .begin | .done => none
  | .pAcq _ _ => some (.acq .mgr, [])
  | .pRaiseRel => some (.relExc .mgr, [.mgr])
  | .pGoSet _ => some (.ev .goSet, [.mgr])
  | .pOpen _ => some (.ev .paOpen, [.mgr])
  | .pStart _ => some (.ev .thrStart, [.mgr])
  | .pRel => some (.rel .mgr, [.mgr])
  | .cAcq _ _ => some (.acq .thr, [])
  | .cEvt k _ => some (.ev (ctlOp fixed k), [.thr])
  | .cRel _ _ => some (.rel .thr, [.thr])
  | .jJoin _ => some (.ev .thrJoin, [])
  | .kHAcq => some (.acq .hlt, [])
  | .kMAcq => some (.acq .mgr, [.hlt])
  | .kMRel _ => some (.rel .mgr, [.mgr, .hlt])
  | .kSAcq _ => some (.acq .thr, [.hlt])
  | .kSEvt _ => some (.ev (ctlOp fixed .stop), [.thr, .hlt])
  | .kSRel _ => some (.rel .thr, [.thr, .hlt])
  | .kJoin _ => some (.ev .thrJoin, [.hlt])
  | .kAssertRel => some (.relExc .hlt, [.hlt])
  | .kTerm => some (.ev .paTerminate, [.hlt])
  | .kHRel _ => some (.rel .hlt, [.hlt])

/-- program counters of `AudioIO.play` (with `AudioThread.__init__` inlined), in source order -/
def playPcs : List MPc := [.pAcq [] 0, .pRaiseRel, .pGoSet 0, .pOpen 0, .pStart 0, .pRel]
/-- program counters of `AudioIO.close` (with `thread.stop()` inlined), in source order -/
def closePcs : List MPc :=
  [.kHAcq, .kMAcq, .kMRel none, .kSAcq 0, .kSEvt 0, .kSRel 0, .kJoin 0, .kAssertRel, .kTerm, .kHRel true]
/-- program counters of `th.pause()` / `th.play()` / `th.stop()` -/
def ctlPcs (k : Ctl) : List MPc := [.cAcq k 0, .cEvt k 0, .cRel k 0]

/-- the lock a `Lk` names, seen from player `p` of state `s` -/
def lockOf (s : State) (p : Player) : Lk → Option Tid
  | .hlt => s.hlock
  | .mgr => s.mlock
  | .thr => p.lk

-- ---------------------------------------------------------------------------------------------
-- the hand transcription the comments of `ALV.Model.C17` refer to (the source as of /repo today)
-- ---------------------------------------------------------------------------------------------

def docClose : Skel :=
  .withL .hlt (
    .ifG (.not .finished) (
      .op (.setFinished true) <|
      .whileG .tt (
        .withL .mgr (
          .tryIndexError (.op .thrFirst .done) .brk .done) <|
        .ifG (.not .wait) (.op (.call .stop) .done) .done <|
        .op .thrJoin .done) <|
      .whileG .recordings (
        .op .recLast <| .op .recStop <| .op .recDrain .done) <|
      .op .assertNoStreams <|
      .op .paTerminate .done) .done .done) .done

def docPlay : Skel :=
  .withL .mgr (
    .ifG .finished .raise .done <|
    .op (.call .threadInit) <|
    .op .thrAppend <|
    .op .thrStart <|
    .ret) .done

def docInit : Skel :=
  .op (.newLock .thr) <| .op .newEvent <| .op .goSet <| .op (.setHalting false) <| .op .paOpen .done

def docRun : Skel :=
  .tryFinally (
    .forChunks (
      .op .write <|
      .ifG (.or .halting (.not .goIsSet)) (
        .op .stopStream <|
        .ifG .halting .brk .done <|
        .op .goWait <|
        .ifG .halting .brk .done <|
        .op .startStream .done) .done .done) .done)
    epilogue .done

def documentedSkeleton : List (String × Skel) := [
  ("AudioIO.__exit__", .op (.call .close) .done),
  ("AudioIO.close", docClose),
  ("AudioIO.terminate", .op (.call .close) .done),
  ("AudioIO.play", docPlay),
  ("AudioIO.thread_finished", .withL .mgr (.op .thrRemove .done) .done),
  ("AudioIO.recording_finished", .op .recFilter .done),
  ("AudioThread.__init__", docInit),
  ("AudioThread.run", docRun),
  ("AudioThread.stop", .withL .thr (.op (.setHalting true) (.op .goSet .done)) .done),
  ("AudioThread.pause", .withL .thr (.op .goClear .done) .done),
  ("AudioThread.play", .withL .thr (.op .goSet .done) .done)]

end ALV.C17
