/-
  C16 — model of `audiolazy.lazy_stream.Streamix` and `ControlStream` (code shaped).
  Mathlib-free; executable.

  Streamix (lazy_stream.py:684-746).  One object, driven by a history of operations:

    __init__ :  _not_playing = deque(); _playing = []; keep; generator not started
    add(delta, data):
        if delta < 0: raise ValueError            # nothing was changed before the raise
        _not_playing.append((delta, iter(data)))
    data_generator (one `next` = one trip round the `while True`):
        count = 0.5                               # once
        while _not_playing and count >= _not_playing[0][0]:      -- `startLoop`
            delta, newdata = popleft(); _playing.append(newdata); count -= delta
        data = zero
        for snd in _playing:                                      -- `poll`
            try: data += next(snd)
            except StopIteration: to_remove.append(snd)
        remove every snd of to_remove from _playing               -- (same `poll`: the kept list)
        if not (keep or _playing or _not_playing): break          -- generator finishes: `ended`
        yield data
        count += 1.

  An event's data is a finite list (the items its iterator still has to give); `next(snd)` on
  an empty list is the `StopIteration` that puts the event into `to_remove`.  The items are of an
  arbitrary type with `+` (the driver uses `Rat`); `count` and the deltas are `Rat` (the tie
  feeds dyadic deltas so that the impl's float `count` is exact).

  Two simplifications against the text of the code, both removed again in the generator-level
  machine `ALV.Model.C16Gen` (which the driver runs and `ALV.Lemmas.C16Gen` proves equivalent):
  `count += 1.` is executed when the generator is resumed — here at the end of the step that
  yielded; the summing loop and the `to_remove` pass are one function (`poll`).

  A finished generator stays finished: `next` raises StopIteration for ever, `add` still
  appends to `_not_playing` (nobody reads it any more), `keep` can still be assigned.
-/
namespace ALV.C16
variable {α β : Type}

/-- one operation of a history on a Streamix -/
inductive Op (α : Type) where
  | add (delta : Rat) (data : List α)    -- smix.add(delta, data)
  | next                                 -- next(iter(smix))
  | setKeep (b : Bool)                   -- smix.keep = b

/-- what the caller of one operation sees -/
inductive Obs (α : Type) where
  | ok                                   -- `add` / assignment returned
  | valueError                           -- `add` raised ValueError
  | out (v : α) (started : Nat)          -- `next` returned v; `started` events left the queue in this step
  | stop                                 -- `next` raised StopIteration
  deriving DecidableEq

structure MState (α : Type) where
  count : Rat
  notPlaying : List (Rat × List α)       -- deque of (delta, iterator)
  playing : List (List α)                -- iterators being summed
  keep : Bool
  ended : Bool                           -- the generator has finished

def MState.init (keep : Bool) : MState α := ⟨1/2, [], [], keep, false⟩

/-- `while self._not_playing and count >= self._not_playing[0][0]: …` -/
def startLoop : Rat → List (Rat × List α) → List (List α) → Rat × List (Rat × List α) × List (List α)
  | count, [], playing => (count, [], playing)
  | count, (delta, newdata) :: q, playing =>
    if count ≥ delta then startLoop (count - delta) q (playing ++ [newdata])
    else (count, (delta, newdata) :: q, playing)

/-- the summing loop together with the removal of the finished events:
    returns the sum and the events that stay in `_playing` (order kept, one item consumed). -/
def poll [Add α] : α → List (List α) → α × List (List α)
  | data, [] => (data, [])
  | data, [] :: ps => poll data ps                     -- StopIteration ⇒ to_remove
  | data, (x :: xs) :: ps =>
    let r := poll (data + x) ps
    (r.1, xs :: r.2)

/-- `Streamix.add` -/
def madd (s : MState α) (delta : Rat) (data : List α) : MState α × Obs α :=
  if delta < 0 then (s, .valueError)
  else ({ s with notPlaying := s.notPlaying ++ [(delta, data)] }, .ok)

/-- one `next` on the generator -/
def mnext [Add α] (zero : α) (s : MState α) : MState α × Obs α :=
  if s.ended then (s, .stop)
  else
    let r := startLoop s.count s.notPlaying s.playing
    let p := poll zero r.2.2
    if s.keep = false ∧ p.2.isEmpty = true ∧ r.2.1.isEmpty = true then
      ({ s with count := r.1, notPlaying := r.2.1, playing := p.2, ended := true }, .stop)
    else
      ({ s with count := r.1 + 1, notPlaying := r.2.1, playing := p.2 },
       .out p.1 (s.notPlaying.length - r.2.1.length))

def mstep [Add α] (zero : α) (s : MState α) : Op α → MState α × Obs α
  | .add d x => madd s d x
  | .next => mnext zero s
  | .setKeep b => ({ s with keep := b }, .ok)

/-- run a history; the observations in order, and the final state -/
def mrun [Add α] (zero : α) : MState α → List (Op α) → MState α × List (Obs α)
  | s, [] => (s, [])
  | s, op :: ops =>
    let r := mstep zero s op
    let t := mrun zero r.1 ops
    (t.1, r.2 :: t.2)

/-! ### ControlStream (lazy_stream.py:436-462): `while True: yield self.value` -/

inductive COp (β : Type) where
  | set (v : β)       -- cs.value = v
  | read              -- next(iter(cs))

/-- the state is the attribute `value`; a read yields it and leaves it -/
def cstep (value : β) : COp β → β × Option β
  | .set v => (v, none)
  | .read => (value, some value)

def crun : β → List (COp β) → List (Option β)
  | _, [] => []
  | value, op :: ops =>
    let r := cstep value op
    r.2 :: crun r.1 ops

end ALV.C16
