/-
  C05 — the vocabulary the translator `harness/props/c05_tr.py` maps Python library calls to, beyond the
  operations of `ALV/Model/C05.lean` / `C07.lean` themselves.  Hand-written, short, to be audited: these
  two definitions are what the translator TRUSTS about Python (`operator.truediv` on numbers, `sum`).
  Mathlib-free.
-/
import ALV.Model.C05
namespace ALV.C05
open ALV.C07
variable {α : Type} [Add α] [Mul α] [Sub α] [Neg α] [Div α] [OfNat α 0] [OfNat α 1] [DecidableEq α]

/-- `operator.truediv(a, c)` on two numbers: ZeroDivisionError for `c == 0` -/
def numTruediv (a c : α) : Except PyErr α := if c = 0 then .error .zeroDivision else .ok (a / c)

/-- `sum(term(k, v) for k, v in p.terms())` over filters.  `terms()` of a Laurent polynomial is ascending by
power.  Python's `sum` starts at the int `0`; the first step `0 + t` is `t.__radd__(0)`, i.e. `ZFilter([0]) + t`,
and an int `0` left over from an empty polynomial is turned into `ZFilter([0])` by the reflected operator that
meets it next — both are this fold of `plus` started at `zero = ZFilter([0])`. -/
def sumTerms (zero : Except PyErr (ZF α)) (plus : ZF α → ZF α → Except PyErr (ZF α))
    (term : Int → α → Except PyErr (ZF α)) (p : MPoly α) : Except PyErr (ZF α) := do
  let z0 ← zero
  (sortAsc p).foldlM (fun acc kv => do
    let t ← term kv.1 kv.2
    plus acc t) z0

end ALV.C05
