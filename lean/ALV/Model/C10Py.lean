/-
  C10 — the VOCABULARY of the source translator `harness/props/c10_tr.py`.

  `lean/ALV/Gen/C10Src.lean` is regenerated from the text of `audiolazy/lazy_analysis.py` and
  `audiolazy/lazy_lpc.py` on every check; the definitions it emits are written with the names
  below, one per Python construct the translator accepts.  Integers of the source (`len`, loop
  variables of `xrange`, `order`, `max_lag`, `m`) are Lean `Int`s, so that `len(blk) - 1` on an
  empty block is -1 and `xrange` of a negative bound is empty, as in Python.  What is TRUSTED is
  this file read against Python: each definition states what the construct means on lists.

  Filters: a causal FIR `ZFilter` with denominator 1 is its `numlist` (see `Model/C10.lean`); the
  filter expressions of the two loops are mapped to the coefficient-list operations of the model.
-/
import ALV.Model.C10
namespace ALV.C10.Py
variable {α : Type} [Add α] [Mul α] [Sub α] [Neg α] [Div α] [OfNat α 0] [OfNat α 1]

/-- `len(x)` -/
def len {β : Type} (l : List β) : Int := Int.ofNat l.length

/-- `xrange(n)` -/
def xrange (n : Int) : List Int := (List.range n.toNat).map Int.ofNat

/-- `xrange(a, b)` -/
def xrange2 (a b : Int) : List Int := (List.range (b - a).toNat).map fun k => a + Int.ofNat k

/-- `l[i]` on a list of numbers: a negative index counts from the end; out of range reads `0`
    (the `IndexError` of a subscript is not in the expression language: the model proves its reads
    in range, `Lemmas.C10Lev`, and models the one reachable `IndexError` by hand). -/
def idx (l : List α) (i : Int) : α :=
  match i with
  | .ofNat n => coef l n
  | .negSucc n => if n < l.length then coef l (l.length - 1 - n) else 0

/-- `t[i]` on a list of lists (rows of a table, a Python list of filters) -/
def row (t : List (List α)) (i : Int) : List α :=
  match i with
  | .ofNat n => t.getD n []
  | .negSucc n => if n < t.length then t.getD (t.length - 1 - n) [] else []

/-- `abs(i)` on an int -/
def pyabs (i : Int) : Int := Int.ofNat i.natAbs

/-- builtin `sum` -/
def pysum (l : List α) : α := sumL l

/-- `enumerate(l)`: the pairs `(i, l[i])` -/
def enumerate (l : List α) : List (Int × α) :=
  (List.range l.length).map fun i => (Int.ofNat i, coef l i)

/-- `filt.numlist` -/
def numlist (a : List α) : List α := a

/-- `x / y` under `except ZeroDivisionError: raise exc` (`exc = "ZeroDivisionError"` outside a `try`) -/
def pydiv [DecidableEq α] (exc : String) (x y : α) : Except String α :=
  if y = 0 then .error exc else .ok (x / y)

/-- `Stream(l).append(0).take(n)`: `l` followed by zeros for ever, first `n` items -/
def streamAppend0Take (l : List α) (n : Int) : List α :=
  (l ++ List.replicate (n.toNat - l.length) 0).take n.toNat

section filters
variable [DecidableEq α]

/-- `ZFilter(1)` -/
def filtOne : List α := [1]

/-- `z ** -m` -/
def zdelay (m : Int) : List α := delay m.toNat

/-- `A(1 / z) * z ** -m` -/
def flipDelay (A : List α) (m : Int) : List α := revShift m.toNat A

/-- `A - c * B` (the value `A -= c * B` binds to `A`) -/
def filtSubMul (A : List α) (c : α) (B : List α) : List α := subScaled A c B

/-- `A + c * B` -/
def filtAddMul (A : List α) (c : α) (B : List α) : List α := addScaled A c B

/-- `z ** -e - sum(g[q] * B[q] for q in xrange(m))`: a delay minus a combination of filters -/
def zdelaySubComb (e : Int) (m : Int) (g : List α) (B : List (List α)) : List α :=
  trim ((List.range (e.toNat + 1)).map fun i =>
    coef (delay e.toNat) i - sumL ((List.range m.toNat).map fun q => coef g q * coef (B.getD q []) i))

end filters
end ALV.C10.Py
