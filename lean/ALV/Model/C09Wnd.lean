/-
  C09 — the `wnd` argument as a Python OBJECT, and the binding of the wrapper's `ola_params` to the
  signature of the overlap-add strategy.  Mathlib-free; executable.

  The three places that resolve a window (`overlap_add.numpy`, `overlap_add.list`, `blk_gen` of the
  stft wrapper) start with the same sentence

      if callable(wnd) and not isinstance(wnd, Stream):
        wnd = wnd(size)

  and go on with `isinstance(wnd, Iterable)`.  So what the code can tell apart about an object is
  three predicates (`callable`, `isinstance(·, Iterable)`, `isinstance(·, Stream)`), what calling it
  with the size returns and what iterating over it gives.  `Model/C09.lean` has the window already
  classified (`WndArg`: none / seq / callable / scalar — the classification was done by the tie);
  here the classification itself is code: `callStep`, `resolveOlaObj`, `resolveStftObj`.
-/
import ALV.Model.C09
namespace ALV.C09
variable {α : Type}

/-- what `list(x)` gives for an iterable `x` -/
inductive IterRes (α : Type) where
  | nums (l : List α)      -- numbers
  | opaque (n : Nat)       -- `n` items that are not numbers (the strategies of a StrategyDict, the
                           -- parameter tuples of a window family …)

/-- a Python object as far as the window resolution looks at it AFTER the call step -/
inductive CallRes (α : Type) where
  | iterable (r : IterRes α)    -- `isinstance(·, Iterable)`: list / tuple / generator / Stream …
  | pyNone                      -- `None`
  | other                       -- anything else (a number …)

/-- a window object that is not `None` -/
structure WObj (α : Type) where
  isStream : Bool                         -- `isinstance(wnd, Stream)`
  call : Option (Nat → CallRes α)         -- `callable(wnd)`, and what `wnd(size)` returns
  iter : Option (IterRes α)               -- `isinstance(wnd, Iterable)`, and what `list(wnd)` gives

inductive PyWnd (α : Type) where
  | none
  | obj (o : WObj α)

/-- the object itself seen as the result of the call step that did not call it -/
def WObj.asRes (o : WObj α) : CallRes α :=
  match o.iter with
  | some r => .iterable r
  | none => .other

/-- `if callable(wnd) and not isinstance(wnd, Stream): wnd = wnd(size)` -/
def callStep (size : Nat) (o : WObj α) : CallRes α :=
  match o.call with
  | some f => if o.isStream then o.asRes else f size
  | none => o.asRes

/-- `list(wnd)`; items that are not numbers make the first arithmetic on them raise -/
def listStep : IterRes α → Except Err (List α)
  | .nums l => .ok l
  | .opaque 0 => .ok []                      -- no item at all: an empty list like any other
  | .opaque (_ + 1) => .error .windowItems

/-- `overlap_add.list`:
      if wnd is not None:
        if callable(wnd) and not isinstance(wnd, Stream): wnd = wnd(size)
        if isinstance(wnd, Iterable): wnd = list(wnd)
        else: raise TypeError("Window should be an iterable or a callable") -/
def resolveOlaObj (size : Nat) : PyWnd α → Except Err (Option (List α))
  | .none => .ok none
  | .obj o =>
    match callStep size o with
    | .iterable r =>
      match listStep r with
      | .ok l => .ok (some l)
      | .error e => .error e
    | .pyNone => .error .windowType
    | .other => .error .windowType

/-- `blk_gen` of the stft wrapper:
      if callable(wnd) and not isinstance(wnd, Stream): wnd = wnd(size)
      if isinstance(wnd, Iterable):
        wnd = list(wnd)
        if len(wnd) != size: raise ValueError("Incompatible window size")
      elif wnd is not None: raise TypeError("Window should be an iterable or a callable")
    (a window function that returns `None` means "no window" here, a TypeError in the overlap-add) -/
def resolveStftObj (size : Nat) : PyWnd α → Except Err (Option (List α))
  | .none => .ok none
  | .obj o =>
    match callStep size o with
    | .iterable r =>
      match listStep r with
      | .ok l => if l.length ≠ size then .error .windowSize else .ok (some l)
      | .error e => .error e
    | .pyNone => .ok none
    | .other => .error .windowType

/-- a resolved window handed back as an already classified argument of `Model/C09.lean` -/
def ofResolved : Option (List α) → WndArg α
  | none => .none
  | some l => .seq l

/-! ### kinds of Python objects handed over as windows -/

/-- the kinds of objects the tie builds (REAL Python objects); `caps` is checked against
    `callable(obj)`, `isinstance(obj, Iterable)`, `isinstance(obj, Stream)` of every one of them -/
inductive WKind where
  | pyList | pyTuple | generator | listIterator | pyRange | deque | dictKeys | userIterOnly
  | stream | thub | streamSubclass
  | function | lambda | partialFn | boundMethod | klass | strategy | userCallOnly
  | strategyDict | userBoth | callableList
  | scalar
  deriving DecidableEq, Repr

structure Caps where
  callable : Bool
  iterable : Bool
  stream : Bool
  deriving DecidableEq, Repr

def WKind.caps : WKind → Caps
  | .pyList | .pyTuple | .generator | .listIterator | .pyRange | .deque | .dictKeys | .userIterOnly =>
    ⟨false, true, false⟩
  | .stream | .thub | .streamSubclass => ⟨true, true, true⟩      -- `Stream.__call__` exists
  | .function | .lambda | .partialFn | .boundMethod | .klass | .strategy | .userCallOnly =>
    ⟨true, false, false⟩
  | .strategyDict | .userBoth | .callableList => ⟨true, true, false⟩
  | .scalar => ⟨false, false, false⟩

def WKind.all : List WKind :=
  [.pyList, .pyTuple, .generator, .listIterator, .pyRange, .deque, .dictKeys, .userIterOnly,
   .stream, .thub, .streamSubclass,
   .function, .lambda, .partialFn, .boundMethod, .klass, .strategy, .userCallOnly,
   .strategyDict, .userBoth, .callableList, .scalar]

def WKind.name : WKind → String
  | .pyList => "list" | .pyTuple => "tuple" | .generator => "generator"
  | .listIterator => "list_iterator" | .pyRange => "range" | .deque => "deque"
  | .dictKeys => "dict" | .userIterOnly => "user_iter_only"
  | .stream => "stream" | .thub => "thub" | .streamSubclass => "stream_subclass"
  | .function => "function" | .lambda => "lambda" | .partialFn => "partial"
  | .boundMethod => "bound_method" | .klass => "class" | .strategy => "strategy"
  | .userCallOnly => "user_call_only"
  | .strategyDict => "strategy_dict" | .userBoth => "user_both" | .callableList => "callable_list"
  | .scalar => "scalar"

def WKind.ofName (s : String) : Option WKind := WKind.all.find? (·.name = s)

/-- an object of kind `k` whose call returns `call size` and whose iteration gives `iter`
    (each used only if the kind has the capability) -/
def WKind.mk (k : WKind) (call : Nat → CallRes α) (iter : IterRes α) : WObj α :=
  { isStream := k.caps.stream,
    call := if k.caps.callable then some call else none,
    iter := if k.caps.iterable then some iter else none }

/-! ### `overlap_add.list` and the wrapper on window objects -/

section top
variable [Add α] [Mul α] [Neg α] [Div α] [OfNat α 0] [OfNat α 1] [NatCast α] [LT α] [DecidableLT α] [DecidableEq α]

/-- the window resolves to `n ≥ 1` items that are not numbers (`list(wnd)` itself does not fail) -/
def opaqueItems (size : Nat) : PyWnd α → Option Nat
  | .none => none
  | .obj o =>
    match callStep size o with
    | .iterable (.opaque (n + 1)) => some (n + 1)
    | _ => none

/-- `overlap_add.list` with a window of `n ≥ 1` items that are not numbers: nothing fails before the
    first ARITHMETIC on an item.  With normalisation that is `abs(item)` at the first `next`; without,
    the length check comes first (ValueError), then `mul(item, x)` / `add(0., item * x)` on the first
    block that has an item — and with no block at all nothing is ever computed: the `size - hop` zeros
    of the flush, no exception.  (`hop = size`, no normalisation, a block: no addition touches an item and
    `item * int` does not fail — what happens depends on the Python type of the samples; not tied.) -/
def olaOpaque [OfNat α 0] (size hop : Nat) (normalize : Bool) (n : Nat) (blks : List (List α)) : Out α :=
  if normalize then ⟨[], some (if hop = 0 then .maxEmpty else .windowItems)⟩
  else if n ≠ size then ⟨[], some .windowSize⟩
  else match blks with
    | [] => ⟨pyDrop (List.replicate size (0 : α)) hop, none⟩
    | b :: _ => if b.isEmpty then ⟨[], some .blockSize⟩ else ⟨[], some .windowItems⟩

/-- `overlap_add.list(blks, size, hop, wnd, normalize)` consumed to its end, `wnd` any object -/
def overlapAddListObj (blks : List (List α)) (size? hop? : Option Nat) (wnd : PyWnd α)
    (normalize : Bool) : Out α :=
  match detectSize size? blks with
  | none => ⟨[], none⟩
  | some size =>
    let hop := hop?.getD size
    match opaqueItems size wnd with
    | some n => olaOpaque size hop normalize n blks
    | none =>
      match resolveOlaObj size wnd with
      | .error e => ⟨[], some e⟩
      | .ok w0 =>
        match normWnd size hop normalize w0 with
        | .error e => ⟨[], some e⟩
        | .ok w1 => olaCore size hop w1 blks

/-- `overlap_add.numpy` (the default strategy): `import numpy as np` is its first statement -/
def overlapAddNumpyAbsent : Out α := ⟨[], some .numpyMissing⟩

def olaPrologueErrObj (size hop : Nat) (wnd : PyWnd α) (normalize : Bool) : Option Err :=
  match resolveOlaObj size wnd with
  | .error e => some e
  | .ok w0 =>
    match normWnd size hop normalize w0 with
    | .error e => some e
    | .ok w1 =>
      match truthy w1 with
      | some w => if w.length ≠ size then some .windowSize else none
      | none => none

def overlapAddFromObj (src : Except Err (List (List α))) (size? hop? : Option Nat) (wnd : PyWnd α)
    (normalize : Bool) : Out α :=
  match src with
  | .ok blks => overlapAddListObj blks size? hop? wnd normalize
  | .error e =>
    match size? with
    | none => ⟨[], some e⟩
    | some size =>
      match olaPrologueErrObj size (hop?.getD size) wnd normalize with
      | some e' => ⟨[], some e'⟩
      | none => ⟨[], some e⟩
end top

section blkgen
variable [Mul α] [OfNat α 0]

def blkGenObj (size : Nat) (hop? : Option Nat) (wnd : PyWnd α) (st : Stages α) (sig : List α) :
    Except Err (List (List α)) :=
  match resolveStftObj size wnd with
  | .error e => .error e
  | .ok w =>
    let blks := ALV.C08.blocks size (hop?.getD size) (0 : α) sig
    .ok (blks.map fun blk => process (st.funcs size) (windowed w blk))

def blkGenTraceObj (size : Nat) (hop? : Option Nat) (wnd : PyWnd α) (st : Stages α) (sig : List α) :
    List (List (String × List α)) :=
  match resolveStftObj size wnd with
  | .error _ => []
  | .ok w =>
    let blks := ALV.C08.blocks size (hop?.getD size) (0 : α) sig
    blks.map fun blk => processTrace (st.funcs size) (windowed w blk)
end blkgen

/-- the overlap-add strategy's arguments, windows as objects -/
structure OlaCallObj (α : Type) where
  size? : Option Nat
  hop? : Option Nat
  wnd : PyWnd α
  normalize : Bool

section run
variable [Add α] [Mul α] [Neg α] [Div α] [OfNat α 0] [OfNat α 1] [NatCast α] [LT α] [DecidableLT α] [DecidableEq α]

def stftRunObj (needsNumpy : Bool) (size : Nat) (hop? : Option Nat) (wnd : PyWnd α) (st : Stages α)
    (ola : Option (OlaCallObj α)) (sig : List α) : StftOut α :=
  let src := if needsNumpy then .error .numpyMissing else blkGenObj size hop? wnd st sig
  match ola with
  | none =>
    match src with
    | .ok bs => ⟨some bs, [], none⟩
    | .error e => ⟨none, [], some e⟩
  | some a =>
    let r := overlapAddFromObj src a.size? a.hop? a.wnd a.normalize
    ⟨none, r.out, r.err⟩
end run

/-! ### binding `ola(blk_gen(…), **ola_params)` to
    `overlap_add(blk_sig, size=None, hop=None, wnd=None, normalize=True)` -/

def olaSigNames : List String := ["size", "hop", "wnd", "normalize"]

structure OlaBound where
  size : PV
  hop : PV
  wnd : PV
  normalize : PV
  deriving DecidableEq, Repr

/-- `.error k`: `k` is the first keyword the strategy's signature does not have
    (TypeError "unexpected keyword argument" at the call, before any block is produced) -/
def bindOla (d : Dict) : Except String OlaBound :=
  match d.find? (fun kv => decide (kv.1 ∉ olaSigNames)) with
  | some kv => .error kv.1
  | none => .ok { size := (dictGet d "size").getD .none,
                  hop := (dictGet d "hop").getD .none,
                  wnd := (dictGet d "wnd").getD .none,
                  normalize := (dictGet d "normalize").getD (.int 1) }

/-- Python truthiness of a keyword value (`if normalize:`) -/
def pvTruthy : PV → Bool
  | .none => false
  | .int i => i ≠ 0
  | .obj _ => true

/-- a keyword value used as a window: `None`, a number (neither callable nor iterable) or a named
    object looked up in the environment of the call -/
def pvWnd (env : String → Option (WObj α)) : PV → Option (PyWnd α)
  | .none => some .none
  | .int _ => some (.obj ⟨false, none, none⟩)
  | .obj t => (env t).map .obj

end ALV.C09
