/-
  C02 — two counted sources behind ONE object of the C level: what happens when one of them ENDS.

    Stream(a) + Stream(b), imap(f, a, b), izip(a, b)      map / zip object (CPython `map_next`,
                                                          `zip_next`): per request `next(a)`, then
                                                          `next(b)`; the first StopIteration ends the
                                                          request; NOTHING is remembered
    Stream(a).append(b), chain(a, b)                      `itertools.chain`: `a` until it ends, then `b`

  Sources are counted by their remaining length (`la`, `lb`) and their pull counters (`ra`, `rb`);
  a failed `next` on an exhausted source is not a pull.  Core Lean only; executable.
-/
namespace ALV.C02

structure Two where
  la : Nat        -- items left in the first source
  lb : Nat        -- items left in the second source
  ra : Nat        -- items pulled from the first source so far
  rb : Nat
  deriving Repr

/-- one `next()` on `map(op, a, b)` / `zip(a, b)`: the item of `a` is read BEFORE `b` is asked — when
    `b` has ended that item is lost; and the object does not remember that it has ended: the next
    request reads `a` again -/
def mapzipDemand (s : Two) : Bool × Two :=
  match s.la, s.lb with
  | 0, _ => (false, s)
  | la + 1, 0 => (false, ⟨la, 0, s.ra + 1, s.rb⟩)
  | la + 1, lb + 1 => (true, ⟨la, lb, s.ra + 1, s.rb + 1⟩)

/-- one `next()` on `itertools.chain(a, b)`: `b` is touched only when `a` has ended -/
def chainDemand (s : Two) : Bool × Two :=
  match s.la, s.lb with
  | la + 1, _ => (true, ⟨la, s.lb, s.ra + 1, s.rb⟩)
  | 0, 0 => (false, s)
  | 0, lb + 1 => (true, ⟨0, lb, s.ra, s.rb + 1⟩)

/-- one `next()` on `itertools.zip_longest(a, b)` (`izip_longest`): every source that still has items
    is read once; the request fails only when both have ended -/
def longestDemand (s : Two) : Bool × Two :=
  match s.la, s.lb with
  | 0, 0 => (false, s)
  | la + 1, 0 => (true, ⟨la, 0, s.ra + 1, s.rb⟩)
  | 0, lb + 1 => (true, ⟨0, lb, s.ra, s.rb + 1⟩)
  | la + 1, lb + 1 => (true, ⟨la, lb, s.ra + 1, s.rb + 1⟩)

/-- `K` consecutive requests: (delivered, pulls of the first source, pulls of the second source) -/
def twoProbe (step : Two → Bool × Two) : Nat → Two → List (Bool × Nat × Nat)
  | 0, _ => []
  | K + 1, s => ((step s).1, (step s).2.ra, (step s).2.rb) :: twoProbe step K (step s).2

def twoStart (na nb : Nat) : Two := ⟨na, nb, 0, 0⟩

end ALV.C02
