/-
  C01 — model, part 2: element operations that RAISE, and a caller that goes on reading.

  `bad : Term → Bool` says for which applications `f(args)` python raises (division / modulo by zero,
  negative shift count, `None + 1`, `sqrt(-1)`, …).  The model does not know python's numbers: `bad` is
  a parameter (the theorems hold for every `bad`; the driver is handed a finite table).

  `Iter.stepE bad` is one call of `next` under that oracle: an item, StopIteration, or the exception of
  the first element computation that raises — and the iterator state left behind, which is where map
  objects and generators differ (CPython):

  * `map(f, a)` / `map(f, a, b)`: the items already taken from the operands are gone, the map object is
    still usable: the following `next` goes on with the next items.  `map(f, a, b)` asks `a` first; when
    the computation INSIDE `a` raises, `b` has not been asked (so `b` falls one position behind);
  * a generator expression `(f(x) for x in a)` is FINISHED by an exception that leaves its frame — one
    raised by `f(x)` or one that comes out of `a`: every later `next` is StopIteration (`Iter.dead`);
  * `itertools.chain` passes the exception on and stays where it is.

  Readers: `drainE` (`next` in a try/except loop, a `for` loop restarted after each exception),
  `takeE` (`Stream.take(k)` = `list(islice(data, k))`: an exception loses the items of this call),
  `script` (any sequence of `next`, `take(k)` and `peek(k)` — the latter through `copy()`, an `itertools.tee`).
  Core Lean only.
-/
import ALV.Model.C01
namespace ALV.C01

/-- what one call of `next` delivers -/
inductive Out where
  | item (x : Term)
  | stop                       -- StopIteration
  | raised (t : Term)          -- the element computation `t` raised (its exception reaches the caller)
  deriving Repr, Inhabited

/-- apply `f`: the value, or the exception -/
def chk (bad : Term → Bool) (t : Term) : Out := if bad t then .raised t else .item t

/-- `next(it)` when element operations may raise. -/
def Iter.stepE (bad : Term → Bool) : Iter → Out × Iter
  | .list t [] => (.stop, .list t [])
  | .list t (x :: xs) => (.item x, .list t xs)
  | .rep c => (.item c, .rep c)
  | .cycle (x :: cur) all => (.item x, .cycle cur all)
  | .cycle [] [] => (.stop, .cycle [] [])
  | .cycle [] (x :: all) => (.item x, .cycle all (x :: all))
  | .chain a b =>
    match a.stepE bad with
    | (.item x, a') => (.item x, .chain a' b)
    | (.raised t, a') => (.raised t, .chain a' b)       -- the exception passes through; `a` is still current
    | (.stop, _) => b.stepE bad
  | .mapc g f pre post a =>
    match a.stepE bad with
    | (.stop, a') => (.stop, .mapc g f pre post a')
    | (.raised t, a') => (.raised t, if g then .dead a' else .mapc g f pre post a')
    | (.item x, a') =>
      let t := Term.app f (pre ++ x :: post)
      if bad t then (.raised t, if g then .dead a' else .mapc g f pre post a')
      else (.item t, .mapc g f pre post a')
  | .map2 f a b =>
    match a.stepE bad with
    | (.stop, a') => (.stop, .map2 f a' b)
    | (.raised t, a') => (.raised t, .map2 f a' b)      -- `b` is not asked
    | (.item x, a') =>
      match b.stepE bad with
      | (.stop, b') => (.stop, .map2 f a' b')
      | (.raised t, b') => (.raised t, .map2 f a' b')   -- the item of `a` is lost
      | (.item y, b') =>
        let t := Term.app f [x, y]
        if bad t then (.raised t, .map2 f a' b') else (.item t, .map2 f a' b')
  | .dead a => (.stop, .dead a)

/-- `next` in a try/except loop, at most `n` calls, until the first StopIteration: what every call
    delivered (items and exceptions, in order) and the state left behind. -/
def Iter.drainS (bad : Term → Bool) : Nat → Iter → List Out × Iter
  | 0, it => ([], it)
  | n + 1, it =>
    match it.stepE bad with
    | (.stop, it') => ([], it')
    | (o, it') =>
      let r := Iter.drainS bad n it'
      (o :: r.1, r.2)

def Iter.drainE (bad : Term → Bool) (n : Nat) (it : Iter) : List Out := (Iter.drainS bad n it).1

/-- did the `n` calls of `drainE` end with a StopIteration (and not because `n` calls were made)? -/
def Iter.stoppedE (bad : Term → Bool) : Nat → Iter → Bool
  | 0, _ => false
  | n + 1, it =>
    match it.stepE bad with
    | (.stop, _) => true
    | (_, it') => Iter.stoppedE bad n it'

/-- `Stream.take(k)` = `list(islice(self._data, k))`: the `k` items (fewer at the end), or the first
    exception — the items this call had already taken are then lost to the caller. -/
def Iter.takeE (bad : Term → Bool) : Nat → Iter → Except Term (List Term) × Iter
  | 0, it => (.ok [], it)
  | k + 1, it =>
    match it.stepE bad with
    | (.stop, it') => (.ok [], it')
    | (.raised t, it') => (.error t, it')
    | (.item x, it') =>
      match Iter.takeE bad k it' with
      | (.ok xs, it'') => (.ok (x :: xs), it'')
      | (.error t, it'') => (.error t, it'')

/-- one read operation of a caller -/
inductive Read where
  | next                 -- `next(it)` in a try
  | take (k : Nat)       -- `s.take(k)` in a try
  | peek (k : Nat)       -- `s.peek(k)` in a try
  deriving Repr, Inhabited

inductive ReadOut where
  | one (o : Out)
  | took (r : Except Term (List Term))
  deriving Repr, Inhabited

/-- `Stream.peek(k)` = `self.copy().take(k)`: `copy` puts an `itertools.tee` pair over the data and reads the
    copy.  The items the copy reads are KEPT for the Stream (`acc`, the tee buffer, then the data where the
    reading left it); an exception is passed on to the caller and NOT kept: it is gone from the Stream. -/
def Iter.peekE (bad : Term → Bool) : Nat → List Term → Iter → Except Term (List Term) × Iter
  | 0, acc, it => (.ok acc, .chain (.list 0 acc) it)
  | k + 1, acc, it =>
    match it.stepE bad with
    | (.stop, it') => (.ok acc, .chain (.list 0 acc) it')
    | (.raised t, it') => (.error t, .chain (.list 0 acc) it')
    | (.item x, it') => Iter.peekE bad k (acc ++ [x]) it'

/-- a caller's history of reads on the same Stream -/
def Iter.script (bad : Term → Bool) : List Read → Iter → List ReadOut × Iter
  | [], it => ([], it)
  | .next :: rs, it =>
    let s := it.stepE bad
    let r := Iter.script bad rs s.2
    (.one s.1 :: r.1, r.2)
  | .take k :: rs, it =>
    let s := it.takeE bad k
    let r := Iter.script bad rs s.2
    (.took s.1 :: r.1, r.2)
  | .peek k :: rs, it =>
    let s := it.peekE bad k []
    let r := Iter.script bad rs s.2
    (.took s.1 :: r.1, r.2)

/-- Every application whose outcome one call of `next` asks for, in python's order (the last one is the
    one that raised, if any).  Only the driver uses this: the harness checks the oracle table it was
    handed against python on exactly these terms. -/
def Iter.stepQ (bad : Term → Bool) : Iter → List Term
  | .list _ _ => []
  | .rep _ => []
  | .cycle _ _ => []
  | .dead _ => []
  | .chain a b =>
    match a.stepE bad with
    | (.stop, _) => a.stepQ bad ++ b.stepQ bad
    | _ => a.stepQ bad
  | .mapc _ f pre post a =>
    match a.stepE bad with
    | (.item x, _) => a.stepQ bad ++ [.app f (pre ++ x :: post)]
    | _ => a.stepQ bad
  | .map2 f a b =>
    match a.stepE bad with
    | (.item x, _) =>
      match b.stepE bad with
      | (.item y, _) => a.stepQ bad ++ b.stepQ bad ++ [.app f [x, y]]
      | _ => a.stepQ bad ++ b.stepQ bad
    | _ => a.stepQ bad

/-- the questions of every call of a drain (incl. the call that ended it) -/
def Iter.drainQ (bad : Term → Bool) : Nat → Iter → List (List Term)
  | 0, _ => []
  | n + 1, it =>
    it.stepQ bad :: (match it.stepE bad with
      | (.stop, _) => []
      | (_, it') => Iter.drainQ bad n it')

/-! ## `elementwise` when the function raises on an element -/

inductive BOutE where
  | value (o : Out)                                   -- `func(*args, **kwargs)`: the value or its exception
  | gen (it : Iter)                                   -- the generator expression, not started
  | stream (it : Iter)                                -- `Stream(data)`
  | cast (k : CKind) (r : Except Term (List Term)) (left : Iter)
                                                      -- `type_arg(data)`: all items, or the first exception
                                                      --   (raised by the CALL: no container is returned)
  | keyError
  deriving Repr, Inhabited

/-- the wrapper returned by `elementwise(name, pos)(func)`, element operations may raise -/
def elementwiseE (bad : Term → Bool) (c : ECall) : BOutE :=
  if !c.isPositional && !(c.kwargs.any fun kv => kv.1 == c.dname) then .keyError
  else
    let k := c.arg.kind
    if k.isIterable && !k.isStr then
      let data := c.data
      if k.isSomeGen then .gen data
      else if k.isStream then .stream data
      else
        let r := data.takeE bad c.arg.drainFuel        -- `type_arg(data)` drains the generator
        .cast k r.1 r.2
    else .value (chk bad c.plainCall)

end ALV.C01
