/-
  C04 — target vocabulary of the source translator `harness/props/c04_tr.py` (core Lean only).

  The translator reads `LinearFilter.__call__` (audiolazy/lazy_filters.py) with `ast` and writes
  `ALV/Gen/C04Src.lean`: the statements of that method, in their order, as Lean definitions over the
  types of `ALV/Model/C04.lean` (`Atom`, `Gain`, `IR`, `Terms`, `Mem`, `Err`).  What a Python construct
  MEANS in Lean is fixed here, once, by hand (trusted, short):

  * `St`            — the two locals the coefficient loops assign: `data_sum` (list of summands) and `gain`
                      (unbound in Python before the denominator loop meets delay 0; `0` here — the
                      `denpoly[0] == 0` guard has raised before the loops otherwise).
  * `forItems`      — `for delay, coeff in iteritems(d): <body>` over the dense coefficient list (delays
                      0, 1, 2, …; a dictionary has no zero entries, a dense list has: the `!= 0` test at the
                      end of each chain makes them inert, and the theorem has to prove that).
  * `xrangeUp`, `xrangeDown` — `xrange(lo, hi)` and `xrange(hi, lo, -1)` over naturals.
  * `isNone`, `isIterable`, `callMem`, `takewhileIdxLt/Le`, `zeroPad` — the memory argument.
-/
import ALV.Model.C04
namespace ALV.C04.Py
open ALV.C04
variable {α σ : Type}

/-- the locals assigned by the two coefficient loops -/
structure St (α : Type) where
  data_sum : List (Atom α)
  gain : α

/-- `for delay, coeff in iteritems(d): st = body delay coeff st`, delays counted from `k` -/
def forItems (body : Nat → α → σ → σ) : Nat → List α → σ → σ
  | _, [], st => st
  | k, c :: cs, st => forItems body (k + 1) cs (body k c st)

/-- `xrange(lo, hi)` -/
def xrangeUp (lo hi : Nat) : List Nat := (List.range (hi - lo)).map (· + lo)

/-- `xrange(hi, lo, -1)` -/
def xrangeDown (hi lo : Nat) : List Nat := (List.range (hi - lo)).reverse.map (· + lo + 1)

/-- `memory is None` -/
def isNone : Mem α → Bool
  | .none => true
  | _ => false

/-- `isinstance(memory, Iterable)` (never asked of `None`) -/
def isIterable : Mem α → Bool
  | .callable _ => false
  | _ => true

/-- `memory(lm)` -/
def callMem : Mem α → Nat → Mem α
  | .callable f, n => .iter (f n)
  | m, _ => m

/-- `[data for idx, data in takewhile(lambda pair: pair[0] < n, enumerate(memory))]` -/
def takewhileIdxLt (n : Nat) : Mem α → List α
  | .iter l => l.take n
  | .gen g => (List.range n).map g
  | _ => []

/-- the same with `pair[0] <= n` -/
def takewhileIdxLe (n : Nat) : Mem α → List α := takewhileIdxLt (n + 1)

/-- `list(zero_pad(seq, left, zero=zero))`: the second positional parameter of `zero_pad` is `left` -/
def zeroPad (seq : List α) (left : Nat) (zero : α) : List α := List.replicate left zero ++ seq

end ALV.C04.Py
