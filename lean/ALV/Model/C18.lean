/-
  C18 — PCM byte codecs: model of `audiolazy.lazy_io.chunks` (both strategies) and of
  `audiolazy.lazy_wav.WavStream` (code shaped).  Mathlib-free; executable.

  Python                                   | here
  -----------------------------------------+------------------------------------------------
  struct.pack("<h", v) / (">i", v) …       | `packInt w order v`   (two's complement, range checked)
  Struct("<h").unpack(bs)[0]               | `unpackInt w order bs`
  WavStream._unpackers[8|16|24|32]         | `unpack8` (= ord) `unpack16` `unpack24` `unpack32`
  block_reader / sample_reader             | `blockReader`, `sampleReader`
  data_generator (keep / normalise)        | `dataGenerator`
  chunks.struct                            | `chunksStruct`  = `ALV.C08.blocks` (hop = size) ▷ `packBlock`
  chunks.array                             | `chunksArray`   = array fill (`aLoop`, `aFill`) / `exportCells`

  A generator that may raise is observed as `Gen`: the items it yielded, then how it ended.

  `chunks.array` is modelled WITH the repair proposed for defect D5 (export by `tobytes`, byte
  swap when the requested order is not the native one, working array initialised with zeros):
  the property demands "identically for the struct and array strategies and for every byte
  order", which the unrepaired code cannot satisfy (it raises AttributeError at the first yield
  on Python ≥ 3.9, ignores `byte_order`, and `array(dfmt, xrange(size))` overflows for
  size > 128 with "b").
-/
import ALV.Model.C08
namespace ALV.C18

abbrev Bytes := List UInt8

inductive Order | little | big
  deriving DecidableEq, Repr

/-- `byte_order=None`, `"@"`, `"="` mean the machine's order -/
def resolveOrder (native : Order) : Option Order → Order
  | none => native
  | some o => o

/-! ### integer codecs -/

/-- the `w` low bytes of `v` in two's complement, least significant byte first -/
def leBytes : Nat → Int → Bytes
  | 0, _ => []
  | n + 1, v => UInt8.ofNat (v % 256).toNat :: leBytes n (v / 256)

/-- unsigned value of a byte string, least significant byte first -/
def leValue : Bytes → Int
  | [] => 0
  | b :: bs => (b.toNat : Int) + 256 * leValue bs

/-- reinterpret an unsigned `bits`-bit number as two's complement -/
def toSigned (bits : Nat) (u : Int) : Int := if u < 2 ^ (bits - 1) then u else u - 2 ^ bits

/-- memory order of a little-endian byte string under the given byte order -/
def orderBytes : Order → Bytes → Bytes
  | .little, bs => bs
  | .big, bs => bs.reverse

inductive PackErr
  | range        -- integer outside the format's range
  | notInt       -- float given to an integer format
  | floatRange   -- finite double that does not fit a 32-bit float (struct strategy only)
  deriving DecidableEq, Repr

/-- `w`-byte signed range test of `struct.pack` / `array.__setitem__` -/
def inRange (w : Nat) (v : Int) : Prop := -(2 ^ (8 * w - 1)) ≤ v ∧ v < 2 ^ (8 * w - 1)

instance (w : Nat) (v : Int) : Decidable (inRange w v) := by unfold inRange; infer_instance

/-- little-endian image of a signed integer in a `w`-byte format (b, h, i) -/
def packIntLE (w : Nat) (v : Int) : Except PackErr Bytes :=
  if inRange w v then .ok (leBytes w v) else .error .range

/-- `struct.pack(order + c, v)` for c ∈ b h i -/
def packInt (w : Nat) (order : Order) (v : Int) : Except PackErr Bytes :=
  (packIntLE w v).map (orderBytes order)

/-- `w`-byte unsigned range test (formats B H I L Q) -/
def inURange (w : Nat) (v : Int) : Prop := 0 ≤ v ∧ v < 2 ^ (8 * w)

instance (w : Nat) (v : Int) : Decidable (inURange w v) := by unfold inURange; infer_instance

/-- little-endian image of an unsigned integer in a `w`-byte format -/
def packUIntLE (w : Nat) (v : Int) : Except PackErr Bytes :=
  if inURange w v then .ok (leBytes w v) else .error .range

/-- `struct.pack(order + c, v)` for c ∈ B H I L Q -/
def packUInt (w : Nat) (order : Order) (v : Int) : Except PackErr Bytes :=
  (packUIntLE w v).map (orderBytes order)

/-- `struct.unpack(order + c, bs)[0]` for c ∈ B H I L Q -/
def unpackUInt (w : Nat) (order : Order) (bs : Bytes) : Option Int :=
  if bs.length = w then some (leValue (orderBytes order bs)) else none

/-- `struct.unpack(order + c, bs)[0]` for c ∈ b h i (none = `struct.error`: wrong length) -/
def unpackInt (w : Nat) (order : Order) (bs : Bytes) : Option Int :=
  if bs.length = w then some (toSigned (8 * w) (leValue (orderBytes order bs))) else none

/-! ### generators that may raise -/

structure Gen (β ε : Type) where
  out : List β
  err : Option ε
  deriving Repr

def Gen.cons {β ε} (b : β) (g : Gen β ε) : Gen β ε := ⟨b :: g.out, g.err⟩

/-- `for x in xs: yield f(x)` where `f` may raise -/
def genMap {α β ε} (f : α → Except ε β) : List α → Gen β ε
  | [] => ⟨[], none⟩
  | x :: xs =>
    match f x with
    | .error e => ⟨[], some e⟩
    | .ok y => (genMap f xs).cons y

/-! ### chunks -/
section chunks
variable {α ε : Type}

/-- `Struct(str(size) + dfmt).pack(*block)`: the items are packed from left to right -/
def packBlock (enc : α → Except ε Bytes) : List α → Except ε Bytes
  | [] => .ok []
  | x :: xs =>
    match enc x with
    | .error e => .error e
    | .ok a =>
      match packBlock enc xs with
      | .error e => .error e
      | .ok b => .ok (a ++ b)

/-- element encoder of the struct strategy for a little-endian element encoder `le` -/
def encOrder (order : Order) (le : α → Except ε Bytes) (x : α) : Except ε Bytes :=
  (le x).map (orderBytes order)

/-- `chunks.struct`: `for block in blocks(seq, size, padval=padval): yield s.pack(*block)` -/
def chunksStruct (order : Order) (le : α → Except ε Bytes) (size : Nat) (pad : α) (xs : List α) :
    Gen Bytes ε :=
  genMap (packBlock (encOrder order le)) (ALV.C08.blocks size size pad xs)

/-- export of the working array: `tobytes()`, after `byteswap()` when the requested order is
    not the machine's -/
def exportCells (native order : Order) (cells : List Bytes) : Bytes :=
  (if order = native then cells else cells.map List.reverse).flatten

/-- `for idx in xrange(idx, size): chunk[idx] = padval` -/
def aFill (encN : α → Except ε Bytes) (pad : α) : Nat → Nat → List Bytes → Except ε (List Bytes)
  | 0, _, cells => .ok cells
  | n + 1, idx, cells =>
    match encN pad with
    | .error e => .error e
    | .ok c => aFill encN pad n (idx + 1) (cells.set idx c)

/-- the two loops of `chunks.array`; `cells` is the working array (machine representation of
    every slot), `idx` the write position -/
def aLoop (encN : α → Except ε Bytes) (exp : List Bytes → Bytes) (size : Nat) (pad : α) :
    List Bytes → Nat → List α → Gen Bytes ε
  | cells, idx, [] =>
    if idx ≠ 0 then
      match aFill encN pad (size - idx) idx cells with
      | .error e => ⟨[], some e⟩
      | .ok cells => ⟨[exp cells], none⟩
    else ⟨[], none⟩
  | cells, idx, el :: rest =>
    match encN el with
    | .error e => ⟨[], some e⟩                  -- `chunk[idx] = el` raises
    | .ok c =>
      let cells := cells.set idx c
      if idx + 1 = size then (aLoop encN exp size pad cells 0 rest).cons (exp cells)
      else aLoop encN exp size pad cells (idx + 1) rest

/-- `chunks.array` (with the D5 repair): working array of `size` zeros in machine order -/
def chunksArray (native order : Order) (le : α → Except ε Bytes) (zero : α) (size : Nat) (pad : α)
    (xs : List α) : Gen Bytes ε :=
  match encOrder native le zero with
  | .error e => ⟨[], some e⟩
  | .ok z => aLoop (encOrder native le) (exportCells native order) size pad (List.replicate size z) 0 xs

end chunks

/-! ### the concrete element type of the driver: Python ints and floats -/

/-- the formats of the property (b h i f d) and the other integer formats of the struct table:
    `s w` = signed, `u w` = unsigned, `w` bytes (B H I = u 1 2 4, q Q = s 8 / u 8, l L = 4 bytes with a
    standard-size prefix `< > ! =`, the machine's `long` otherwise, and always in an array) -/
inductive Fmt | b | h | i | f | d | s (w : Nat) | u (w : Nat)
  deriving DecidableEq, Repr

def Fmt.width : Fmt → Nat
  | .b => 1 | .h => 2 | .i => 4 | .f => 4 | .d => 8 | .s w => w | .u w => w

/-- integer formats: (signed, width) -/
def Fmt.intSpec : Fmt → Option (Bool × Nat)
  | .b => some (true, 1) | .h => some (true, 2) | .i => some (true, 4)
  | .s w => some (true, w) | .u w => some (false, w)
  | .f | .d => none

/-- a Python number as it is SPELLED: int, float, bool, or a Fraction (carried with its `float()`) -/
inductive PVal
  | int (v : Int)
  | flt (x : Float)
  | bool (b : Bool)
  | frac (x : Float)

def PVal.toFloat : PVal → Float
  | .int v => Float.ofInt v
  | .flt x => x
  | .bool b => if b then 1.0 else 0.0
  | .frac x => x

/-- `__index__`: ints and bools are integers; floats and Fractions are not -/
def PVal.asInt : PVal → Option Int
  | .int v => some v
  | .bool b => some (if b then 1 else 0)
  | .flt _ | .frac _ => none

/-- little-endian image of one Python number in the given struct format.  The IEEE encoders
    (`Float.toBits`, `Float.toFloat32`) are NOT part of any theorem: the theorems take the
    element encoder as a parameter. -/
def leElem (strictFloat : Bool) (fmt : Fmt) (v : PVal) : Except PackErr Bytes :=
  match fmt.intSpec with
  | some (sg, w) =>
    match v.asInt with
    | none => .error .notInt
    | some n => if sg then packIntLE w n else packUIntLE w n
  | none =>
    if fmt = .d then .ok (leBytes 8 (v.toFloat.toBits.toNat : Int))
    else
      let x := v.toFloat
      let y := x.toFloat32
      if strictFloat ∧ x.isFinite ∧ y.isInf then .error .floatRange
      else .ok (leBytes 4 (y.toBits.toNat : Int))

/-! ### WavStream -/

inductive WavErr
  | structLen     -- `Struct.unpack` on a byte string of the wrong length (`struct.error`)
  | ordLen        -- `ord` on a byte string whose length is not 1 (`TypeError`)
  | noUnpacker    -- `_unpackers[bits]` for bits ∉ {8,16,24,32} (`KeyError`)
  deriving DecidableEq, Repr

/-- `ord` -/
def unpack8 : Bytes → Except WavErr Int
  | [b] => .ok (b.toNat : Int)
  | _ => .error .ordLen

def ofOpt {β} : Option β → Except WavErr β
  | some v => .ok v
  | none => .error .structLen

/-- `Struct("<h").unpack(v)[0]` -/
def unpack16 (bs : Bytes) : Except WavErr Int := ofOpt (unpackInt 2 .little bs)
/-- `Struct("<i").unpack(b"\x00" + v)[0] >> 8` -/
def unpack24 (bs : Bytes) : Except WavErr Int := (ofOpt (unpackInt 4 .little (0 :: bs))).map fun (n : Int) => n >>> 8
/-- `Struct("<i").unpack(v)[0]` -/
def unpack32 (bs : Bytes) : Except WavErr Int := ofOpt (unpackInt 4 .little bs)

/-- `WavStream._unpackers[bits]` -/
def unpacker (bits : Nat) : Option (Bytes → Except WavErr Int) :=
  if bits = 8 then some unpack8
  else if bits = 16 then some unpack16
  else if bits = 24 then some unpack24
  else if bits = 32 then some unpack32
  else none

/-- `block_reader`: `readframes(1)` until it returns `b""`; `fs` = frame size in bytes.  A
    truncated file gives a short last frame. -/
def blockReader (fs : Nat) (data : Bytes) : List Bytes :=
  if _h : data = [] ∨ fs = 0 then [] else data.take fs :: blockReader fs (data.drop fs)
termination_by data.length
decreasing_by
  simp only [List.length_drop]
  have : data.length ≠ 0 := by
    intro h0; exact _h (Or.inl (List.eq_nil_of_length_eq_zero h0))
  omega

/-- `sample_reader`: mono → the frames; otherwise every frame is split at the sample width -/
def sampleReader (channels sw : Nat) (frames : List Bytes) : List Bytes :=
  if channels = 1 then frames
  else frames.flatMap fun el => [el.take sw, el.drop sw]

section norm
variable {K : Type} [IntCast K] [Div K]

/-- `unpacker(el) / d` with `d = 1 << (bits - 1)` (true division) -/
def normalise (bits : Nat) (n : Int) : K := (n : K) / (((2 : Int) ^ (bits - 1) : Int) : K)

/-- what `data_generator` yields: ints when `keep`, else normalised numbers -/
inductive Sample (K : Type)
  | raw (n : Int)
  | scaled (x : K)

/-- `data_generator` -/
def dataGenerator (bits : Nat) (keep : Bool) (samples : List Bytes) : Gen (Sample K) WavErr :=
  match unpacker bits with
  | none => ⟨[], some .noUnpacker⟩
  | some up =>
    if keep then genMap (fun el => (up el).map Sample.raw) samples
    else
      let up' : Bytes → Except WavErr Int :=
        if bits = 8 then fun v => (unpack8 v).map fun (n : Int) => n - 128 else up
      genMap (fun el => (up' el).map fun n => Sample.scaled (normalise bits n)) samples

/-- header fields of an opened wave file and its data chunk -/
structure WavFile where
  channels : Nat
  sampwidth : Nat
  rate : Nat
  data : Bytes

/-- `Wave_read._read_fmt_chunk`: `self._sampwidth = (wBitsPerSample + 7) // 8` -/
def headerSampwidth (hdrBits : Nat) : Nat := (hdrBits + 7) / 8

structure WavObs (K : Type) where
  rate : Nat
  channels : Nat
  bits : Nat
  gen : Gen (Sample K) WavErr

/-- `WavStream(file, keep)` read to its end -/
def wavStream (f : WavFile) (keep : Bool) : WavObs K :=
  let bits := 8 * f.sampwidth
  { rate := f.rate, channels := f.channels, bits := bits,
    gen := dataGenerator bits keep
      (sampleReader f.channels (bits / 8) (blockReader (f.sampwidth * f.channels) f.data)) }

end norm

/-! ### laziness and closing of the file (`try … finally: w.close()` in `block_reader`)

  The stream is a chain of three generators over the open file.  State: the unread data, the
  samples of the current frame not yet yielded, and whether `w.close()` has run.  One `wavNext`
  is one `next()` on the stream. -/

structure WState where
  data : Bytes
  pending : List Bytes
  closed : Bool

/-- one `next()`: `some bytes` = the raw sample handed to the unpacker, `none` = StopIteration -/
def wavNext (channels sw fs : Nat) (s : WState) : Option Bytes × WState :=
  match s.pending with
  | p :: ps => (some p, { s with pending := ps })
  | [] =>
    if s.closed then (none, s)
    else if s.data = [] ∨ fs = 0 then (none, { s with closed := true })   -- `if not el: break` → finally
    else
      let el := s.data.take fs
      let rest := s.data.drop fs
      if channels = 1 then (some el, { s with data := rest })
      else (some (el.take sw), { s with data := rest, pending := [el.drop sw] })

/-- `k` successive `next()` calls (stops at StopIteration) -/
def wavTake (channels sw fs : Nat) : Nat → WState → List Bytes × WState
  | 0, s => ([], s)
  | k + 1, s =>
    match wavNext channels sw fs s with
    | (none, s') => ([], s')
    | (some b, s') => let r := wavTake channels sw fs k s'; (b :: r.1, r.2)

end ALV.C18
