/-
  C16 — generator-level model of `Streamix` (lazy_stream.py:684-746): the same machine as
  `ALV.Model.C16`, one level closer to the text of the code.  Mathlib-free; executable.

  What `ALV.Model.C16` fuses or hoists is spelled out here:

  * iterator OBJECTS.  `add` stores `iter(data)`: an object with an identity (`fresh` numbers the
    allocations) and the items it still has to give.
  * the summing loop and the removal are the two passes of the code:
        for snd in self._playing:
            try: data += next(snd)
            except StopIteration: to_remove.append(snd)
        if to_remove:
            for snd in to_remove: self._playing.remove(snd)      # first element `== snd`: identity
            to_remove = []
  * `count += 1.` is executed when the suspended generator is RESUMED (`suspended`), not at the
    end of the step that yielded: `count` here is the very local the frame of the generator holds.

  `ALV.Lemmas.C16Gen` proves that this machine and `ALV.Model.C16.mstep` show the same
  observations and stay related by the abstraction `absP`, for every history.
-/
import ALV.Model.C16
namespace ALV.C16
variable {α : Type}

/-- an iterator object: identity and the items it still has to give -/
structure Snd (α : Type) where
  id : Nat
  rest : List α

structure PState (α : Type) where
  count : Rat                           -- the generator's local
  notPlaying : List (Rat × Snd α)       -- self._not_playing
  playing : List (Snd α)                -- self._playing
  keep : Bool                           -- self.keep
  suspended : Bool                      -- the generator is suspended at `yield data`
  ended : Bool                          -- the generator has finished
  fresh : Nat                           -- identity of the next object `iter(data)` creates

/-- `Streamix(keep, zero)`; `count = 0.5` runs at the first `next`, before anything reads it -/
def PState.init (keep : Bool) : PState α := ⟨1/2, [], [], keep, false, false, 0⟩

/-- `while self._not_playing and count >= self._not_playing[0][0]: …` -/
def pstartLoop : Rat → List (Rat × Snd α) → List (Snd α) → Rat × List (Rat × Snd α) × List (Snd α)
  | count, [], playing => (count, [], playing)
  | count, (delta, newdata) :: q, playing =>
    if count ≥ delta then pstartLoop (count - delta) q (playing ++ [newdata])
    else (count, (delta, newdata) :: q, playing)

/-- first pass: `data += next(snd)` for every playing object, in order; the objects that raised
    StopIteration are collected in `to_remove` (by identity).  Returns the sum, `_playing` with
    every object advanced by one item, and `to_remove`. -/
def sumLoop [Add α] : α → List (Snd α) → α × List (Snd α) × List Nat
  | data, [] => (data, [], [])
  | data, snd :: ps =>
    match snd.rest with
    | [] =>
      let r := sumLoop data ps
      (r.1, snd :: r.2.1, snd.id :: r.2.2)
    | x :: xs =>
      let r := sumLoop (data + x) ps
      (r.1, ⟨snd.id, xs⟩ :: r.2.1, r.2.2)

/-- `list.remove(snd)`: drops the first element that is `snd` (Python raises ValueError when there
    is none; that cannot happen here, `snd` was just taken from the list) -/
def removeFirst (i : Nat) : List (Snd α) → List (Snd α)
  | [] => []
  | s :: ps => if s.id = i then ps else s :: removeFirst i ps

/-- second pass: `for snd in to_remove: self._playing.remove(snd)` -/
def removeAll : List Nat → List (Snd α) → List (Snd α)
  | [], playing => playing
  | i :: is, playing => removeAll is (removeFirst i playing)

/-- `Streamix.add` -/
def padd (s : PState α) (delta : Rat) (data : List α) : PState α × Obs α :=
  if delta < 0 then (s, .valueError)
  else ({ s with notPlaying := s.notPlaying ++ [(delta, ⟨s.fresh, data⟩)], fresh := s.fresh + 1 }, .ok)

/-- one `next` on the generator -/
def pnext [Add α] (zero : α) (s : PState α) : PState α × Obs α :=
  if s.ended then (s, .stop)
  else
    let count := if s.suspended then s.count + 1 else s.count      -- resumed after the yield: `count += 1.`
    let r := pstartLoop count s.notPlaying s.playing
    let sm := sumLoop zero r.2.2
    let playing := removeAll sm.2.2 sm.2.1
    if s.keep = false ∧ playing.isEmpty = true ∧ r.2.1.isEmpty = true then
      ({ s with count := r.1, notPlaying := r.2.1, playing := playing, suspended := false, ended := true }, .stop)
    else
      ({ s with count := r.1, notPlaying := r.2.1, playing := playing, suspended := true },
       .out sm.1 (s.notPlaying.length - r.2.1.length))

def pstep [Add α] (zero : α) (s : PState α) : Op α → PState α × Obs α
  | .add d x => padd s d x
  | .next => pnext zero s
  | .setKeep b => ({ s with keep := b }, .ok)

def prun [Add α] (zero : α) : PState α → List (Op α) → PState α × List (Obs α)
  | s, [] => (s, [])
  | s, op :: ops =>
    let r := pstep zero s op
    let t := prun zero r.1 ops
    (t.1, r.2 :: t.2)

/-- the states after each operation (for the tie: queue / playing lengths, the frame's count) -/
def ptrace [Add α] (zero : α) : PState α → List (Op α) → List (PState α × Obs α)
  | _, [] => []
  | s, op :: ops =>
    let r := pstep zero s op
    r :: ptrace zero r.1 ops

end ALV.C16
