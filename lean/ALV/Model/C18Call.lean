/-
  C18 — the CALL layers (code shaped, core Lean only).

  Python                                                       | here
  -------------------------------------------------------------+------------------------------------
  byte_order omitted / None / "@" / "=" / "<" / ">" / "!"       | `OrderArg`, `OrderArg.order`, `.std`
  struct: prefix table of the struct module; array:            | `resolveOrder native a.order`
    {"<":"little", ">":"big", "!":"big"}.get(bo, sys.byteorder) |   (one function: both tables agree)
  chunks.struct(seq, size, dfmt, byte_order, padval)            | `chunksStructPy`
  chunks.array(seq, size, dfmt, byte_order, padval)             | `chunksArrayPy`
  exception classes of an item that cannot be stored            | `structExc`, `arrayExc`
  def __init__(self, wave_file, keep=False)                     | `wavParams`, `bindWav` (C08's `bind`)
  `if keep:`                                                    | `PyV.truthy`
  WavStream(*pos, **kw)                                         | `wavStreamCall`
  bytes the reader chain takes from the data chunk              | `framesFor`, `bytesRead`
-/
import ALV.Model.C18
import ALV.Model.C08Call
namespace ALV.C18

/-! ### byte order as it is spelled -/

/-- the `byte_order` argument: omitted, `None`, `"@"`, `"="`, `"<"`, `">"`, `"!"` -/
inductive OrderArg | omitted | none | at | eq | lt | gt | bang
  deriving DecidableEq, Repr

/-- the order a spelling asks for (`none` = the machine's) -/
def OrderArg.order : OrderArg → Option Order
  | .lt => some .little
  | .gt => some .big
  | .bang => some .big
  | .omitted | .none | .at | .eq => Option.none

/-- a prefix with standard sizes (`l`, `L` are 4 bytes under it) -/
def OrderArg.std : OrderArg → Bool
  | .eq | .lt | .gt | .bang => true
  | .omitted | .none | .at => false

/-! ### exception classes -/

inductive Exc | structError | overflowError | typeError | indexError
  deriving DecidableEq, Repr

/-- `Struct.pack` on an item it cannot store -/
def structExc : PackErr → Exc
  | .range => .structError | .notInt => .structError | .floatRange => .overflowError
/-- `array.__setitem__` on an item it cannot store -/
def arrayExc : PackErr → Exc
  | .range => .overflowError | .notInt => .typeError | .floatRange => .overflowError

/-! ### the two strategies on Python numbers, for a format of the table and a spelled byte order -/

/-- `chunks.struct(seq, size, dfmt, byte_order, padval)` -/
def chunksStructPy (native : Order) (a : OrderArg) (fmt : Fmt) (size : Nat) (pad : PVal) (xs : List PVal) :
    Gen Bytes PackErr :=
  chunksStruct (resolveOrder native a.order) (leElem true fmt) size pad xs

/-- `chunks.array(seq, size, dfmt, byte_order, padval)` -/
def chunksArrayPy (native : Order) (a : OrderArg) (fmt : Fmt) (size : Nat) (pad : PVal) (xs : List PVal) :
    Gen Bytes PackErr :=
  chunksArray native (resolveOrder native a.order) (leElem false fmt) (.int 0) size pad xs

/-! ### a source that raises in the middle (`seq` is any iterable)

  The source hands out `xs` and then raises its own exception.
  * struct: `blocks` only ever yields WHOLE blocks before the source fails, so the chunks are those of
    the first `⌊n/size⌋·size` items (an item that cannot be packed stops it earlier), then the source's
    exception comes out; the partial tail is never packed.
  * array: `chunk[idx] = el` stores every item when it arrives, so an item of the partial tail that
    cannot be stored raises ITS exception before the source fails. -/

inductive SrcErr (ε : Type)
  | item (e : ε)       -- an item could not be stored
  | source             -- the source's own exception
  deriving DecidableEq, Repr

def Gen.thenSource {β ε} (g : Gen β ε) : Gen β (SrcErr ε) :=
  ⟨g.out, match g.err with | some e => some (.item e) | Option.none => some .source⟩

section raising
variable {α ε : Type}

/-- `chunks.struct` over a source that raises after `xs`: `blocks` (C08, `hop = size`) run on `xs`
without its padding tail, every block packed as it comes out -/
def chunksStructRaise (order : Order) (le : α → Except ε Bytes) (size : Nat) (xs : List α) :
    Gen Bytes (SrcErr ε) :=
  (genMap (packBlock (encOrder order le)) (ALV.C08.bloop size size ⟨[], 0⟩ xs).1).thenSource

/-- the first loop of `chunks.array` over a source that raises after the listed items -/
def aLoopRaise (encN : α → Except ε Bytes) (exp : List Bytes → Bytes) (size : Nat) :
    List Bytes → Nat → List α → Gen Bytes (SrcErr ε)
  | _, _, [] => ⟨[], some .source⟩
  | cells, idx, el :: rest =>
    match encN el with
    | .error e => ⟨[], some (.item e)⟩
    | .ok c =>
      let cells := cells.set idx c
      if idx + 1 = size then (aLoopRaise encN exp size cells 0 rest).cons (exp cells)
      else aLoopRaise encN exp size cells (idx + 1) rest

/-- `chunks.array` over a source that raises after `xs` -/
def chunksArrayRaise (native order : Order) (le : α → Except ε Bytes) (zero : α) (size : Nat)
    (xs : List α) : Gen Bytes (SrcErr ε) :=
  match encOrder native le zero with
  | .error e => ⟨[], some (.item e)⟩
  | .ok z => aLoopRaise (encOrder native le) (exportCells native order) size (List.replicate size z) 0 xs

end raising

/-! ### WavStream(wave_file, keep=False) -/

/-- an argument as it is spelled at the call -/
inductive PyV
  | file                 -- the wave file (name or file object)
  | bool (b : Bool)
  | int (n : Int)
  | none
  | str (s : String)
  | list (len : Nat)     -- a list / tuple of that length
  | flt (x : Float)
  deriving Repr

/-- `if keep:` -/
def PyV.truthy : PyV → Bool
  | .file => true
  | .bool b => b
  | .int n => n != 0
  | .none => false
  | .str s => s != ""
  | .list len => len != 0
  | .flt x => x != 0.0

/-- `def __init__(self, wave_file, keep=False)` (self is bound already) -/
def wavParams : List String := ["wave_file", "keep"]

inductive CallErr
  | typeError        -- the call cannot be bound to the signature
  | notAFile         -- `wave_file` is not the file
  deriving DecidableEq, Repr

/-- binding of a call to `(wave_file, keep)`; `keep` omitted = `False` -/
def bindWav (pos : List PyV) (kw : List (String × PyV)) : Option (PyV × PyV) :=
  match ALV.C08.bind wavParams 1 pos kw with
  | some [some f, k] => some (f, k.getD (.bool false))
  | _ => Option.none

section call
variable {K : Type} [IntCast K] [Div K]

/-- `WavStream(*pos, **kw)` over the file `f`, read to its end -/
def wavStreamCall (f : WavFile) (pos : List PyV) (kw : List (String × PyV)) : Except CallErr (WavObs K) :=
  match bindWav pos kw with
  | Option.none => .error .typeError
  | some (.file, k) => .ok (wavStream f k.truthy)
  | some _ => .error .notAFile

end call

/-! ### how much of the file the reader chain takes -/

/-- frames `readframes(1)` was asked for after `k` `next()` calls: one per sample (mono), one per
two samples otherwise (the second half of a frame is `pending`) -/
def framesFor (channels k : Nat) : Nat := if channels = 1 then k else (k + 1) / 2

/-- bytes of the data chunk that were read after `k` `next()` calls on a fresh stream -/
def bytesRead (channels fs : Nat) (data : Bytes) (k : Nat) : Nat := min (framesFor channels k * fs) data.length

/-- `_Chunk.read`: the read that reaches the end of an odd-sized chunk takes its alignment byte along
(when the file has one): the only byte outside the data chunk the reader chain may take -/
def alignByte (channels fs : Nat) (data : Bytes) (k : Nat) : Nat :=
  if data.length % 2 = 1 ∧ bytesRead channels fs data k = data.length then 1 else 0

end ALV.C18
