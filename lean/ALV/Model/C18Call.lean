/-
  C18 — the CALL layers (code shaped, core Lean only).

  Python                                                       | here
  -------------------------------------------------------------+------------------------------------
  byte_order omitted / None / "@" / "=" / "<" / ">" / "!"       | `OrderArg`, `OrderArg.order`, `.std`
  struct: prefix table of the struct module; array:            | `resolveOrder native a.order`
    {"<":"little", ">":"big", "!":"big"}.get(bo, sys.byteorder) |   (one function: both tables agree)
  chunks.struct(seq, size, dfmt, byte_order, padval)            | `chunksStructPy`
  chunks.array(seq, size, dfmt, byte_order, padval)             | `chunksArrayPy`
  exception classes of an item that cannot be stored            | `structExc`, `arrayExc`
  def __init__(self, wave_file, keep=False)                     | `wavParams`, `bindWav` (C08's `bind`)
  `if keep:`                                                    | `PyV.truthy`
  WavStream(*pos, **kw)                                         | `wavStreamCall`
  bytes the reader chain takes from the data chunk              | `framesFor`, `bytesRead`
-/
import ALV.Model.C18
import ALV.Model.C08Call
namespace ALV.C18

/-! ### byte order as it is spelled -/

/-- the `byte_order` argument: omitted, `None`, `"@"`, `"="`, `"<"`, `">"`, `"!"` -/
inductive OrderArg | omitted | none | at | eq | lt | gt | bang
  deriving DecidableEq, Repr

/-- the order a spelling asks for (`none` = the machine's) -/
def OrderArg.order : OrderArg → Option Order
  | .lt => some .little
  | .gt => some .big
  | .bang => some .big
  | .omitted | .none | .at | .eq => Option.none

/-- a prefix with standard sizes (`l`, `L` are 4 bytes under it) -/
def OrderArg.std : OrderArg → Bool
  | .eq | .lt | .gt | .bang => true
  | .omitted | .none | .at => false

/-! ### exception classes -/

inductive Exc | structError | overflowError | typeError | indexError
  deriving DecidableEq, Repr

/-- `Struct.pack` on an item it cannot store -/
def structExc : PackErr → Exc
  | .range => .structError | .notInt => .structError | .floatRange => .overflowError
/-- `array.__setitem__` on an item it cannot store -/
def arrayExc : PackErr → Exc
  | .range => .overflowError | .notInt => .typeError | .floatRange => .overflowError

/-! ### the two strategies on Python numbers, for a format of the table and a spelled byte order -/

/-- `chunks.struct(seq, size, dfmt, byte_order, padval)` -/
def chunksStructPy (native : Order) (a : OrderArg) (fmt : Fmt) (size : Nat) (pad : PVal) (xs : List PVal) :
    Gen Bytes PackErr :=
  chunksStruct (resolveOrder native a.order) (leElem true fmt) size pad xs

/-- `chunks.array(seq, size, dfmt, byte_order, padval)` -/
def chunksArrayPy (native : Order) (a : OrderArg) (fmt : Fmt) (size : Nat) (pad : PVal) (xs : List PVal) :
    Gen Bytes PackErr :=
  chunksArray native (resolveOrder native a.order) (leElem false fmt) (.int 0) size pad xs

/-- what `chunks.default` points to -/
inductive Strategy | struct | array
  deriving DecidableEq, Repr

/-- `chunks(seq, size, dfmt, byte_order, padval)` through the StrategyDict itself: the strategy that
`chunks.default` names at the time of the call (`chunks.default = chunks.array` is the docstring's hint);
`afmt` = the format as an array reads it (differs from `fmt` for l / L only) -/
def chunksEntry (dflt : Strategy) (native : Order) (a : OrderArg) (fmt afmt : Fmt) (size : Nat) (pad : PVal)
    (xs : List PVal) : Gen Bytes Exc :=
  match dflt with
  | .struct => let g := chunksStructPy native a fmt size pad xs; ⟨g.out, g.err.map structExc⟩
  | .array => let g := chunksArrayPy native a afmt size pad xs; ⟨g.out, g.err.map arrayExc⟩

/-! ### WavStream(wave_file, keep=False) -/

/-- an argument as it is spelled at the call -/
inductive PyV
  | file                 -- the wave file (name or file object)
  | bool (b : Bool)
  | int (n : Int)
  | none
  | str (s : String)
  | list (len : Nat)     -- a list / tuple of that length
  | flt (x : Float)
  deriving Repr

/-- `if keep:` -/
def PyV.truthy : PyV → Bool
  | .file => true
  | .bool b => b
  | .int n => n != 0
  | .none => false
  | .str s => s != ""
  | .list len => len != 0
  | .flt x => x != 0.0

/-- `def __init__(self, wave_file, keep=False)` (self is bound already) -/
def wavParams : List String := ["wave_file", "keep"]

inductive CallErr
  | typeError        -- the call cannot be bound to the signature
  | notAFile         -- `wave_file` is not the file
  deriving DecidableEq, Repr

/-- binding of a call to `(wave_file, keep)`; `keep` omitted = `False` -/
def bindWav (pos : List PyV) (kw : List (String × PyV)) : Option (PyV × PyV) :=
  match ALV.C08.bind wavParams 1 pos kw with
  | some [some f, k] => some (f, k.getD (.bool false))
  | _ => Option.none

section call
variable {K : Type} [IntCast K] [Div K]

/-- `WavStream(*pos, **kw)` over the file `f`, read to its end -/
def wavStreamCall (f : WavFile) (pos : List PyV) (kw : List (String × PyV)) : Except CallErr (WavObs K) :=
  match bindWav pos kw with
  | Option.none => .error .typeError
  | some (.file, k) => .ok (wavStream f k.truthy)
  | some _ => .error .notAFile

end call

/-! ### how much of the file the reader chain takes -/

/-- frames `readframes(1)` was asked for after `k` `next()` calls: one per sample (mono), one per
two samples otherwise (the second half of a frame is `pending`) -/
def framesFor (channels k : Nat) : Nat := if channels = 1 then k else (k + 1) / 2

/-- bytes of the data chunk that were read after `k` `next()` calls on a fresh stream -/
def bytesRead (channels fs : Nat) (data : Bytes) (k : Nat) : Nat := min (framesFor channels k * fs) data.length

/-- `_Chunk.read`: the read that reaches the end of an odd-sized chunk takes its alignment byte along
(when the file has one): the only byte outside the data chunk the reader chain may take -/
def alignByte (channels fs : Nat) (data : Bytes) (k : Nat) : Nat :=
  if data.length % 2 = 1 ∧ bytesRead channels fs data k = data.length then 1 else 0

end ALV.C18
