/-
  C11 — the float regime of `parcor` / `parcor_stable`.  Mathlib-free; executable.

  1. The loop of `ALV/Model/C11.lean` once more, parameterised by the squaring function: the code
     says `1 - k ** 2`, and on binary64 `k ** 2` is libm's `pow(k, 2.0)`, which is NOT always the
     correctly rounded product `k * k` (it differs by one ulp on about 0.08 % of random inputs).
     `pstepG (fun k => k * k) = pstep` etc. are theorems (`Lemmas/C11Float.lean`), so the generic
     definitions below ARE the model the theorems talk about; the driver runs them on `F64` with
     `sq = pow(·, 2)`.
  2. `F64`: binary64 numbers as their bit patterns, so that equality is decidable (core `Float`
     has no `DecidableEq`).  Every result is normalised: `-0.0` is stored as `+0.0`, so that the
     structural `x = 0` is Python's `x == 0`; this changes no non-zero value (the sign of a zero is
     only observable through a division by it, which raises in Python, `atan2` or `copysign`).
     NaN is one bit pattern (structural equality makes it equal to itself, unlike Python): runs that
     meet a non-finite number are flagged by the driver and not compared.

  The operation order is the code's (read from `lazy_filters.py` / `lazy_poly.py`):
    normalisation  `fir_filt /= gain`         → `c * (1 / gain)` per coefficient, when `gain != 1`
    `k * zB`                                  → `k * c` per coefficient (one product per power)
    `fir_filt - k * zB`                       → `a + (-(k * c))` = `a - k * c` in IEEE arithmetic
    `/ (1 - k ** 2)`                          → `(…) * (1 / (1 - pow(k, 2)))`
    `(fir_filt - fir_filt.numpoly[0]) + 1`    → `(c + (-c)) + 1`
  Terms that are absent in a `Poly` are read as zero; `x + 0`, `x * 1`, `0 * x` are exact, so the
  dense window and the sparse `Poly` hold the same numbers (finite arithmetic).
-/
import ALV.Model.C11
namespace ALV.C11
variable {α : Type} [Add α] [Mul α] [Sub α] [Neg α] [Div α] [OfNat α 0] [OfNat α 1]
  [DecidableEq α]

/-- `pstep` with the squaring function `sq` for `k ** 2` -/
def pstepG (sq : α → α) (n : Nat) (d : α) (w : List α) (m : Nat) : α × Option (List α) :=
  let k := lget n w m
  let den := 1 - sq k
  if den = 0 then (k, none)
  else
    let inv := 1 / den
    let w1 := wtab n (fun i => (lget n w i - k * lget n w ((m : Int) - i)) * inv)
    let c := lget n w1 0
    let w2 := wtab n (fun i => if i = 0 then c + (-c) * d + d else lget n w1 i)
    (k, some w2)

def ploopG (sq : α → α) (n : Nat) (d : α) : Nat → List α → List α × Bool
  | 0, _ => ([], false)
  | m + 1, w =>
    match pstepG sq n d w (m + 1) with
    | (k, none) => ([k], true)
    | (k, some w') => let r := ploopG sq n d m w'; (k :: r.1, r.2)

/-- `list(parcor(ZFilter(num)))`, code of /repo as it stands (D3 repaired) -/
def parcorFixedG (sq : α → α) (num : List α) : List α × Bool :=
  let f := normLead (stripZeros num)
  let n := f.length - 1
  ploopG sq n 1 n (wOfList n f)

section Order
variable [LT α] [DecidableLT α]

def stableLoopG (sq : α → α) (n : Nat) (d : α) : Nat → List α → Bool
  | 0, _ => true
  | m + 1, w =>
    match pstepG sq n d w (m + 1) with
    | (k, next) =>
      if absLt1 k then
        match next with
        | none => false
        | some w' => stableLoopG sq n d m w'
      else false

/-- `parcor_stable(ZFilter(num, den))` -/
def parcorStableFixedG (sq : α → α) (den : List α) : Bool :=
  let f := normLead (stripZeros den)
  let n := f.length - 1
  stableLoopG sq n 1 n (wOfList n f)

end Order

/-! ### binary64 as bit patterns -/

structure F64 where
  bits : UInt64
deriving DecidableEq

namespace F64

def toFloat (x : F64) : Float := Float.ofBits x.bits

/-- normalising injection: `-0.0 ↦ +0.0` -/
def ofFloat (x : Float) : F64 := if x == 0.0 then ⟨0⟩ else ⟨x.toBits⟩

def ofBits (b : UInt64) : F64 := ofFloat (Float.ofBits b)

instance : Add F64 := ⟨fun a b => ofFloat (a.toFloat + b.toFloat)⟩
instance : Sub F64 := ⟨fun a b => ofFloat (a.toFloat - b.toFloat)⟩
instance : Mul F64 := ⟨fun a b => ofFloat (a.toFloat * b.toFloat)⟩
instance : Div F64 := ⟨fun a b => ofFloat (a.toFloat / b.toFloat)⟩
instance : Neg F64 := ⟨fun a => ofFloat (-a.toFloat)⟩
instance : OfNat F64 0 := ⟨⟨0⟩⟩
instance : OfNat F64 1 := ⟨ofFloat 1.0⟩
instance : LT F64 := ⟨fun a b => a.toFloat < b.toFloat⟩
instance : DecidableLT F64 := fun a b => inferInstanceAs (Decidable (a.toFloat < b.toFloat))

/-- `k ** 2` of CPython on a float: libm `pow(k, 2.0)` -/
def sqPow (k : F64) : F64 := ofFloat (Float.pow k.toFloat 2.0)

def isFinite (x : F64) : Bool := x.toFloat.isFinite

end F64

/-- `list(parcor(ZFilter(num)))` on binary64 coefficients: (yields, raised ParCorError) -/
def parcorF64 (num : List F64) : List F64 × Bool := parcorFixedG F64.sqPow num

/-- `parcor_stable(ZFilter([1], den))` on binary64 coefficients -/
def parcorStableF64 (den : List F64) : Bool := parcorStableFixedG F64.sqPow den

/-- the same with the correctly rounded product for `k ** 2` (the generic model verbatim) -/
def parcorF64Mul (num : List F64) : List F64 × Bool := parcorFixed num

end ALV.C11
