/-
  C13 — histories of designs that SHARE parameter objects (code shaped model).  Core Lean only.

  The design strategies accept a number or a stream of numbers for each parameter
  (`thub(param, n)` is the identity on numbers and a tee hub on iterables; `cos(param)`,
  `exp(-param)`, `alpha * z ** -delay` map a Stream lazily, one item per item).  So a design fed a
  parameter object draws ONE value of it for every instant of its coefficient streams, at the
  moment that instant is first requested, and the coefficients of that instant are those of the
  constant design for the values drawn.

  When the caller passes the SAME object to several designs, what "the value drawn" is depends on
  what python object it is — three behaviours (`Flav`):

    pool   a `Stream` (or subclass), generator or iterator: every consumer pulls from the one
           underlying iterator, so each value goes to exactly one design instant, in request order
           (`Stream(a, b, c)` cycles its arguments endlessly: value number k is `vals[k % len]`);
    tee    a list / tuple (re-iterable: every design iterates it from the start) or a
           `StreamTeeHub` made by the caller (every design uses up one copy): design `j` gets
           value number `inst j` (= how many instants design `j` has produced so far);
    ctrl   a `ControlStream`: every pull yields the CURRENT `.value`, which the caller may set at
           any moment between two pulls.

  State of a history = what the python heap holds: the position of each pool iterator, the current
  value of each control, the instant counter of each design.  Nothing else survives a step (the
  designs keep no module-level state), which is what the tie checks on the implementation.
-/
import ALV.Model.C13
namespace ALV.C13
open ALV

/-- how a shared parameter object hands out its values -/
inductive Flav where
  | pool | tee | ctrl
deriving DecidableEq, Repr

/-- a parameter object of the caller's heap; `vals` non-empty (`ctrl`: `vals[0]` = initial value) -/
structure Src (α : Type) where
  flav : Flav
  vals : List α

/-- a design argument: a number, or the heap object number `i` -/
inductive Par (α : Type) where
  | const (v : α)
  | src (i : Nat)

/-- does the argument name heap object `i`? -/
def Par.isSrc {α : Type} : Par α → Nat → Bool
  | .const _, _ => false
  | .src k, i => decide (i = k)

/-- which design strategy (the parameters that are never streams — strategy name, delay — are part
of the kind) -/
inductive Kind where
  | lowpass (st : Strategy)
  | highpass (st : Strategy)
  | resonator (st : ResStrategy)
  | combFb (delay : Nat)
  | combTau (delay : Nat)
  | combFf (delay : Nat)
  | klapuri
deriving DecidableEq, Repr

/-- one call `strategy(p1, p2)` (`p2` is ignored by the one-parameter kinds) -/
structure Dsg (α : Type) where
  kind : Kind
  p1 : Par α
  p2 : Par α

/-- one step of a history -/
inductive HOp (α : Type) where
  /-- the call that builds design `j` (draws nothing: everything is lazy — also when the call
  raises half-way, e.g. for a non-integer comb delay; such a design is never read) -/
  | build (j : Nat)
  /-- the next instant of every coefficient of design `j` is read -/
  | take (j : Nat)
  /-- `ctrl_i.value = v` -/
  | set (i : Nat) (v : α)

section generic
variable {α : Type} [TrigField α] [ZeroTest α]

/-- the constant design: the sections `strategy(v1, v2)` returns for numbers (a single filter is a
one-section list) -/
def designOf (k : Kind) (v1 v2 : α) : List (Coefs α) :=
  match k with
  | .lowpass st => [lowpass st v1]
  | .highpass st => [highpass st v1]
  | .resonator st => [resonator st v1 v2]
  | .combFb d => [combFb d v1]
  | .combTau d => [combTau d v1]
  | .combFf d => [combFf d v1]
  | .klapuri => gammatoneKlapuri v1 v2

/-- value number `k` of `Stream(*vals)` (endless cycle) -/
def cyc (vals : List α) (k : Nat) : α := vals.getD (k % vals.length) c0

/-- the python heap as far as the designs can see it -/
structure HSt (α : Type) where
  /-- how many values were pulled from object `i` -/
  pos : Nat → Nat
  /-- the value last assigned to control `i` (`none`: still the initial one) -/
  cur : Nat → Option α
  /-- how many instants design `j` has produced -/
  inst : Nat → Nat

def HSt.init : HSt α := ⟨fun _ => 0, fun _ => none, fun _ => 0⟩

def bump (f : Nat → Nat) (i : Nat) : Nat → Nat := fun k => if k = i then f k + 1 else f k

def emptySrc : Src α := ⟨.tee, []⟩
def emptyDsg : Dsg α := ⟨.combFb 0, .const c0, .const c0⟩

/-- design `j` pulls the next value of one of its arguments -/
def draw (srcs : List (Src α)) (st : HSt α) (j : Nat) : Par α → α × HSt α
  | .const v => (v, st)
  | .src i =>
    let s := srcs.getD i emptySrc
    -- `pos i` counts the pulls from object `i` (it decides what comes next only for a pool object)
    let st' := { st with pos := bump st.pos i }
    match s.flav with
    | .pool => (cyc s.vals (st.pos i), st')
    | .tee => (cyc s.vals (st.inst j), st')
    | .ctrl => ((st.cur i).getD (cyc s.vals 0), st')

/-- what a step shows: nothing, or the values drawn and the coefficient lists of every section at
this instant -/
structure Emit (α : Type) where
  v1 : α
  v2 : α
  secs : List (Coefs α)

/-- one step as the python code does it: first argument first -/
def hstep (srcs : List (Src α)) (dsgs : List (Dsg α)) (st : HSt α) : HOp α → Option (Emit α) × HSt α
  | .build _ => (none, st)
  | .set i v => (none, { st with cur := fun k => if k = i then some v else st.cur k })
  | .take j =>
    let d := dsgs.getD j emptyDsg
    let r1 := draw srcs st j d.p1
    let r2 := draw srcs r1.2 j d.p2
    (some ⟨r1.1, r2.1, designOf d.kind r1.1 r2.1⟩, { r2.2 with inst := bump r2.2.inst j })

/-- the observations of a history, one per step, and the heap afterwards -/
def hrun (srcs : List (Src α)) (dsgs : List (Dsg α)) (st : HSt α) : List (HOp α) → List (Option (Emit α)) × HSt α
  | [] => ([], st)
  | op :: ops =>
    let r := hstep srcs dsgs st op
    let rest := hrun srcs dsgs r.2 ops
    (r.1 :: rest.1, rest.2)

def histModel (srcs : List (Src α)) (dsgs : List (Dsg α)) (ops : List (HOp α)) : List (Option (Emit α)) :=
  (hrun srcs dsgs HSt.init ops).1

/-- what the CALLER's object `i` yields next after the history (`n` values): a pool object goes on
where the designs stopped, a tee object is untouched (a list is unchanged, a further copy of a hub
starts at the first value), a control yields its current value -/
def callerView (srcs : List (Src α)) (st : HSt α) (i n : Nat) : List α :=
  let s := srcs.getD i emptySrc
  match s.flav with
  | .pool => (List.range n).map fun k => cyc s.vals (st.pos i + k)
  | .tee => (List.range n).map fun k => cyc s.vals k
  | .ctrl => List.replicate n ((st.cur i).getD (cyc s.vals 0))

def histFinal (srcs : List (Src α)) (dsgs : List (Dsg α)) (ops : List (HOp α)) (n : Nat) : List (List α) :=
  let st := (hrun srcs dsgs HSt.init ops).2
  (List.range srcs.length).map fun i => callerView srcs st i n

end generic
end ALV.C13
