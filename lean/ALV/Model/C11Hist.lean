/-
  C11 — histories: filters are MUTABLE objects.  Mathlib-free; executable.

  A `ZFilter` holds two `Poly` objects in the plain attributes `numpoly` / `denpoly`; the caller may
  * edit a Poly in place           `f.numpoly[i] = v`           (`Poly.__setitem__`, documented)
  * rebind an attribute            `f.numpoly = Poly(cs)`
  * bind the SAME Poly object to several filters  `f.numpoly = g.denpoly`  (plain Python aliasing)
  and `levinson_durbin` leaves the attribute `error` on the filter it returns.

  The heap: `cells` = the Poly objects (coefficient lists, index = power of z^-1, zeros compacted
  when read: `stripZeros`), `filts` = the filter objects (indices of the two cells they are bound to
  + the `error` attribute; `none` = the constructor raised, the id stays unused).

  `parcor(f)` / `parcor_stable(f)` at any point of a history are the functions of `ALV/Model/C11.lean`
  (as the code stands after the repair of D3: `parcorFixed`, `parcorStableFixed`) applied to the
  CURRENT contents of the two cells `f` is bound to; they read nothing else (not `error`, not an
  earlier answer) and write nothing.
-/
import ALV.Spec.C11
namespace ALV.C11.Hist
open ALV.C11
variable {α : Type} [Add α] [Mul α] [Sub α] [Neg α] [Div α] [OfNat α 0] [OfNat α 1]
  [DecidableEq α]

/-- `poly[i] = v` on a coefficient list: absent powers up to `i` read as the zero -/
def setAt (l : List α) (i : Nat) (v : α) : List α :=
  (l ++ List.replicate (i + 1 - l.length) 0).set i v

inductive Part where
  | num | den
  deriving DecidableEq, Repr

structure Filt (α : Type) where
  num : Nat               -- index of the cell bound to `numpoly`
  den : Nat               -- index of the cell bound to `denpoly`
  err : Option α          -- attribute `error` left by `levinson_durbin`

def Filt.cell (f : Filt α) : Part → Nat
  | .num => f.num
  | .den => f.den

def Filt.bind (f : Filt α) : Part → Nat → Filt α
  | .num, c => { f with num := c }
  | .den, c => { f with den := c }

structure Heap (α : Type) where
  cells : List (List α)
  filts : List (Option (Filt α))

def Heap.empty : Heap α := ⟨[], []⟩

def Heap.cell (h : Heap α) (c : Nat) : List α := h.cells.getD c []

def Heap.filt (h : Heap α) (t : Nat) : Option (Filt α) := h.filts.getD t none

/-- current coefficient lists (numerator, denominator) of filter `t` -/
def Heap.contents (h : Heap α) (t : Nat) : Option (List α × List α) :=
  (h.filt t).map fun f => (h.cell f.num, h.cell f.den)

inductive Op (α : Type) where
  | mk (num den : List α)                      -- f = ZFilter(num, den)
  | lev (r : List α) (order : Nat)             -- f = levinson_durbin(r, order)
  | setPoly (t : Nat) (p : Part) (cs : List α) -- f.numpoly = Poly(cs)
  | share (t : Nat) (p : Part) (s : Nat) (q : Part)   -- f.numpoly = g.denpoly  (same object)
  | set (t : Nat) (p : Part) (i : Nat) (v : α) -- f.numpoly[i] = v
  | parcor (t : Nat)                           -- list(parcor(f))
  | stable (t : Nat)                           -- parcor_stable(f)
  | stableCasc (t s : Nat)                     -- parcor_stable(CascadeFilter(f, g))

inductive Obs (α : Type) where
  | made (t : Nat)
  | parCorError                                -- raised by `levinson_durbin`
  | valueError                                 -- parcor: "Filter has feedback"
  | dead                                       -- the op names a filter whose construction raised
  | done
  | ks (l : List α) (raised : Bool)
  | verdict (b : Bool)
  deriving DecidableEq

/-- `list(parcor(f))` on coefficient lists -/
def parcorObs (num den : List α) : Obs α :=
  match stripZeros den with
  | [_] => let r := parcorFixed num; .ks r.1 r.2
  | _ => .valueError

variable [LT α] [DecidableLT α]

/-- one operation of the caller: new heap and what the caller sees -/
def step (h : Heap α) : Op α → Heap α × Obs α
  | .mk num den =>
    (⟨h.cells ++ [num, den], h.filts ++ [some ⟨h.cells.length, h.cells.length + 1, none⟩]⟩,
     .made h.filts.length)
  | .lev r order =>
    match levinson r order with
    | none => (⟨h.cells, h.filts ++ [none]⟩, .parCorError)
    | some (a, e, _) =>
      (⟨h.cells ++ [a, [1]], h.filts ++ [some ⟨h.cells.length, h.cells.length + 1, some e⟩]⟩,
       .made h.filts.length)
  | .setPoly t p cs =>
    match h.filt t with
    | none => (h, .dead)
    | some f => (⟨h.cells ++ [cs], h.filts.set t (some (f.bind p h.cells.length))⟩, .done)
  | .share t p s q =>
    match h.filt t, h.filt s with
    | some f, some g => (⟨h.cells, h.filts.set t (some (f.bind p (g.cell q)))⟩, .done)
    | _, _ => (h, .dead)
  | .set t p i v =>
    match h.filt t with
    | none => (h, .dead)
    | some f => (⟨h.cells.set (f.cell p) (setAt (h.cell (f.cell p)) i v), h.filts⟩, .done)
  | .parcor t =>
    (h, match h.contents t with
        | none => .dead
        | some (n, d) => parcorObs n d)
  | .stable t =>
    (h, match h.contents t with
        | none => .dead
        | some (_, d) => .verdict (parcorStableFixed d))
  | .stableCasc t s =>
    (h, match h.contents t, h.contents s with
        | some (_, d), some (_, d') => .verdict (parcorStableFixed (pmul d d'))
        | _, _ => .dead)

/-- a whole history: final heap and everything the caller saw, in order -/
def run (h : Heap α) : List (Op α) → Heap α × List (Obs α)
  | [] => (h, [])
  | op :: ops =>
    let r := step h op
    let rest := run r.1 ops
    (rest.1, r.2 :: rest.2)

/-- the caller's loop `for i, c in enumerate(cs): f.numpoly[i] = c` -/
def editItems (t : Nat) (p : Part) (cs : List α) : List (Op α) :=
  ((List.range cs.length).map fun i => (i, cs.getD i 0)).map fun e => Op.set t p e.1 e.2

/-- every live filter is bound to existing cells -/
def Heap.wf (h : Heap α) : Prop :=
  ∀ t f, h.filt t = some f → f.num < h.cells.length ∧ f.den < h.cells.length

end ALV.C11.Hist
