/-
  C06 — the tee / thub bookkeeping as an operational machine (code shaped, executable, Mathlib-free).

  Python source modelled

  lazy_stream.py
    `Stream(src)`             : wraps the iterator `src`; `iter(stream)` is that very iterator (a
                                Stream object stored twice is ONE iterator pulled from two places);
    `StreamTeeHub(data, n)`   : `self._iters = list(it.tee(iter(data), n))`; every `iter(hub)` pops one
                                copy.  `itertools.tee`: the copies share a buffer of the items pulled
                                from the upstream iterator; a copy that is behind reads the buffer, the
                                copy that is ahead pulls the upstream ONCE and appends;
    `thub(data, n)`           : a hub for an iterable, the number itself for a number;
    `Stream.copy()`           : `a, b = it.tee(self._data); self._data = a; return Stream(b)`;
    `StreamMeta.__binary__`   : `Stream(map(op, a, b))` — pulls `a`, then `b`; a number is broadcast.
  lazy_poly.py
    `Poly.__mul__`            : `thub(v, len(other))` for every coefficient of `self`, `thub(v,
                                len(self))` for every coefficient of `other`, double loop, `+=`;
    `Poly.__truediv__`        : by a Stream / number `c`: `thub(c, len(self))`, every coefficient `/ c`;
  lazy_filters.py
    `LinearFilter.__call__`   : the Stream-gain rewriting (`inv_gain = 1 / den[0]; den[0] = 0;
                                den *= inv_gain.copy(); den[0] = 1; numpoly * inv_gain`) — NOTHING is
                                pulled there; the generated loop pulls `next(b{k})` in ascending delay
                                order, then `next(a{k})`.

  A source is the list of items it delivers and how it ends (`StopIteration`, or an exception);
  a finite `itertools.repeat(c, n)` is the source `replicate n c` — that every hub copy is a real
  tee copy over it (never the shared countdown iterator) is what the tie measures.
-/
namespace ALV.C06.Hub

/-- what `next(it)` does: a value, `StopIteration`, or another exception -/
inductive Res (α : Type) where
  | ok (v : α)
  | stop
  | raise
  deriving DecidableEq, Repr

inductive Op2 where
  | add | sub | mul | div
  deriving DecidableEq, Repr

section ops
variable {α : Type} [Add α] [Sub α] [Mul α] [Div α]
def Op2.ap : Op2 → α → α → α
  | .add, x, y => x + y
  | .sub, x, y => x - y
  | .mul, x, y => x * y
  | .div, x, y => x / y
end ops

/-- what a coefficient iterator is made of -/
inductive It (α : Type) where
  /-- the iterator wrapped by a leaf `Stream` (one shared object) -/
  | src (k : Nat)
  /-- copy `i` of the tee group `g` (a `StreamTeeHub`, or `Stream.copy()`) over `up` -/
  | tee (g i : Nat) (up : It α)
  /-- `map(op, a, b)` -/
  | map2 (f : Op2) (a b : It α)
  /-- `map(op, repeat(c), a)` / `map(op, a, repeat(c))`: a number is broadcast -/
  | bl (f : Op2) (c : α) (a : It α)
  | br (f : Op2) (a : It α) (c : α)
  deriving DecidableEq, Repr

/-- a source: the items it delivers, then `StopIteration` or an exception -/
structure Src (α : Type) where
  items : List α
  raises : Bool

/-- the mutable state: successful pulls per source; buffer of every tee group; position of every
copy in its group's buffer -/
structure St (α : Type) where
  pulls : Nat → Nat
  buf : Nat → List α
  pos : Nat → Nat → Nat

def St.init : St α := ⟨fun _ => 0, fun _ => [], fun _ _ => 0⟩

def upd {β : Type} (f : Nat → β) (k : Nat) (v : β) : Nat → β := fun j => if j = k then v else f j

section machine
variable {α : Type} [Add α] [Sub α] [Mul α] [Div α]

/-- one `next` on a coefficient iterator -/
def next (srcs : Nat → Src α) : It α → St α → St α × Res α
  | .src k, st =>
    match (srcs k).items[st.pulls k]? with
    | some v => ({ st with pulls := upd st.pulls k (st.pulls k + 1) }, .ok v)
    | none => (st, if (srcs k).raises then .raise else .stop)
  | .tee g i up, st =>
    match (st.buf g)[st.pos g i]? with
    | some v => ({ st with pos := upd st.pos g (upd (st.pos g) i (st.pos g i + 1)) }, .ok v)
    | none =>
      match next srcs up st with
      | (st', .ok v) =>
        ({ st' with buf := upd st'.buf g (st'.buf g ++ [v]),
                    pos := upd st'.pos g (upd (st'.pos g) i (st'.pos g i + 1)) }, .ok v)
      | (st', .stop) => (st', .stop)
      | (st', .raise) => (st', .raise)
  | .map2 f a b, st =>
    match next srcs a st with
    | (st1, .ok x) =>
      match next srcs b st1 with
      | (st2, .ok y) => (st2, .ok (f.ap x y))
      | (st2, .stop) => (st2, .stop)
      | (st2, .raise) => (st2, .raise)
    | (st1, .stop) => (st1, .stop)
    | (st1, .raise) => (st1, .raise)
  | .bl f c a, st =>
    match next srcs a st with
    | (st1, .ok x) => (st1, .ok (f.ap c x))
    | (st1, .stop) => (st1, .stop)
    | (st1, .raise) => (st1, .raise)
  | .br f a c, st =>
    match next srcs a st with
    | (st1, .ok x) => (st1, .ok (f.ap x c))
    | (st1, .stop) => (st1, .stop)
    | (st1, .raise) => (st1, .raise)

/-- a filter coefficient: a number or a Stream made of iterators -/
inductive HC (α : Type) where
  | c (v : α)
  | s (e : It α)
  deriving DecidableEq, Repr

/-- `StreamMeta.__binary__` / `__rbinary__` / number ∘ number -/
def HC.op (f : Op2) : HC α → HC α → HC α
  | .c a, .c b => .c (f.ap a b)
  | .c a, .s e => .s (.bl f a e)
  | .s e, .c b => .s (.br f e b)
  | .s d, .s e => .s (.map2 f d e)

/-- the coefficients of one round: every coefficient's value for this output sample, in order;
the first failing `next` ends the round (the remaining iterators are not touched) -/
def round (srcs : Nat → Src α) : List (HC α) → St α → St α × Res (List α)
  | [], st => (st, .ok [])
  | .c v :: cs, st =>
    match round srcs cs st with
    | (st', .ok vs) => (st', .ok (v :: vs))
    | r => r
  | .s e :: cs, st =>
    match next srcs e st with
    | (st1, .ok v) =>
      match round srcs cs st1 with
      | (st2, .ok vs) => (st2, .ok (v :: vs))
      | r => r
    | (st1, .stop) => (st1, .stop)
    | (st1, .raise) => (st1, .raise)

end machine

/-! ## the algebra allocates the hubs -/
section build
variable {α : Type} [Add α] [Sub α] [Mul α] [Div α] [OfNat α 0] [OfNat α 1] [DecidableEq α]

abbrev HPoly (α : Type) := List (Int × HC α)

/-- `thub(v, n)`: the number itself, or a new tee group (`fun i => copy i`); the allocation state is
the next free group id -/
def thub (v : HC α) (g : Nat) : (Nat → HC α) × Nat :=
  match v with
  | .c x => (fun _ => .c x, g)
  | .s e => (fun i => .s (.tee g i e), g + 1)

def thubAll : HPoly α → Nat → List (Int × (Nat → HC α)) × Nat
  | [], g => ([], g)
  | (k, v) :: r, g =>
    let (h, g1) := thub v g
    let (hs, g2) := thubAll r g1
    ((k, h) :: hs, g2)

/-- `new_data[k] += v` / `new_data[k] = v` (insertion order kept) -/
def accum : HPoly α → Int → HC α → HPoly α
  | [], k, v => [(k, v)]
  | (k', w) :: r, k, v => if k' = k then (k', HC.op .add w v) :: r else (k', w) :: accum r k v

def isZeroC : HC α → Bool
  | .c v => decide (v = 0)
  | .s _ => false

/-- `Poly.__mul__`: copy `i2` of the hub of `self[k1]` meets copy `i1` of the hub of `other[k2]` -/
def mulHub (p q : HPoly α) (g : Nat) : HPoly α × Nat :=
  let (tp, g1) := thubAll p g
  let (tq, g2) := thubAll q g1
  let terms : List (Int × HC α) :=
    (tp.zipIdx).flatMap fun (kh1, i1) =>
      (tq.zipIdx).map fun (kh2, i2) => (kh1.1 + kh2.1, HC.op .mul (kh1.2 i2) (kh2.2 i1))
  ((terms.foldl (fun acc kv => accum acc kv.1 kv.2) []).filter (fun kv => !isZeroC kv.2), g2)

/-- `Poly.__truediv__` by a Stream / number: `thub(other, len(self))`, coefficient `j` gets copy `j` -/
def divHub (p : HPoly α) (c : HC α) (g : Nat) : HPoly α × Nat :=
  let (h, g1) := thub c g
  ((p.zipIdx.map fun (kv, j) => (kv.1, HC.op .div kv.2 (h j))).filter (fun kv => !isZeroC kv.2), g1)

def findC (p : HPoly α) (k : Int) : HC α :=
  match p.find? (fun kv => kv.1 == k) with
  | some kv => kv.2
  | none => .c 0

/-- the Stream-gain rewriting of `__call__`; `Stream.copy()` is a tee group with two copies -/
def gainHub (num den : HPoly α) (e0 : It α) (g : Nat) : HPoly α × HPoly α × Nat :=
  let inv : It α := .bl .div 1 e0                           -- inv_gain = 1 / den[0]
  let den1 := den.filter (fun kv => !(kv.1 == 0))            -- den[0] = 0 deletes the entry
  let invSelf : HC α := .s (.tee g 0 inv)                    -- inv_gain after .copy(): self._data = a
  let invCopy : HC α := .s (.tee g 1 inv)                    -- the copy
  let (den2, g1) := mulHub den1 [(0, invCopy)] (g + 1)
  let den3 := den2 ++ [(0, HC.c 1)]                          -- den[0] = 1
  let (num2, g2) := mulHub num [(0, invSelf)] g1
  (num2, den3, g2)

/-- a polynomial built by `Poly` arithmetic -/
inductive PE (α : Type) where
  | poly (p : HPoly α)
  | mul (a b : PE α)
  | divs (a : PE α) (c : HC α)

def PE.build : PE α → Nat → HPoly α × Nat
  | .poly p, g => (p.filter (fun kv => !isZeroC kv.2), g)
  | .mul a b, g =>
    let (pa, g1) := a.build g
    let (pb, g2) := b.build g1
    mulHub pa pb g2
  | .divs a c, g =>
    let (pa, g1) := a.build g
    divHub pa c g1

def orderH (p : HPoly α) : Nat := p.foldl (fun m kv => max m kv.1.toNat) 0

/-- `values()`: delays 0 … order -/
def denseH (p : HPoly α) : List (HC α) :=
  if p.isEmpty then [] else (List.range (orderH p + 1)).map fun (k : Nat) => findC p (Int.ofNat k)

structure Run (α : Type) where
  out : List α
  trace : List (List Nat)          -- pulls per source after every output
  final : List Nat                  -- pulls per source when the generator has ended
  ending : Res Unit                 -- ok = the input ended; stop = a coefficient stream ended; raise
  atCall : List Nat                 -- pulls per source when `filt(x)` has returned (nothing asked yet)

def dotH [Add α] [Mul α] [OfNat α 0] : List α → List α → α
  | v :: vs, x :: xs => v * x + dotH vs xs
  | _, _ => 0

/-- the generated loop on hub-built coefficients: `b` (delays 0…), `as` (delays 1…), constant gain -/
def loopH (srcs : Nat → Src α) (nsrc : Nat) (b as : List (HC α)) (a0 zero : α) :
    List α → List α → List α → St α → List α × List (List Nat) × St α × Res Unit
  | [], _, _, st => ([], [], st, .ok ())
  | x :: xs, hx, hy, st =>
    match round srcs (b ++ as) st with
    | (st1, .ok vs) =>
      let bn := vs.take b.length
      let an := vs.drop b.length
      let hx' := x :: hx
      let dx := (List.range bn.length).map fun k => hx'.getD k zero
      let y := (dotH bn dx - dotH an hy) / a0
      let r := loopH srcs nsrc b as a0 zero xs hx' (y :: hy) st1
      (y :: r.1, (List.range nsrc).map st1.pulls :: r.2.1, r.2.2.1, r.2.2.2)
    | (st1, .stop) => ([], [], st1, .stop)
    | (st1, .raise) => ([], [], st1, .raise)

/-- `ZFilter(num, den)(xs, zero=zero)` for hub-built polynomials whose denominator starts at delay 0
with a non-zero constant or a Stream -/
def callH (srcs : Nat → Src α) (nsrc : Nat) (num den : PE α) (zero : α) (xs : List α) : Run α :=
  let (pn, g1) := num.build 0
  let (pd, g2) := den.build g1
  let (pn', pd', _) : HPoly α × HPoly α × Nat :=
    match findC pd 0 with
    | .s e0 => gainHub pn pd e0 g2
    | .c _ => (pn, pd, g2)
  let a0 : α := match findC pd' 0 with
    | .c v => v
    | .s _ => 1
  let b := denseH pn'
  let as := (denseH pd').tail
  let allzero := b.all isZeroC && as.all isZeroC
  let st0 : St α := St.init
  let at0 := (List.range nsrc).map st0.pulls
  if allzero then ⟨xs.map fun _ => zero, xs.map fun _ => at0, at0, .ok (), at0⟩
  else
    let r := loopH srcs nsrc b as a0 zero xs [] (List.replicate as.length zero) st0
    ⟨r.1, r.2.1, (List.range nsrc).map r.2.2.1.pulls, r.2.2.2, at0⟩

end build

end ALV.C06.Hub
