/-
  C09 — HISTORIES of the `stft` partial / decorator forms.  Mathlib-free; executable.

      def stft(func=None, **kwparams):
        if func is None:
          cfi = chain.from_iterable
          mix_dict = lambda *dicts: dict(cfi(iteritems(d) for d in dicts))
          result = lambda f=None, **new_kws: stft(f, **mix_dict(kwparams, new_kws))
          return result
        … def wrapper(sig, **kwargs): kws = kwparams.copy(); kws.update(kwargs) …

  `p = stft(**kw)` is a closure over the dict `kwparams`; `p(**kw2)` (no function) is another such
  closure over a NEW dict `mix_dict(kwparams, kw2)`; `p(f, **kw2)` is a processor (the `wrapper`)
  over a new dict as well.  Nothing ever writes into `kwparams`: a partial is an immutable options
  record, deriving merges into a new record.  The model is the machine that says so: a store of
  records that only grows; `runOps` replays a history of `stft(**kw)` / `p(**kw)` / `p(f, **kw)` /
  `stft(f, **kw)` events.  `runChains` is the specification: the same history where every partial
  and every processor just remembers the keyword dicts ON ITS OWN PATH back to `stft` (what the
  three calling styles of the property are about, `stft_styles`).

  `stepMut` is the machine of a plausible "clean-up" (`kwparams.update(new_kws)`): the same on every
  history in which no partial is used twice, different as soon as one is.
-/
import ALV.Model.C09
namespace ALV.C09

/-- one event of a history; partials are named by their creation index -/
inductive POp where
  | new (kw : Dict)                      -- `p = stft(**kw)`
  | derive (parent : Nat) (kw : Dict)    -- `p' = p(**kw)`            (no function: another partial)
  | build (parent : Nat) (kw : Dict)     -- `proc = p(func, **kw)`    (also `@p` / `@p(**kw)`)
  | direct (kw : Dict)                   -- `proc = stft(func, **kw)`
  deriving Repr

/-- the closures alive after a history: the `kwparams` dict of every partial and of every processor,
    in creation order -/
structure PStore where
  partials : List Dict
  procs : List Dict
  deriving Repr

def PStore.empty : PStore := ⟨[], []⟩

/-- the record of partial `i` (`[]` for a name that does not exist: the tie never sends one) -/
def PStore.record (s : PStore) (i : Nat) : Dict := s.partials.getD i []

/-- the code: every event allocates ONE new record and writes nowhere else -/
def pstep (s : PStore) : POp → PStore
  | .new kw => { s with partials := s.partials ++ [dictUpdate [] kw] }
  | .derive i kw => { s with partials := s.partials ++ [dictUpdate (s.record i) kw] }
  | .build i kw => { s with procs := s.procs ++ [dictUpdate (s.record i) kw] }
  | .direct kw => { s with procs := s.procs ++ [dictUpdate [] kw] }

def runOps (ops : List POp) : PStore := ops.foldl pstep .empty

/-! ### specification: every closure remembers the keyword dicts on its own path -/

structure CStore where
  partials : List (List Dict)
  procs : List (List Dict)

def CStore.empty : CStore := ⟨[], []⟩

def cstep (s : CStore) : POp → CStore
  | .new kw => { s with partials := s.partials ++ [[kw]] }
  | .derive i kw => { s with partials := s.partials ++ [s.partials.getD i [] ++ [kw]] }
  | .build i kw => { s with procs := s.procs ++ [s.partials.getD i [] ++ [kw]] }
  | .direct kw => { s with procs := s.procs ++ [[kw]] }

def runChains (ops : List POp) : CStore := ops.foldl cstep .empty

/-! ### the variant that writes into the partial it derives from (NOT the code) -/

/-- `l[i] = v` -/
def listSet {β : Type} : List β → Nat → β → List β
  | [], _, _ => []
  | _ :: xs, 0, v => v :: xs
  | x :: xs, i + 1, v => x :: listSet xs i v

/-- `def result(f=None, **new_kws): kwparams.update(new_kws); return stft(f, **kwparams)` -/
def pstepMut (s : PStore) : POp → PStore
  | .new kw => { s with partials := s.partials ++ [dictUpdate [] kw] }
  | .derive i kw =>
    let r := dictUpdate (s.record i) kw
    { s with partials := listSet s.partials i r ++ [r] }
  | .build i kw =>
    let r := dictUpdate (s.record i) kw
    { partials := listSet s.partials i r, procs := s.procs ++ [r] }
  | .direct kw => { s with procs := s.procs ++ [dictUpdate [] kw] }

def runOpsMut (ops : List POp) : PStore := ops.foldl pstepMut .empty

end ALV.C09
