/-
  C19 — the generators of `audiolazy.lazy_synth` once more, code shaped, but over an explicit
  record `NumOps α` of the operations of the Python number type they run on (`+ - * /`, `%`,
  `== 0`, `<`, `int()`, `math.ceil`, `isinf`), every operation that can raise being
  `Except`-valued.  Two instances:

    * `fieldOps`  — the exact operations of the model `ALV.Model.C19` (floored modulo, …).
      `Lemmas/C19Float.lean` proves `mcG fieldOps = moduloCounter`, `lineG fieldOps = lineSpec`,
      … : the generic definitions ARE the proved model, so every theorem of the slice speaks
      about them.
    * `floatOps`  — IEEE binary64 as CPython uses it: Lean's `Float` for `+ - * /` (the C
      `double` operations, round to nearest even), and — built here from the bit pattern, in
      exact integer arithmetic — C `fmod`, Python's sign adjustment of `%`, `int()`,
      `math.floor`, `math.ceil`.  With it the driver predicts the float outputs of the real
      code BIT FOR BIT (entry `*_float`).

  Python facts encoded for floats (Objects/floatobject.c `float_rem`):
      mod = fmod(vx, wx)                       -- exact, sign of the dividend
      if mod: if (wx < 0) != (mod < 0): mod += wx     -- ONE rounded addition
      else:   mod = copysign(0.0, wx)
  so a single `x % m` lies in the CLOSED range `[0, m]` (`-1e-100 % 5.0 == 5.0`) and only the
  double reduction `x % m % m` that `modulo_counter` writes everywhere lies in `[0, m)`
  (theorems `float_mod_*` in `Props/C19.lean`, for any monotone rounding).

  Mathlib-free; executable.
-/
import ALV.Model.C19
namespace ALV.C19

/-- the operations of a Python number type -/
structure NumOps (α : Type) where
  zero : α
  one : α
  half : α                              -- the literal `.5`
  add : α → α → α
  sub : α → α → α
  mul : α → α → α
  div : α → α → α                       -- `/` (every divisor of the modelled code is tested `!= 0` first)
  neg : α → α
  mod : α → α → Except String α         -- `%` (ZeroDivisionError)
  isZero : α → Bool                     -- `x == 0`
  lt : α → α → Bool
  le : α → α → Bool
  isInf : α → Bool                      -- `math.isinf`
  ofInt : Int → α                       -- an `int` operand of a mixed operation (`n * step`)
  trunc : α → Except String Int         -- `int(x)` (OverflowError for inf, ValueError for nan)
  ceil : α → Except String Int          -- `math.ceil`

/-- outputs yielded, and the exception that ended the generator (if one did) -/
abbrev Run (α : Type) := List α × Option String

def rcons {α : Type} (x : α) (r : Run α) : Run α := (x :: r.1, r.2)

section G
variable {α : Type} (o : NumOps α)

/-- `c % m % m` -/
def mod2G (a m : α) : Except String α :=
  match o.mod a m with
  | .error e => .error e
  | .ok r => o.mod r m

/-! ### `modulo_counter` (lazy_synth.py:52-139); the first argument of every loop is the number
of outputs still to be observed -/

def gPMS : Nat → α → α → List α → List α → List α → Run α
  | k + 1, c, lastp, p :: ps, m :: ms, s :: ss =>
    match mod2G o (o.add c (o.sub p lastp)) m with
    | .error e => ([], some e)
    | .ok c1 => rcons c1 (gPMS k (o.add c1 s) p ps ms ss)
  | _, _, _, _, _, _ => ([], none)

def gPS (m : α) : Nat → α → α → List α → List α → Run α
  | k + 1, c, lastp, p :: ps, s :: ss =>
    match mod2G o (o.add c (o.sub p lastp)) m with
    | .error e => ([], some e)
    | .ok c1 => rcons c1 (gPS m k (o.add c1 s) p ps ss)
  | _, _, _, _, _ => ([], none)

def gPM (s : α) : Nat → α → α → List α → List α → Run α
  | k + 1, c, lastp, p :: ps, m :: ms =>
    match mod2G o (o.add c (o.sub p lastp)) m with
    | .error e => ([], some e)
    | .ok c1 => rcons c1 (gPM s k (o.add c1 s) p ps ms)
  | _, _, _, _, _ => ([], none)

def gP0 (m : α) : Nat → List α → Run α
  | k + 1, p :: ps =>
    match mod2G o p m with
    | .error e => ([], some e)
    | .ok y => rcons y (gP0 m k ps)
  | _, _ => ([], none)

def gFastP (m s : α) (steps : Int) : Nat → α → α → Int → List α → Run α
  | k + 1, c, lastp, n, p :: ps =>
    let c1 := o.add c (o.sub p lastp)
    match mod2G o (o.add c1 (o.mul (o.ofInt n) s)) m with
    | .error e => ([], some e)
    | .ok y =>
      if n + 1 = steps then
        match mod2G o (o.add c1 (o.mul (o.ofInt steps) s)) m with
        | .error e => ([y], some e)
        | .ok c2 => rcons y (gFastP m s steps k c2 p 0 ps)
      else rcons y (gFastP m s steps k c1 p (n + 1) ps)
  | _, _, _, _, _ => ([], none)

def gP (m s : α) : Nat → α → α → List α → Run α
  | k + 1, c, lastp, p :: ps =>
    match mod2G o (o.add c (o.sub p lastp)) m with
    | .error e => ([], some e)
    | .ok c1 => rcons c1 (gP m s k (o.add c1 s) p ps)
  | _, _, _, _ => ([], none)

def gMS : Nat → α → List α → List α → Run α
  | k + 1, c, m :: ms, s :: ss =>
    match mod2G o c m with
    | .error e => ([], some e)
    | .ok c1 => rcons c1 (gMS k (o.add c1 s) ms ss)
  | _, _, _, _ => ([], none)

def gS (m : α) : Nat → α → List α → Run α
  | k + 1, c, s :: ss =>
    match mod2G o c m with
    | .error e => ([], some e)
    | .ok c1 => rcons c1 (gS m k (o.add c1 s) ss)
  | _, _, _ => ([], none)

def gM (s : α) : Nat → α → List α → Run α
  | k + 1, c, m :: ms =>
    match mod2G o c m with
    | .error e => ([], some e)
    | .ok c1 => rcons c1 (gM s k (o.add c1 s) ms)
  | _, _, _ => ([], none)

def gFastN (m s : α) (steps : Int) : Nat → α → Int → Run α
  | 0, _, _ => ([], none)
  | k + 1, c, n =>
    match mod2G o (o.add c (o.mul (o.ofInt n) s)) m with
    | .error e => ([], some e)
    | .ok y =>
      if n + 1 = steps then
        match mod2G o (o.add c (o.mul (o.ofInt steps) s)) m with
        | .error e => ([y], some e)
        | .ok c2 => rcons y (gFastN m s steps k c2 0)
      else rcons y (gFastN m s steps k c (n + 1))

def gN (m s : α) : Nat → α → Run α
  | 0, _ => ([], none)
  | k + 1, c =>
    match mod2G o c m with
    | .error e => ([], some e)
    | .ok c1 => rcons c1 (gN m s k (o.add c1 s))

/-- `modulo_counter(start, modulo, step)` observed through `n` reads -/
def mcG (start modulo step : Arg α) (n : Nat) : Run α :=
  match start with
  | .strm ps =>
    match step with
    | .strm ss =>
      match modulo with
      | .strm ms => gPMS o n o.zero o.zero ps ms ss
      | .num m => gPS o m n o.zero o.zero ps ss
    | .num s =>
      match modulo with
      | .strm ms => gPM o s n o.zero o.zero ps ms
      | .num m =>
        if o.isZero s then gP0 o m n ps
        else
          match o.trunc (o.div m s) with
          | .error e => ([], some e)
          | .ok steps =>
            if steps > 1 then gFastP o m s steps n o.zero o.zero 0 ps
            else gP o m s n o.zero o.zero ps
  | .num a =>
    match step with
    | .strm ss =>
      match modulo with
      | .strm ms => gMS o n a ms ss
      | .num m => gS o m n a ss
    | .num s =>
      match modulo with
      | .strm ms => gM o s n a ms
      | .num m =>
        if o.isZero s then
          match mod2G o a m with
          | .error e => ([], some e)
          | .ok c => (List.replicate n c, none)
        else
          match o.trunc (o.div m s) with
          | .error e => ([], some e)
          | .ok steps =>
            if steps > 1 then gFastN o m s steps n a 0
            else gN o m s n a

/-- which path a call takes -/
def mcBranchG (start modulo step : Arg α) : String :=
  let fast (m s : α) : String :=
    if o.isZero s then "step0"
    else match o.trunc (o.div m s) with
      | .error e => e
      | .ok k => if k > 1 then "fast" else "plain"
  match start, modulo, step with
  | .strm _, .strm _, .strm _ => "PMS"
  | .strm _, .num _, .strm _ => "P-S"
  | .strm _, .strm _, .num _ => "PM-"
  | .strm _, .num m, .num s => "P--:" ++ fast m s
  | .num _, .strm _, .strm _ => "-MS"
  | .num _, .num _, .strm _ => "--S"
  | .num _, .strm _, .num _ => "-M-"
  | .num _, .num m, .num s => "---:" ++ fast m s

/-- the values an argument can deliver -/
def Arg.vals : Arg α → List α
  | .num x => [x]
  | .strm xs => xs

/-! ### `line`, fades, `ones`, `zeros`, `impulse`, `adsr`, `attack` (the code of today: an empty
line needs no slope — `m = … if interval != 0 else 0.`) -/

/-- `line(dur, begin, end, finish)`, at most `n` samples read -/
def lineG (dur b e : α) (fin : Bool) (n : Nat) : Run α :=
  let interval := o.sub dur (if fin then o.one else o.zero)
  let m := if o.isZero interval then o.zero else o.div (o.sub e b) interval
  match o.trunc (o.add dur o.half) with
  | .error x => ([], some x)
  | .ok k => ((List.range (min k.toNat n)).map fun (i : Nat) => o.add b (o.mul (o.ofInt i) m), none)

/-- `dur is None or (isinf(dur) and dur > 0)` -/
def endlessG (dur : Option α) : Bool :=
  match dur with
  | none => true
  | some d => o.isInf d && o.lt o.zero d

/-- `ones(dur)` / `zeros(dur)` -/
def constG (v : α) (dur : Option α) (n : Nat) : Run α :=
  match dur with
  | none => (List.replicate n v, none)
  | some d =>
    if endlessG o (some d) then (List.replicate n v, none)
    else match o.trunc (o.add o.half d) with
      | .error x => ([], some x)
      | .ok k => (List.replicate (min k.toNat n) v, none)

/-- `impulse(dur, one, zero)` -/
def impulseG {β : Type} (dur : Option α) (one zero : β) (n : Nat) : Run β :=
  match dur with
  | none => ((one :: List.replicate (n - 1) zero).take n, none)
  | some d =>
    if endlessG o (some d) then ((one :: List.replicate (n - 1) zero).take n, none)
    else if o.le o.half d then
      match o.trunc (o.sub d o.half) with
      | .error x => ([], some x)
      | .ok k => ((one :: List.replicate (min k.toNat n) zero).take n, none)
    else ([], none)

/-- slope of a segment: `num / t if t != 0 else 0.` -/
def slopeG (num t : α) : α := if o.isZero t then o.zero else o.div num t

/-- `adsr(dur, a, d, s, r)`, at most `n` samples read -/
def adsrG (dur a d s r : α) (n : Nat) : Run α :=
  let m_a := slopeG o o.one a
  let m_d := slopeG o (o.sub s o.one) d
  let m_r := slopeG o (o.mul (o.neg s) o.one) r
  match o.trunc (o.add a o.half), o.trunc (o.add d o.half), o.trunc (o.add r o.half),
        o.trunc (o.add dur o.half) with
  | .ok la, .ok ld, .ok lr, .ok lt =>
    let ls := lt - la - ld - lr
    ((((List.range (min la.toNat n)).map fun (i : Nat) => o.mul (o.ofInt i) m_a)
      ++ ((List.range (min ld.toNat n)).map fun (i : Nat) => o.add o.one (o.mul (o.ofInt i) m_d))
      ++ List.replicate (min ls.toNat n) s
      ++ ((List.range (min lr.toNat n)).map fun (i : Nat) => o.add s (o.mul (o.ofInt i) m_r))).take n, none)
  | .error x, _, _, _ => ([], some x)
  | _, .error x, _, _ => ([], some x)
  | _, _, .error x, _ => ([], some x)
  | _, _, _, .error x => ([], some x)

/-- `attack(a, d, s)` -/
def attackG (a d : α) (s : Arg α) (n : Nat) : Run α :=
  let s0? : Option α := match s with
    | .num x => some x
    | .strm xs => xs.head?
  match s0? with
  | none => ([], some "RuntimeError")
  | some s0 =>
    let m_a := slopeG o o.one a
    let m_d := slopeG o (o.sub s0 o.one) d
    match o.trunc (o.add a o.half), o.trunc (o.add d o.half) with
    | .ok la, .ok ld =>
      let head := ((List.range (min la.toNat n)).map fun (i : Nat) => o.mul (o.ofInt i) m_a)
        ++ ((List.range (min ld.toNat n)).map fun (i : Nat) => o.add o.one (o.mul (o.ofInt i) m_d))
      match s with
      | .num x => ((head ++ List.replicate n x).take n, none)
      | .strm xs => ((head ++ xs.tail).take n, none)
    | .error x, _ => ([], some x)
    | _, .error x => ([], some x)

/-! ### `TableLookup.__call__` / `__getitem__` -/

/-- `tbl[int(idx)] * (1. - (idx - int(idx))) + tbl[int(ceil(idx)) - total_length] * (idx - int(idx))` -/
def lookupAtG (tbl : List α) (idx : α) : Except String α :=
  match o.trunc idx, o.ceil idx with
  | .ok i, .ok c =>
    let fr := o.sub idx (o.ofInt i)
    match pyIndex tbl i, pyIndex tbl (c - (tbl.length : Int)) with
    | some x, some y => .ok (o.add (o.mul x (o.sub o.one fr)) (o.mul y fr))
    | _, _ => .error "IndexError"
  | .error x, _ => .error x
  | _, .error x => .error x

/-- the lazily mapped stream: the first failing sample ends it -/
def mapRun {β : Type} (f : α → Except String β) : List α → Option String → Run β
  | [], e => ([], e)
  | x :: xs, e =>
    match f x with
    | .error x => ([], some x)
    | .ok y => rcons y (mapRun f xs e)

/-- `TableLookup(tbl, cycles)(freq, phase)`; `den` = the value of `cycles * 2 * pi` -/
def tableCallG (tbl : List α) (den : α) (freq phase : Arg α) (n : Nat) : Run α × List α :=
  let total : α := o.ofInt (tbl.length : Int)
  let cycleLength := o.div total den
  let step := freq.map (o.mul cycleLength ·)
  let part := phase.map (o.mul cycleLength ·)
  let r := mcG o part (.num total) step n
  (mapRun (lookupAtG o tbl) r.1 r.2, r.1)

end G

/-! ## the exact instance: the operations of `ALV.Model.C19` -/

section Field
variable {α : Type} [Add α] [Sub α] [Mul α] [Div α] [Neg α] [OfNat α 0] [OfNat α 1]
  [IntCast α] [Floor α] [DecidableEq α] [LT α] [DecidableLT α]

def fieldOps : NumOps α where
  zero := 0
  one := 1
  half := half
  add := (· + ·)
  sub := (· - ·)
  mul := (· * ·)
  div := (· / ·)
  neg := fun x => -x
  mod := fun a m => .ok (fmod a m)
  isZero := fun x => decide (x = 0)
  lt := fun a b => decide (a < b)
  le := fun a b => decide (¬ b < a)
  isInf := fun _ => false
  ofInt := fun z => (z : α)
  trunc := fun x => .ok (pyInt x)
  ceil := fun x => .ok (pyCeil x)

/-- Python's float `%` over an ordered field whose only inexact operation — the addition that
    moves the C `fmod` result to the sign of the divisor — is followed by a rounding `rnd` -/
def fmodR (rnd : α → α) (a m : α) : α :=
  let r := a - m * ((pyInt (a / m) : Int) : α)        -- C fmod: exact, sign of the dividend
  if r = 0 then 0
  else if decide (m < 0) != decide (r < 0) then rnd (r + m)
  else r

end Field

/-! ## a toy rounding on ℚ (witnesses of the theorems about rounded `%`) -/

/-- rounding to the nearest multiple of 1/4 -/
def rndQuarter (x : Rat) : Rat := ((Rat.floor (x * 4 + 1 / 2) : Int) : Rat) / 4

/-- the exact operations of ℚ, except that `%` is Python's float `%` with that rounding -/
def roundedOps : NumOps Rat := { (fieldOps : NumOps Rat) with mod := fun a m => .ok (fmodR rndQuarter a m) }

/-! ## IEEE binary64 (CPython's float) -/

/-- a finite float is `± mant * 2^exp` exactly; `none` for inf / nan -/
def fDecode (x : Float) : Option (Bool × Nat × Int) :=
  let b := x.toBits.toNat
  let neg := b >>> 63 == 1
  let ex := (b >>> 52) % 2048
  let fr := b % 4503599627370496
  if ex == 2047 then none
  else if ex == 0 then some (neg, fr, -1074)
  else some (neg, fr + 4503599627370496, (ex : Int) - 1075)

/-- `(|x| truncated, exact?)` of a finite float -/
def fAbsTrunc (m : Nat) (e : Int) : Nat × Bool :=
  if e ≥ 0 then (m <<< e.toNat, true)
  else
    let a := m >>> (-e).toNat
    (a, a <<< (-e).toNat == m)

def fNonFinite (x : Float) : Except String Int :=
  if x.isNaN then .error "ValueError" else .error "OverflowError"

/-- `int()` of the exact value `± m·2^e` -/
def truncT (neg : Bool) (m : Nat) (e : Int) : Int :=
  let a : Int := (fAbsTrunc m e).1
  if neg then -a else a

/-- `math.ceil` of the exact value `± m·2^e` -/
def ceilT (neg : Bool) (m : Nat) (e : Int) : Int :=
  let (a, exact) := fAbsTrunc m e
  if neg then -(a : Int) else if exact then (a : Int) else (a : Int) + 1

/-- `int(x)` -/
def fTrunc (x : Float) : Except String Int :=
  match fDecode x with
  | none => fNonFinite x
  | some (neg, m, e) => .ok (truncT neg m e)

/-- `math.ceil(x)` -/
def fCeil (x : Float) : Except String Int :=
  match fDecode x with
  | none => fNonFinite x
  | some (neg, m, e) => .ok (ceilT neg m e)

def stripZeros : Nat → Nat → Int → Nat × Int
  | 0, n, k => (n, k)
  | f + 1, n, k => if n != 0 && n % 2 == 0 then stripZeros f (n / 2) (k + 1) else (n, k)

/-- the float `± n * 2^e`, for a representable value (at most 53 significant bits) -/
def fExact (neg : Bool) (n : Nat) (e : Int) : Float :=
  let (r, k) := stripZeros (n.log2 + 1) n e
  let v := (Float.ofNat r).scaleB k
  if neg then -v else v

/-- C `fmod` on exact values `mx·2^ex`, `my·2^ey` (`my ≠ 0`): mantissa and exponent of the
    remainder, in integer arithmetic on the common exponent -/
def fmodT (mx : Nat) (ex : Int) (my : Nat) (ey : Int) : Nat × Int :=
  let e := min ex ey
  let X := mx <<< (ex - e).toNat
  let Y := my <<< (ey - e).toNat
  (X % Y, e)

/-- C `fmod(x, y)`, `y ≠ 0`: exact; the sign of the dividend -/
def cFmod (x y : Float) : Float :=
  match fDecode x, fDecode y with
  | some (nx, mx, ex), some (_, my, ey) =>
    if my == 0 then 0.0 / 0.0
    else fExact nx (fmodT mx ex my ey).1 (fmodT mx ex my ey).2
  | some _, none => if y.isNaN then y else x
  | none, _ => 0.0 / 0.0

/-- what `float_rem` (Objects/floatobject.c) uses of its number type -/
structure ModOps (α : Type) where
  isZero : α → Bool          -- `v == 0.0`
  ltZero : α → Bool          -- `v < 0.0`
  add : α → α → α            -- `mod += wx`, the ONE inexact operation
  cfmod : α → α → α          -- C `fmod` (exact)
  zeroLike : α → α           -- `copysign(0.0, wx)`

/-- Python's `x % y` (`float_rem`), written once for any number type:
      mod = fmod(vx, wx); if mod: if (wx < 0) != (mod < 0): mod += wx
      else: mod = copysign(0.0, wx) -/
def pyModGen {α : Type} (o : ModOps α) (x y : α) : Except String α :=
  if o.isZero y then .error "ZeroDivisionError"
  else
    let r := o.cfmod x y
    if o.isZero r then .ok (o.zeroLike y)
    else if o.ltZero y != o.ltZero r then .ok (o.add r y)
    else .ok r

/-- binary64: `cFmod` above, Lean's `Float` comparison and (rounded) addition -/
def floatModOps : ModOps Float where
  isZero := fun v => v == 0.0
  ltZero := fun v => decide (v < 0.0)
  add := (· + ·)
  cfmod := cFmod
  zeroLike := fun y => if y < 0.0 then -0.0 else 0.0

/-- Python's `x % y` on floats -/
def pyModF (x y : Float) : Except String Float := pyModGen floatModOps x y

/-! ## the exact instance of `float_rem`: an ordered field, the one addition followed by `rnd` -/

section ExactMod
variable {α : Type} [Add α] [Sub α] [Mul α] [Div α] [Neg α] [OfNat α 0] [OfNat α 1]
  [IntCast α] [Floor α] [DecidableEq α] [LT α] [DecidableLT α]

/-- C `fmod` on exact values: `a - m·trunc(a/m)` -/
def cRemM (a m : α) : α := a - m * ((pyInt (a / m) : Int) : α)

def exactModOps (rnd : α → α) : ModOps α where
  isZero := fun v => decide (v = 0)
  ltZero := fun v => decide (v < 0)
  add := fun a b => rnd (a + b)
  cfmod := cRemM
  zeroLike := fun _ => 0

end ExactMod

def floatOps : NumOps Float where
  zero := 0.0
  one := 1.0
  half := 0.5
  add := (· + ·)
  sub := (· - ·)
  mul := (· * ·)
  div := (· / ·)
  neg := fun x => -x
  mod := pyModF
  isZero := fun x => x == 0.0
  lt := fun a b => decide (a < b)
  le := fun a b => decide (a ≤ b)
  isInf := fun x => x.isInf
  ofInt := Float.ofInt
  trunc := fTrunc
  ceil := fCeil

end ALV.C19
