/-
  C14 — model of the window machinery of `audiolazy.lazy_analysis` (code shaped).
  Core Lean only; executable (the driver runs it at `Float`).

  What is *generated* (translator T2, `ALV/Gen/Windows.lean`): the formula of every table row,
  the two code templates (`periodicT`, `symmT`), the names / `distinct` flags / parameter
  defaults of the table.

  The loop `_generate_window_strategies` is regenerated too (translator T2b, `ALV/Gen/C14Src.lean`: a program value
  run by the interpreter of `ALV/Model/C14Loop.lean`); `Props.C14.src_generate_window_strategies_row` /
  `src_generated_is_model` prove that `genStep` / `generated` below ARE that regenerated loop.

  What is hand written here: `_generate_window_strategies` — the loop that `exec`s one
  template per (row, dictionary), registers the function under all its names with
  `sdict.strategy(*names)`, short-cuts non-distinct rows with `wsymm[sname] = window[sname]; break`,
  and sets the `.periodic` / `.symm` attributes — plus the small part of `StrategyDict`
  that this uses (`__setitem__` with a tuple of keys, `__getitem__`, `default`).

      for wnd_dict in window._content_generation_table:
        names = wnd_dict["names"]; sname = names[0]
        for sdict in [window, wsymm]:
          exec(sdict._code_template.format(**wnd_dict), ns, ns)
          sdict.strategy(*names)(ns[sname])
          if not wnd_dict.get("distinct", True):
            wsymm[sname] = window[sname]
            break
        wsymm[sname].periodic = window[sname].periodic = window[sname]
        wsymm[sname].symm = window[sname].symm = wsymm[sname]
-/
import ALV.Gen.Windows
namespace ALV.C14
open ALV ALV.Gen.Windows

/-- A function object created by `exec` of one template for one table row
    (object identity = which row and which template). -/
structure Func where
  sname : String
  /-- `true`: exec'ed from `wsymm._code_template`; `false`: from `window._code_template` -/
  symm : Bool
  deriving DecidableEq, Repr

/-- The part of a `StrategyDict` used here: key ↦ value, and the `default` attribute. -/
structure SDict where
  items : List (String × Func) := []
  default : Option Func := none
  deriving Repr, DecidableEq

/-- `sdict[keys] = value` (`StrategyDict.__setitem__`): every given key is deleted first, then all
    are bound to the value; the first value ever stored becomes `default`. -/
def SDict.setKeys (d : SDict) (keys : List String) (v : Func) : SDict :=
  { items := (d.items.filter fun kv => !keys.contains kv.1) ++ keys.map (fun k => (k, v)),
    default := match d.default with | some f => some f | none => some v }

/-- `sdict[key]`; `none` = `KeyError` -/
def SDict.get (d : SDict) (key : String) : Option Func := d.items.lookup key

/-- The module state after import: both dictionaries and the attributes put on the functions. -/
structure State where
  window : SDict := {}
  wsymm : SDict := {}
  /-- `func.periodic` -/
  periodicAttr : List (Func × Func) := []
  /-- `func.symm` -/
  symmAttr : List (Func × Func) := []
  deriving Repr, DecidableEq

/-- attribute assignment `obj.attr = v` (later assignments win) -/
def setAttr (attrs : List (Func × Func)) (obj v : Func) : List (Func × Func) :=
  (attrs.filter fun kv => kv.1 != obj) ++ [(obj, v)]

/-- one iteration of the outer loop of `_generate_window_strategies` -/
def genStep (st : State) (row : Row) : State :=
  match row.names with
  | [] => st                                   -- `names[0]` would raise; no such row exists
  | sname :: _ =>
    -- sdict = window
    let fw : Func := ⟨sname, false⟩
    let window := st.window.setKeys row.names fw
    -- sdict = wsymm, unless the row is not distinct (`wsymm[sname] = window[sname]; break`)
    let wsymm :=
      if row.distinct then st.wsymm.setKeys row.names ⟨sname, true⟩
      else match window.get sname with
        | some f => st.wsymm.setKeys [sname] f
        | none => st.wsymm
    match window.get sname, wsymm.get sname with
    | some w, some s =>
      { window := window, wsymm := wsymm,
        -- wsymm[sname].periodic = window[sname].periodic = window[sname]   (targets are assigned left to right)
        periodicAttr := setAttr (setAttr st.periodicAttr s w) w w,
        -- wsymm[sname].symm = window[sname].symm = wsymm[sname]
        symmAttr := setAttr (setAttr st.symmAttr s s) w s }
    | _, _ => { st with window := window, wsymm := wsymm }

/-- the state after `_generate_window_strategies()` -/
def generated : State := rows.foldl genStep {}

inductive DictId | window | wsymm
  deriving DecidableEq, Repr

def State.dict (st : State) : DictId → SDict
  | .window => st.window
  | .wsymm => st.wsymm

/-- `window.symm = wsymm.symm = wsymm`, `window.periodic = wsymm.periodic = window` -/
def dictSymm (_ : DictId) : DictId := .wsymm
def dictPeriodic (_ : DictId) : DictId := .window

/-- `func.periodic`, `func.symm` -/
def State.periodicOf (st : State) (f : Func) : Option Func := st.periodicAttr.lookup f
def State.symmOf (st : State) (f : Func) : Option Func := st.symmAttr.lookup f

/-- result of a call: the list, or the kind of the Python exception -/
inductive Outcome (α : Type) where
  | ok (xs : List α)
  | err (kind : String)

variable {α : Type} [TrigField α]

/-- calling a function object: `func(size)` / `func(size, alpha)` -/
def callFunc (fn : Func) (size : Int) (alpha : Option α) : Outcome α :=
  match formula (α := α) fn.sname with
  | none => .err "KeyError"
  | some f =>
    match alpha, alphaDefault (α := α) fn.sname with
    | some _, none => .err "TypeError"            -- the exec'ed function has no `alpha` parameter
    | a, d =>
      let av : α := a.getD (d.getD (TrigField.ofInt 0))
      .ok ((if fn.symm then symmT else periodicT) (fun s n => f s n av) size)

/-- `sdict[name](size[, alpha])`; `name = none` is `sdict(size[, alpha])` (the default strategy) -/
def call (d : DictId) (name : Option String) (size : Int) (alpha : Option α) : Outcome α :=
  let sd := generated.dict d
  match (match name with | some k => sd.get k | none => sd.default) with
  | none => .err "KeyError"
  | some fn => callFunc fn size alpha

/-! ### Histories of calls

A caller may do anything with a list it received — `p.append(p[0])` is what the docstrings of the
periodic windows recommend to get the symmetric window.  Both templates build a NEW list object on
every call (`[... for n in xrange(size)]`, `[1.0]`) and `_generate_window_strategies` registers the
exec'ed functions themselves (no wrapper that keeps results).  Code shaped model of that: an object
store (`Heap`, index = object identity) to which a call appends its own result and from which no
call reads; what the caller does in place (`change`, any function) rewrites exactly one stored object. -/

/-- the list objects handed out so far; the position is the object's identity -/
abbrev Heap (α : Type) := List (List α)

/-- one step of a history: a call, and then what the caller does in place with one of the list
    objects it holds (`target` = identity of that object; the result of this very call included) -/
structure Step (α : Type) where
  d : DictId
  name : Option String
  size : Int
  alpha : Option α
  target : Nat
  change : List α → List α

/-- the call of a step, on its own -/
def Step.call (s : Step α) : Outcome α := ALV.C14.call s.d s.name s.size s.alpha

/-- Run a history from a given store.  Result: per call the outcome and the identity of the returned
    list object (`none` when the call raised), and the final store. -/
def runHistory : List (Step α) → Heap α → List (Outcome α × Option Nat) × Heap α
  | [], h => ([], h)
  | s :: rest, h =>
    let r := s.call
    let alloc : Option Nat × Heap α :=
      match r with
      | .ok xs => (some h.length, h ++ [xs])       -- a fresh object
      | .err _ => (none, h)
    let h' := alloc.2.modify s.target s.change          -- the caller's in-place change
    let out := runHistory rest h'
    ((r, alloc.1) :: out.1, out.2)

end ALV.C14
