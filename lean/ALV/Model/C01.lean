/-
  C01 — model (code shaped) of the operator machinery of `audiolazy.Stream`.
  Mathlib-free; executable; no `import Lean`.

  What is modelled, from the code:

  * `lazy_core.OpMethod._insert` / `_initialize`          → `insert`, `initializeOps`
  * `lazy_core.AbstractOperatorOverloaderMeta.__new__`   → `install` (one dunder per OpMethod entry,
       builder chosen by the dict `{(False,1): __unary__, (False,2): __binary__, (True,2): __rbinary__}`,
       skipped when the class namespace already has the name, `setattr` overriding earlier entries)
  * `lazy_stream.StreamMeta.__binary__/__rbinary__/__unary__` → `binaryDunder`, `rbinaryDunder`, `unaryDunder`
  * `Stream.__init__` (1 and 2 arguments), `Stream.map`, `__abs__`, `__getattr__`, `__call__`, `append`
  * the iterators these are made of (`iter(list)`, `itertools.repeat/cycle/chain`, `map` with one or
    two iterables, `map` of a lambda closing over a scalar) as a tree of iterator states with a
    `next` function (`Iter.step`) that also returns the state left behind.

  The element type is a FREE TERM ALGEBRA: the model says which elements are combined by which
  operator function, in which argument order — for any element type.  Python's number semantics
  is deliberately not modelled (the property is about wiring).

  Names are `List Char` (not `String`) so that the kernel can evaluate the table by `decide`.
-/
namespace ALV.C01

abbrev Name := List Char

-- `n!"add"` = `['a','d','d']`
open Lean in
macro:max "n!" s:str : term => do
  let cs := s.getString.toList.map fun c => Syntax.mkCharLit c
  `(([$(cs.toArray),*] : List Char))

/-- Elements: atoms (the actual leaf elements / scalars, named by a number) and applications of a
    named function to argument terms. -/
inductive Term where
  | atom (id : Nat)
  | app (f : Name) (args : List Term)
  deriving Repr, Inhabited

/-! ## Iterators -/

/-- State of a (tree of) Python iterator(s). -/
inductive Iter where
  | list (tag : Nat) (xs : List Term)        -- `iter(xs)` for a list / tuple / a generator over finite data;
                                             --   `tag` names the source (only used to report read counts)
  | rep (c : Term)                           -- `itertools.repeat(c)`
  | cycle (cur all : List Term)              -- `itertools.cycle(all)`, `cur` = rest of the current round
  | chain (a b : Iter)                       -- `itertools.chain(a, b)`
  | mapc (g : Bool) (f : Name) (pre post : List Term) (a : Iter)
                                             -- `g = false`: the map object `map(lambda x: f(*pre, x, *post), a)`;
                                             -- `g = true` : the generator expression `(f(*pre, x, *post) for x in a)`.
                                             --   Same items as long as no element operation raises; an exception
                                             --   leaves a map object usable and FINISHES a generator (`Iter.stepE`)
  | map2 (f : Name) (a b : Iter)             -- `map(f, a, b)`
  | dead (a : Iter)                          -- a generator finished by an exception; `a` = its source, frozen
  deriving Repr, Inhabited

/-- `map(f, a)` -/
abbrev Iter.map1 (f : Name) (a : Iter) : Iter := .mapc false f [] [] a
/-- `(f(x) for x in a)` -/
abbrev Iter.gen1 (f : Name) (a : Iter) : Iter := .mapc true f [] [] a
/-- `map(lambda x: f(c, x), a)` -/
abbrev Iter.mapL (f : Name) (c : Term) (a : Iter) : Iter := .mapc false f [c] [] a
/-- `map(lambda x: f(x, c), a)` -/
abbrev Iter.mapR (f : Name) (a : Iter) (c : Term) : Iter := .mapc false f [] [c] a

/-- `next(it)`: the item (or `none` = StopIteration) and the iterator state afterwards.
    `map(f, a, b)` asks `a` first and does not touch `b` when `a` has ended (CPython `map_next`);
    when `b` ends, the item taken from `a` is lost. -/
def Iter.step : Iter → Option Term × Iter
  | .list t [] => (none, .list t [])
  | .list t (x :: xs) => (some x, .list t xs)
  | .rep c => (some c, .rep c)
  | .cycle (x :: cur) all => (some x, .cycle cur all)
  | .cycle [] [] => (none, .cycle [] [])
  | .cycle [] (x :: all) => (some x, .cycle all (x :: all))
  | .chain a b =>
    match a.step with
    | (some x, a') => (some x, .chain a' b)
    | (none, _) => b.step          -- `chain` drops an exhausted iterator for good
  | .mapc g f pre post a =>
    match a.step with
    | (some x, a') => (some (.app f (pre ++ x :: post)), .mapc g f pre post a')
    | (none, a') => (none, .mapc g f pre post a')
  | .map2 f a b =>
    match a.step with
    | (none, a') => (none, .map2 f a' b)
    | (some x, a') =>
      match b.step with
      | (none, b') => (none, .map2 f a' b')
      | (some y, b') => (some (.app f [x, y]), .map2 f a' b')
  | .dead a => (none, .dead a)

/-- `Stream.take(n)` / `list(islice(it, n))`: at most `n` items, stops at the first StopIteration.
    Returns the items and the iterator state left behind (for the read counts). -/
def Iter.runS : Nat → Iter → List Term × Iter
  | 0, it => ([], it)
  | n + 1, it =>
    match it.step with
    | (none, it') => ([], it')
    | (some x, it') =>
      let r := Iter.runS n it'
      (x :: r.1, r.2)

def Iter.run (n : Nat) (it : Iter) : List Term := (Iter.runS n it).1

/-- Every element computation one call of `next` performs, in the order python performs it — including
    the ones whose result is thrown away (`map(f, a, b)`: the item of `a` when `b` has ended; `chain`: what
    the exhausted first part computed).  Only needed to predict WHICH exception surfaces when an element
    operation raises; irrelevant when element operations are total. -/
def Iter.stepTrace : Iter → List Term
  | .list _ _ => []
  | .rep _ => []
  | .cycle _ _ => []
  | .chain a b =>
    match a.step with
    | (some _, _) => a.stepTrace
    | (none, _) => a.stepTrace ++ b.stepTrace
  | .mapc _ f pre post a =>
    match a.step with
    | (some x, _) => a.stepTrace ++ [.app f (pre ++ x :: post)]
    | (none, _) => a.stepTrace
  | .map2 f a b =>
    match a.step with
    | (none, _) => a.stepTrace
    | (some x, _) =>
      match b.step with
      | (none, _) => a.stepTrace ++ b.stepTrace
      | (some y, _) => a.stepTrace ++ b.stepTrace ++ [.app f [x, y]]
  | .dead _ => []

/-- the computations of every `next` of `take(n)` (the last entry is the failing `next`, if any) -/
def Iter.runT : Nat → Iter → List (List Term)
  | 0, _ => []
  | n + 1, it =>
    it.stepTrace :: (match it.step with
      | (none, _) => []
      | (some _, it') => Iter.runT n it')

/-- Items still unread in every `list` leaf, as (tag, count) (what a counting source observes). -/
def Iter.unread : Iter → List (Nat × Nat)
  | .list t xs => [(t, xs.length)]
  | .rep _ => []
  | .cycle _ _ => []
  | .chain a b => a.unread ++ b.unread
  | .mapc _ _ _ _ a => a.unread
  | .map2 _ a b => a.unread ++ b.unread
  | .dead a => a.unread

/-! ## The operator table: `OpMethod` and the metaclass -/

/-- Constants of `OpMethod._insert` / `AbstractOperatorOverloaderMeta.__new__` (regenerated from the
    source by translator T1, see `ALV/Gen/OpTable.lean`). -/
structure TableSrc where
  /-- `op_symbols` lines: symbol, names -/
  opLines : List (Name × List Name)
  /-- `name.startswith(revPrefix)` -/
  revPrefix : Name
  /-- `and name != …` -/
  revExcept : List Name
  /-- `arityIn if name in unaryNames else arityElse` -/
  unaryNames : List Name
  arityIn : Nat
  arityElse : Nat
  /-- prefix and suffix of the dunder name `"__{}__".format(name)` -/
  dnamePre : Name
  dnamePost : Name
  /-- prefix and suffix of `getattr(operator, "__{}__".format(name[self.rev:]))` -/
  funcPre : Name
  funcPost : Name
  /-- the builder dict of `__new__`: `(rev, arity) ↦` builder attribute name -/
  dispatch : List ((Bool × Nat) × Name)
  /-- names bound in the body of `class Stream` -/
  classNamespace : List Name

structure OpMethod where
  name : Name
  symbol : Name
  rev : Bool
  dname : Name
  arity : Nat
  func : Name          -- attribute of the `operator` module
  deriving DecidableEq, Repr

def startsWith (s p : Name) : Bool := s.take p.length == p

/-- `OpMethod._insert(name, symbol)` -/
def insert (T : TableSrc) (name symbol : Name) : OpMethod :=
  let rev := startsWith name T.revPrefix && !(T.revExcept.contains name)
  { name := name, symbol := symbol, rev := rev,
    dname := T.dnamePre ++ name ++ T.dnamePost,
    arity := if T.unaryNames.contains name then T.arityIn else T.arityElse,
    -- `name[self.rev:]` : a bool used as slice start
    func := T.funcPre ++ name.drop (if rev then 1 else 0) ++ T.funcPost }

/-- `OpMethod._initialize()` : `OpMethod.get("all")` in insertion order -/
def initializeOps (T : TableSrc) : List OpMethod :=
  T.opLines.flatMap fun ln => ln.2.map fun name => insert T name ln.1

inductive Builder where
  | unary | binary | rbinary
  deriving DecidableEq, Repr

def builderOfName (n : Name) : Option Builder :=
  if n == n!"__unary__" then some .unary
  else if n == n!"__binary__" then some .binary
  else if n == n!"__rbinary__" then some .rbinary
  else none

/-- a dunder installed in the class by the metaclass -/
structure Dunder where
  dname : Name
  builder : Builder
  func : Name
  deriving DecidableEq, Repr

def assocSet (k : Name) (v : Dunder) : List (Name × Dunder) → List (Name × Dunder)
  | [] => [(k, v)]
  | (k', v') :: r => if k' == k then (k, v) :: r else (k', v') :: assocSet k v r

/-- The loop of `AbstractOperatorOverloaderMeta.__new__` over `OpMethod.get("all")`.
    `none` = the dict lookup `{…}[op.rev, op.arity]` raised KeyError (class creation fails). -/
def installLoop (T : TableSrc) : List OpMethod → List (Name × Dunder) → Option (List (Name × Dunder))
  | [], acc => some acc
  | op :: ops, acc =>
    if T.classNamespace.contains op.dname then installLoop T ops acc     -- "added manually shouldn't use template"
    else
      match (T.dispatch.lookup (op.rev, op.arity)).bind builderOfName with
      | none => none
      | some b => installLoop T ops (assocSet op.dname ⟨op.dname, b, op.func⟩ acc)   -- setattr

def install (T : TableSrc) : Option (List (Name × Dunder)) := installLoop T (initializeOps T) []

/-! ### any user of the metaclass: `__operators__` / `__without__` queries, missing builders -/

/-- `repr(op)` : `"<{} operator method ('{}' symbol)>".format(self.name, self.symbol)` -/
def OpMethod.reprStr (o : OpMethod) : Name :=
  n!"<" ++ o.name ++ n!" operator method ('" ++ o.symbol ++ n!"' symbol)>"

/-- the string keys under which `_insert` files the entry in `OpMethod._all`
    (`["all", symbol, name, dname, func, arity, str(arity)]`, plus `"r"` for reversed ones) -/
def OpMethod.keys (o : OpMethod) : List Name :=
  [n!"all", o.symbol, o.name, o.dname, [Char.ofNat (48 + o.arity)]] ++ (if o.rev then [n!"r"] else [])

/-- `cls._all[key]` (insertion order); `none` = KeyError -/
def allLookup (ops : List OpMethod) (key : Name) : Option (List OpMethod) :=
  match ops.filter (fun o => o.keys.contains key) with
  | [] => none
  | l => some l

/-- `OpMethod.get(key, without)` for lists of string queries: every match of every key, in the order asked
    for, minus the entries matched by `without`; `none` = ValueError (unknown operator / "div") -/
def getOps (ops : List OpMethod) (keys without : List Name) : Option (List OpMethod) := do
  let ign ← without.mapM (allLookup ops)
  let sel ← keys.mapM (allLookup ops)
  pure (sel.flatten.filter fun o => !(ign.flatten.contains o))

/-- a key of the dictionary `OpMethod._all`: a string, a function of the `operator` module (named by its
    dunder attribute) or an int -/
inductive OpKey where
  | str (s : Name)
  | func (f : Name)
  | int (n : Nat)
  deriving DecidableEq, Repr

/-- ALL keys under which `_insert` files the entry:
    `keys = ["all", self.symbol, self.name, self.dname, self.func, self.arity, str(self.arity)]`, plus `"r"` -/
def OpMethod.keysK (o : OpMethod) : List OpKey :=
  [.str n!"all", .str o.symbol, .str o.name, .str o.dname, .func o.func, .int o.arity,
   .str [Char.ofNat (48 + o.arity)]] ++ (if o.rev then [.str n!"r"] else [])

/-- `cls._all[key]` (insertion order); `none` = KeyError -/
def lookupK (ops : List OpMethod) (key : OpKey) : Option (List OpMethod) :=
  match ops.filter (fun o => o.keysK.contains key) with
  | [] => none
  | l => some l

/-- `list(OpMethod.get(key, without))` for any list of queries (strings already split at white space):
    every match of every key, in the order asked for (an entry matched twice comes twice), minus the
    entries matched by `without`; `none` = ValueError (unknown operator / "div") -/
def getOpsK (ops : List OpMethod) (keys without : List OpKey) : Option (List OpMethod) := do
  let ign ← without.mapM (lookupK ops)
  let sel ← keys.mapM (lookupK ops)
  pure (sel.flatten.filter fun o => !(ign.flatten.contains o))

inductive InstallErr where
  | valueError                 -- unknown operator in `__operators__` / `__without__`
  | keyError                   -- no entry `(rev, arity)` in the builder dict
  | noBuilder (dname : Name)   -- "Class '…' has no builder/template for operator method '…'" (TypeError)
  deriving DecidableEq, Repr

/-- The loop of `__new__` for a metaclass that overrides the builders `hv` only (the abstract ones
    return NotImplemented, which is not callable) and a class body binding the names `ns`. -/
def installLoopW (T : TableSrc) (hv : Builder → Bool) (ns : List Name) :
    List OpMethod → List (Name × Dunder) → Except InstallErr (List (Name × Dunder))
  | [], acc => .ok acc
  | op :: ops, acc =>
    if ns.contains op.dname then installLoopW T hv ns ops acc
    else
      match (T.dispatch.lookup (op.rev, op.arity)).bind builderOfName with
      | none => .error .keyError
      | some b =>
        if hv b then installLoopW T hv ns ops (assocSet op.dname ⟨op.dname, b, op.func⟩ acc)
        else .error (.noBuilder op.dname)

def installW (T : TableSrc) (hv : Builder → Bool) (ns keys without : List Name) : Except InstallErr (List (Name × Dunder)) :=
  match getOps (initializeOps T) keys without with
  | none => .error .valueError
  | some ops => installLoopW T hv ns ops []

/-! ## The Stream class -/

/-- Python values that occur as operands. -/
inductive Val where
  | scalar (c : Term)                       -- not an `Iterable`
  | ignored (c : Term)                      -- instance of a class in `Stream.__ignored_classes__`
  | iterable (isStream : Bool) (it : Iter)  -- an `Iterable`; `it` = what `iter(x)` returns
  deriving Repr, Inhabited

inductive Err where
  | typeError | attributeError | notImplemented | notAStream
  deriving DecidableEq, Repr

/-- dunder built by `StreamMeta.__binary__` -/
def binaryDunder (f : Name) (self : Iter) : Val → Except Err Val
  | .ignored _ => .error .notImplemented
  | .iterable _ o => .ok (.iterable true (.map2 f self o))     -- Stream(xmap(op_func, iter(self), iter(other)))
  | .scalar c => .ok (.iterable true (.mapR f self c))          -- Stream(xmap(lambda a: op_func(a, other), iter(self)))

/-- dunder built by `StreamMeta.__rbinary__` -/
def rbinaryDunder (f : Name) (self : Iter) : Val → Except Err Val
  | .ignored _ => .error .notImplemented
  | .iterable _ o => .ok (.iterable true (.map2 f o self))     -- Stream(xmap(op_func, iter(other), iter(self)))
  | .scalar c => .ok (.iterable true (.mapL f c self))          -- Stream(xmap(lambda a: op_func(other, a), iter(self)))

/-- dunder built by `StreamMeta.__unary__` -/
def unaryDunder (f : Name) (self : Iter) : Except Err Val :=
  .ok (.iterable true (.map1 f self))

/-- `getattr(self, dname)(*args)` for a Stream `self` (0 or 1 argument). -/
def callDunder (tbl : List (Name × Dunder)) (dname : Name) (self : Iter) (arg : Option Val) : Except Err Val :=
  match tbl.lookup dname with
  | none => .error .attributeError
  | some d =>
    match d.builder, arg with
    | .unary, none => unaryDunder d.func self
    | .binary, some o => binaryDunder d.func self o
    | .rbinary, some o => rbinaryDunder d.func self o
    | _, _ => .error .typeError          -- wrong number of arguments

/-- `Stream.__init__` with one argument -/
def streamInit1 : Val → Val
  | .iterable _ it => .iterable true it          -- self._data = iter(dargs[0])
  | .scalar c => .iterable true (.rep c)          -- it.repeat(dargs[0])
  | .ignored c => .iterable true (.rep c)

/-- `Stream.__init__` with two arguments -/
def streamInit2 : Val → Val → Except Err Val
  | .iterable _ a, .iterable _ b => .ok (.iterable true (.chain a b))      -- all Iterable: it.chain(*dargs)
  | .iterable _ _, _ => .error .typeError                                  -- "both iterables and non-iterables"
  | _, .iterable _ _ => .error .typeError
  | a, b =>                                                                -- not any Iterable: it.cycle(dargs)
    let t : Val → Term := fun v => match v with | .scalar c => c | .ignored c => c | .iterable _ _ => default
    .ok (.iterable true (.cycle [t a, t b] [t a, t b]))

/-- Python-level expressions (the "programs" of the property). -/
inductive Py where
  | scalar (c : Term)
  | ignored (c : Term)
  | iterable (tag : Nat) (xs : List Term) -- a list / tuple / generator / … holding these items
  | stream1 (a : Py)                     -- `Stream(a)`
  | stream2 (a b : Py)                   -- `Stream(a, b)`
  | un (dname : Name) (self : Py)        -- `self.__neg__()`
  | bin (dname : Name) (self other : Py) -- `self.__add__(other)`, `self.__radd__(other)`, …
  | meth (g : Bool) (label : Name) (self : Py)
                                         -- `g = false`: `self.map(f)`, `abs(self)` = `xmap(f, self._data)`;
                                         -- `g = true` : `self.attr`, `self(*args)` = `Stream(f(a) for a in self._data)`
                                         --   (a generator expression), for an `f` named by the label
  | append (self other : Py)             -- `self.append(other)`
  deriving Repr, Inhabited

def asStream : Val → Except Err Iter
  | .iterable true it => .ok it
  | _ => .error .notAStream

/-- Evaluation of a Python-level expression with the class whose dunders are `tbl`. -/
def evalPy (tbl : List (Name × Dunder)) : Py → Except Err Val
  | .scalar c => .ok (.scalar c)
  | .ignored c => .ok (.ignored c)
  | .iterable t xs => .ok (.iterable false (.list t xs))
  | .stream1 a => do
    let va ← evalPy tbl a
    pure (streamInit1 va)
  | .stream2 a b => do
    let va ← evalPy tbl a
    let vb ← evalPy tbl b
    streamInit2 va vb
  | .un d s => do
    let vs ← evalPy tbl s
    let it ← asStream vs
    callDunder tbl d it none
  | .bin d s o => do
    let vs ← evalPy tbl s
    let vo ← evalPy tbl o
    let it ← asStream vs
    callDunder tbl d it (some vo)
  | .meth g l s => do
    let vs ← evalPy tbl s
    let it ← asStream vs
    pure (.iterable true (.mapc g l [] [] it))
  | .append s o => do
    let vs ← evalPy tbl s
    let vo ← evalPy tbl o
    let it ← asStream vs
    -- it.chain(self._data, Stream(*other)._data)
    match streamInit1 vo with
    | .iterable _ io => pure (.iterable true (.chain it io))
    | _ => .error .typeError

/-! ## Operands: what can be OBSERVED about a python object next to an operator, and what the builders consult

Between "iterable" and "scalar" lie objects on which the ways of asking "can it be iterated?" disagree: an
object with `__getitem__` (and maybe `__len__`) but no `__iter__` is NO `collections.abc.Iterable`, yet `iter()`
accepts it (legacy sequence protocol: `x[0], x[1], …` until IndexError) — a vector / matrix value type, the
library's own `Poly` and `TableLookup`.  The builders of `StreamMeta` ask `isinstance(other, Iterable)` and
nothing else. -/

/-- the observable predicates of an operand (the harness measures them on the real object with `isinstance`,
    `iter`, `hasattr` — not with library code) -/
structure Operand where
  self : Term                 -- the object itself, as ONE element
  isIgnored : Bool            -- `isinstance(x, Stream.__ignored_classes__)`
  isIterableABC : Bool        -- `isinstance(x, collections.abc.Iterable)`  (has `__iter__`)
  iterWorks : Bool            -- `iter(x)` does not raise TypeError (`__iter__` or the legacy `__getitem__` protocol)
  hasGetItem : Bool           -- `hasattr(type(x), "__getitem__")`
  hasLen : Bool               -- `hasattr(type(x), "__len__")`
  tag : Nat                   -- identity of the iterator `iter(x)` returns
  items : List Term           -- what `iter(x)` delivers when it works (first items of an endless one)
  deriving Repr, Inhabited

/-- **the classification rule**: ignored classes first, then exactly `isIterableABC`; `iterWorks`,
    `hasGetItem`, `hasLen` are not consulted -/
def Operand.toVal (o : Operand) : Val :=
  if o.isIgnored then .ignored o.self
  else if o.isIterableABC then .iterable false (.list o.tag o.items)
  else .scalar o.self

/-- the same as a leaf of an expression tree -/
def Operand.toPy (o : Operand) : Py :=
  if o.isIgnored then .ignored o.self
  else if o.isIterableABC then .iterable o.tag o.items
  else .scalar o.self

end ALV.C01

/-! ## `lazy_misc.elementwise` — the broadcast decorator -/

namespace ALV.C01

/-- the builtin container a user class derives from (its "behaviour class"); `sequence`: a user
    `collections.abc.Sequence` that derives from no builtin container -/
inductive CBase where
  | list | tuple | set | frozenset | deque | sequence
  deriving DecidableEq, Repr, Inhabited

/-- Classes of objects handed to a broadcast function.  A kind is the argument's OWN class (`type(arg)`), not
    only what the wrapper's `isinstance` tests tell apart: `sub base cls` is the proper subclass number `cls`
    (class identity, as registered by the harness) of `base`, whose constructor takes one iterable. -/
inductive CKind where
  | scalar | str
  | list | tuple | set | frozenset | deque                              -- fall through to `type_arg(data)`
  | generator | range | enumerate | zip | zipLongest | map | filter     -- `SOME_GEN_TYPES`
  | stream | streamSub                                                  -- `Stream` and its subclasses
  | sub (base : CBase) (cls : Nat)                                      -- user subclasses: fall through to `type_arg(data)` too
  deriving DecidableEq, Repr, Inhabited

/-- the builtin class `isinstance` sees behind a kind (`none`: the kind is no sized container) -/
def CKind.base? : CKind → Option CBase
  | .list => some .list | .tuple => some .tuple | .set => some .set | .frozenset => some .frozenset
  | .deque => some .deque | .sub b _ => some b
  | _ => none

/-- `isinstance(arg, Iterable)` -/
def CKind.isIterable : CKind → Bool
  | .scalar => false
  | _ => true

/-- `isinstance(arg, STR_TYPES)` -/
def CKind.isStr : CKind → Bool
  | .str => true
  | _ => false

/-- `isinstance(arg, SOME_GEN_TYPES)` -/
def CKind.isSomeGen : CKind → Bool
  | .generator | .range | .enumerate | .zip | .zipLongest | .map | .filter => true
  | _ => false

/-- `issubclass(type(arg), Stream)` -/
def CKind.isStream : CKind → Bool
  | .stream | .streamSub => true
  | _ => false

/-- the argument the wrapper looks at -/
inductive BArg where
  | obj (k : CKind) (self : Term)                     -- scalar / str: handed to the function as it is
  | sized (k : CKind) (tag : Nat) (xs : List Term)    -- list, tuple, set, frozenset, deque: a finite container
  | lazy (k : CKind) (src : Iter)                     -- generators & co, Streams: `iter(arg)` is `src`
  deriving Repr, Inhabited

def BArg.kind : BArg → CKind
  | .obj k _ => k
  | .sized k _ _ => k
  | .lazy k _ => k

/-- `iter(arg)` -/
def BArg.iter : BArg → Iter
  | .obj _ _ => .list 0 []
  | .sized _ t xs => .list t xs
  | .lazy _ src => src

/-- the object itself (scalar path) -/
def BArg.self : BArg → Term
  | .obj _ c => c
  | _ => default

/-- how often `type_arg(data)` calls `next` on a container of this size: all items and the final StopIteration -/
def BArg.drainFuel : BArg → Nat
  | .sized _ _ xs => xs.length + 1
  | _ => 0

/-- a decorated function being called: `elementwise(dname, dpos)(f)(*args, **kwargs)`; the slot of
    `args` / `kwargs` that holds the argument `arg` contains a placeholder term -/
structure ECall where
  f : Name
  dname : Name
  dpos : Option Nat
  args : List Term
  kwargs : List (Name × Term)
  arg : BArg
  deriving Repr, Inhabited

inductive BOut where
  | value (t : Term)                                  -- `func(*args, **kwargs)`
  | gen (it : Iter)                                   -- the generator expression `data`, not started
  | stream (it : Iter)                                -- `Stream(data)`
  | cast (k : CKind) (items : List Term) (left : Iter) -- `type_arg(data)`: `data` consumed to its end
  | keyError                                          -- `kwargs[name]` failed
  deriving Repr, Inhabited

/-- keyword arguments inside a term: a marker `kw:<name>` followed by the value -/
def kwMarker (k : Name) : Term := .app (n!"kw:" ++ k) []

def kwFlat : List (Name × Term) → List Term
  | [] => []
  | (k, v) :: r => kwMarker k :: v :: kwFlat r

/-- `dict(it.chain(iteritems(kwargs), [(name, x)]))` as (terms before x, terms after x); `name` is a key -/
def kwSplit (name : Name) : List (Name × Term) → List Term × List Term
  | [] => ([kwMarker name], [])
  | (k, v) :: r =>
    if k == name then ([kwMarker name], kwFlat r)
    else
      let s := kwSplit name r
      (kwMarker k :: v :: s.1, s.2)

/-- decorator level: `if (name == "") and (pos is None): pos = 0` -/
def ECall.pos (c : ECall) : Option Nat :=
  if c.dname == [] && c.dpos.isNone then some 0 else c.dpos

/-- `positional = (pos is not None) and (pos < len(args))` -/
def ECall.isPositional (c : ECall) : Bool :=
  match c.pos with
  | some p => decide (p < c.args.length)
  | none => false

/-- the generator expression
    `data = (func(*(args[:pos] + (x,) + args[pos+1:]), **kwargs) for x in arg)`  resp.
    `data = (func(*args, **dict(it.chain(iteritems(kwargs), [(name, x)]))) for x in arg)` -/
def ECall.data (c : ECall) : Iter :=
  if c.isPositional then
    let p := c.pos.getD 0
    .mapc true c.f (c.args.take p) (c.args.drop (p + 1) ++ kwFlat c.kwargs) c.arg.iter
  else
    let s := kwSplit c.dname c.kwargs
    .mapc true c.f (c.args ++ s.1) s.2 c.arg.iter

/-- `func(*args, **kwargs)`: the placeholder slot holds the object itself -/
def ECall.plainCall (c : ECall) : Term :=
  if c.isPositional then
    let p := c.pos.getD 0
    .app c.f (c.args.take p ++ c.arg.self :: (c.args.drop (p + 1) ++ kwFlat c.kwargs))
  else
    let s := kwSplit c.dname c.kwargs
    .app c.f ((c.args ++ s.1) ++ c.arg.self :: s.2)

/-- the wrapper returned by `elementwise(name, pos)(func)` -/
def elementwise (c : ECall) : BOut :=
  -- `arg = args[pos] if positional else kwargs[name]`
  if !c.isPositional && !(c.kwargs.any fun kv => kv.1 == c.dname) then .keyError
  else
    let k := c.arg.kind
    if k.isIterable && !k.isStr then
      let data := c.data
      if k.isSomeGen then .gen data                        -- "Generators should still return generators"
      else if k.isStream then .stream data                 -- `Stream(data)`
      else
        let r := data.runS c.arg.drainFuel                 -- `type_arg(data)`: tuple, list, set, deque, ...
        .cast k r.1 r.2
    else .value c.plainCall                                -- `return func(*args, **kwargs)`

end ALV.C01
