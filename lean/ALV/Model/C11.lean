/-
  C11 — model of `audiolazy.lazy_lpc.parcor`, `parcor_stable` and `levinson_durbin`
  (code shaped).  Mathlib-free; executable.

  Coefficient lists: index = delay (coefficient of z^-i).

  `parcor(fir_filt)` as coded:
      den = fir_filt.denominator
      if len(den) != 1: raise ValueError("Filter has feedback")
      elif den[0] != 1: fir_filt /= den[0]          # numpoly * (1/den[0]); denpoly STAYS {0: den[0]}
      for m in xrange(len(fir_filt.numerator) - 1, 0, -1):
        k = fir_filt.numpoly[m]                     # coefficient of z^-m (zero when absent)
        yield k
        zB = fir_filt(1 / z) * z ** -m              # reversal around m: coefficient i -> m - i
        try: fir_filt = (fir_filt - k * zB) / (1 - k ** 2)      # "* (1 / (1 - k**2))"
        except ZeroDivisionError: raise ParCorError
        fir_filt = (fir_filt - fir_filt.numpoly[0]) + 1         # force the coefficient of z^0

  Facts of the real code that shape the model (all observed on /repo, see harness/props/c11.py):
  * `Poly` keeps no zero coefficient, so the order is the highest NON-ZERO index (`stripZeros`).
  * The reversal is around the loop counter `m`, not around the current degree.  As long as the
    coefficient of z^0 is 1 the new coefficient of z^-m is 0 and the filter stays inside
    delays 0..m-1.  When it is not 1 (numerator leading coefficient ≠ den[0]: defect D3) the
    filter becomes a Laurent polynomial that grows in both directions.  The model therefore
    keeps a *window* of delays -n..n (`lget`/`wtab`), n = initial order; nothing ever leaves it.
  * The denominator polynomial stays the constant `d = den[0]` throughout, all operands share
    it, so `-`, `*k`, `/(1-k²)` act on the numerator only; but `filt - c` and `filt + 1` with a
    plain number cross-multiply with `d`:  new z^0 coefficient = c + (-c)·d + d   (= 1 iff c = 1
    or d = 1).
-/
namespace ALV.C11
variable {α : Type} [Add α] [Mul α] [Sub α] [Neg α] [Div α] [OfNat α 0] [OfNat α 1]
  [DecidableEq α]

/-- `Poly` compacts zeros: trailing zero coefficients do not count for the order. -/
def stripZeros (f : List α) : List α := (f.reverse.dropWhile (fun x => decide (x = 0))).reverse

/-- Laurent window of half-width `n`: the coefficient of delay `i ∈ [-n, n]` is stored at
    position `i + n`; zero outside (`Poly.__getitem__` returns the zero for an absent power). -/
def lget (n : Nat) (w : List α) (i : Int) : α :=
  if -(n : Int) ≤ i ∧ i ≤ (n : Int) then w.getD (i + (n : Int)).toNat 0 else 0

/-- tabulate a window -/
def wtab (n : Nat) (g : Int → α) : List α :=
  (List.range (2 * n + 1)).map (fun (j : Nat) => g ((j : Int) - (n : Int)))

/-- the causal coefficient list `f` placed in the window -/
def wOfList (n : Nat) (f : List α) : List α :=
  wtab n (fun i => if 0 ≤ i then f.getD i.toNat 0 else 0)

/-- One pass of the loop body for counter `m`: the yielded `k`, and the next filter
    (`none` = `ZeroDivisionError` → `ParCorError`). -/
def pstep (n : Nat) (d : α) (w : List α) (m : Nat) : α × Option (List α) :=
  let k := lget n w m
  let den := 1 - k * k
  if den = 0 then (k, none)
  else
    let inv := 1 / den
    let w1 := wtab n (fun i => (lget n w i - k * lget n w ((m : Int) - i)) * inv)
    let c := lget n w1 0
    let w2 := wtab n (fun i => if i = 0 then c + (-c) * d + d else lget n w1 i)
    (k, some w2)

/-- `for m in xrange(order, 0, -1)`: yielded coefficients, and whether `ParCorError` ended it -/
def ploop (n : Nat) (d : α) : Nat → List α → List α × Bool
  | 0, _ => ([], false)
  | m + 1, w =>
    match pstep n d w (m + 1) with
    | (k, none) => ([k], true)
    | (k, some w') => let r := ploop n d m w'; (k :: r.1, r.2)

/-- numerator after `fir_filt /= den[0]` (only when `den[0] != 1`) -/
def normDen (d : α) (num : List α) : List α :=
  if d = 1 then num else num.map (fun x => x * (1 / d))

/-- `list(parcor(ZFilter(num, [d])))` as coded: (yields, raised ParCorError) -/
def parcorCoded (d : α) (num : List α) : List α × Bool :=
  let f := normDen d (stripZeros num)
  let n := f.length - 1
  ploop n d n (wOfList n f)

/-- with the `len(den) != 1` test; `none` = ValueError("Filter has feedback") -/
def parcorCodedE (den num : List α) : Option (List α × Bool) :=
  match stripZeros den with
  | [d] => some (parcorCoded d num)
  | _ => none

section Order
variable [LT α] [DecidableLT α]

/-- `abs(k) < 1` -/
def absLt1 (k : α) : Bool := decide ((if k < 0 then -k else k) < 1)

/-- `all(abs(k) < 1 for k in <generator>)` inside `try … except ParCorError: return False`.
    The generator is resumed only after the test of the yielded `k` passed. -/
def stableLoop (n : Nat) (d : α) : Nat → List α → Bool
  | 0, _ => true
  | m + 1, w =>
    match pstep n d w (m + 1) with
    | (k, next) =>
      if absLt1 k then
        match next with
        | none => false              -- ParCorError caught
        | some w' => stableLoop n d m w'
      else false                     -- `all` stops, generator abandoned

/-- `parcor_stable(filt)` as coded: `parcor(ZFilter(filt.denpoly))` — the new filter's
    denominator is the constant 1, whatever `filt.denpoly[0]` is. -/
def parcorStableCoded (den : List α) : Bool :=
  let f := normDen (1 : α) (stripZeros den)
  let n := f.length - 1
  stableLoop n 1 n (wOfList n f)

end Order

/-! ### the same loop with the proposed repair of D3
    (`proposed_fixes/D3-parcor-normalise.diff`): the numerator is made monic first,
    the constant denominator is dropped. -/

/-- numerator after the repaired normalisation (`fir_filt = ZFilter(numpoly) / numpoly[0]`
    when `numpoly[0] != 1`) -/
def normLead (num : List α) : List α :=
  let g := num.headD 0
  if g = 1 then num else num.map (fun x => x * (1 / g))

def parcorFixed (num : List α) : List α × Bool :=
  let f := normLead (stripZeros num)
  let n := f.length - 1
  ploop n 1 n (wOfList n f)

def parcorStableFixed [LT α] [DecidableLT α] (den : List α) : Bool :=
  let f := normLead (stripZeros den)
  let n := f.length - 1
  stableLoop n 1 n (wOfList n f)

/-! ### `levinson_durbin(acdata, order)` as coded -/

/-- `Stream(acdata).append(0).take(order + 1)` when `order >= len(acdata)` -/
def extendAc (r : List α) (order : Nat) : List α :=
  if order ≥ r.length then r ++ List.replicate (order + 1 - r.length) 0 else r

def lsum (l : List α) : α := l.foldl (· + ·) 0

/-- `inner(a, b) = sum(acdata[abs(i-j)] * ai * bj for i, ai in enumerate(a) for j, bj in enumerate(b))` -/
def inner (r : List α) (a b : List α) : α :=
  lsum ((List.range a.length).flatMap fun i =>
    (List.range b.length).map fun j =>
      r.getD (if i ≤ j then j - i else i - j) 0 * a.getD i 0 * b.getD j 0)

/-- `z ** -m` as a coefficient list -/
def delay (m : Nat) : List α := List.replicate m 0 ++ [1]

structure LevState (α : Type) where
  a : List α            -- A, `m` coefficients before step `m`
  ks : List α           -- reflection coefficients found so far (k_1 first)

/-- one step `m` (= `a.length`): `B = A(1/z) * z**-m`; `A -= inner(A, z**-m) / inner(B, B) * B`;
    `none` = ZeroDivisionError → ParCorError -/
def levStep (r : List α) (s : LevState α) : Option (LevState α) :=
  let m := s.a.length
  let b := (0 : α) :: s.a.reverse
  let bb := inner r b b
  if bb = 0 then none
  else
    let q := inner r s.a (delay m) / bb
    some ⟨List.zipWith (fun x y => x - q * y) (s.a ++ [0]) b, s.ks ++ [-q]⟩

def levLoop (r : List α) : Nat → LevState α → Option (LevState α)
  | 0, s => some s
  | n + 1, s => match levStep r s with
    | none => none
    | some s' => levLoop r n s'

/-- result of `levinson_durbin`: numerator list of A (all `order + 1` coefficients), `A.error`,
    and the reflection coefficients of the recursion; `none` = ParCorError -/
def levinson (r : List α) (order : Nat) : Option (List α × α × List α) :=
  let rr := extendAc r order
  match levLoop rr order ⟨[1], []⟩ with
  | none => none
  | some s => some (s.a, inner rr s.a s.a, s.ks)

end ALV.C11
