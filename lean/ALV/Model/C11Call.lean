/-
  C11 — the CALL of `parcor` / `parcor_stable` on any `ZFilter(num, den)` a caller can write with
  numbers: numerator and denominator are Laurent polynomials in z^-1 given as a dense coefficient
  list plus the power (delay) of its first entry (negative = advance, `z ** 1`); entries may be zero
  (`Poly` drops them).  Mathlib-free; executable.

  Code read (`lazy_filters.py` `LinearFilter.__init__`, `lazy_lpc.py` `parcor`, `parcor_stable`):

    ZFilter(num, den)       power = min(key of denpoly)            # ValueError (min of an empty
                            numpoly, denpoly *= x ** -power         #   sequence) when den == 0
    parcor(f)               den = f.denominator                     # list of powers 0..order
                            if len(den) != 1: ValueError("Filter has feedback")
                            f = ZFilter(f.numpoly)                  # a constant denominator is dropped
                            gain = f.numpoly[0]                     # Poly zero when absent
                            if gain != 1: f /= gain                 # 1 / 0 → ZeroDivisionError
                            len(f.numerator)                        # ValueError("Non-causal filter")
                            … the loop of `parcorFixed`             #   when a negative power is left
    parcor_stable(f)        parcor(ZFilter(f.denpoly)) — the numerator of `f` is never read; the
                            shifted denominator is causal with a non-zero coefficient at power 0.
-/
import ALV.Model.C11
set_option linter.unusedVariables false
namespace ALV.C11
variable {α : Type} [Add α] [Mul α] [Sub α] [Neg α] [Div α] [OfNat α 0] [OfNat α 1]
  [DecidableEq α]

inductive CallRes (α : Type) where
  | valueError                       -- "Filter has feedback" / "Non-causal filter" / empty denominator
  | zeroDiv                          -- no term at power 0: `fir_filt /= 0.`
  | ok (ks : List α) (raised : Bool) -- yields, ParCorError
deriving DecidableEq, Repr

/-- number of leading zero entries -/
def leadZeros (l : List α) : Nat := (l.takeWhile (fun x => decide (x = 0))).length

/-- the denominator after `LinearFilter.__init__`: from its lowest non-zero power on (that power
    becomes 0), trailing zeros dropped; `[]` = the zero polynomial (construction raises) -/
def shiftedDen (den : List α) : List α := stripZeros (den.drop (leadZeros den))

/-- the coefficients at powers 0, 1, … of a Laurent list whose first entry sits at power `lo` -/
def causalPart (lo : Int) (l : List α) : List α :=
  if 0 ≤ lo then List.replicate lo.toNat 0 ++ l else l.drop (-lo).toNat

/-- some non-zero coefficient at a negative power -/
def hasAdvance (lo : Int) (l : List α) : Bool :=
  (l.take (-lo).toNat).any (fun x => !decide (x = 0))

/-- `list(parcor(ZFilter(num, den)))`, `num[i]` at power `numLo + i`, `den[i]` at power `denLo + i` -/
def parcorCall (numLo : Int) (num : List α) (denLo : Int) (den : List α) : CallRes α :=
  match shiftedDen den with
  | [] => .valueError
  | [_] =>
    let lo := numLo - (denLo + (leadZeros den : Int))      -- the constructor's shift
    let f := causalPart lo num
    if f.headD 0 = 0 then .zeroDiv
    else if hasAdvance lo num then .valueError
    else let r := parcorFixed f; .ok r.1 r.2
  | _ => .valueError

/-- `parcor_stable(ZFilter(num, den))`; `none` = the construction raised -/
def stableCall [LT α] [DecidableLT α] (numLo : Int) (num : List α) (denLo : Int) (den : List α) :
    Option Bool :=
  match shiftedDen den with
  | [] => none
  | d => some (parcorStableFixed d)

end ALV.C11
