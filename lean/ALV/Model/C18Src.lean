/-
  C18 — TARGET VOCABULARY of the source translator `harness/props/c18_tr.py` (core Lean only).

  The translator reads `audiolazy/lazy_wav.py` and `audiolazy/lazy_io.py` with `ast` and writes
  `ALV/Gen/C18Src.lean` in the words defined here and in `Model/C18.lean` / `Model/C18Call.lean`:

  Python                                              | here
  ----------------------------------------------------+--------------------------------------------
  `lambda v: <int expression over v>`                 | `IExp` (deep: a program value), `IExp.run`
     `v`, `b"\x00"`, `x + y` (bytes)                   |   `BExp.v`, `.lit`, `.cat`
     `ord(x)`, `Struct("<h").unpack(x)[0]`, `e >> k`,  |   `IExp.ord`, `.unpack0 .lt .h x`, `.shr e k`,
     `e - k`                                           |   `.sub e k`
  `{8: …, 16: …}` / `table[key]`                      | `List (Nat × IExp)` sorted by key / `lookupNat`
  `1 << n` (Python int), `x / d` (true division)      | `1 <<< n` on `Nat`, `trueDiv`
  `w.readframes(n)` until `b""`                       | `readLoop n fs data` (`fs` = bytes per frame)
  `str(size) + dfmt`, `byte_order + dfmt`             | `List SPart` (format string as its parts)
  `struct.Struct(s)`, `s.pack(*block)`                | `mkStruct`, `StructStr.pack` (item count checked)
  `byte_order is None`                                | `OrderArg.isNone`

  The hand-written model stays what the theorems of the slice are about; `Props/C18.lean` proves that
  every regenerated definition IS the corresponding model function (`src_*_is_model`).
-/
import ALV.Model.C18Call
namespace ALV.C18

/-! ### programs of the `_unpackers` table (deep) -/

/-- a bytes expression over the lambda's argument `v` -/
inductive BExp
  | v
  | lit (bs : List Nat)
  | cat (a b : BExp)
  deriving DecidableEq, Repr

/-- an int expression over the lambda's argument `v` -/
inductive IExp
  | ord (b : BExp)                                   -- `ord(b)`
  | unpack0 (pfx : OrderArg) (fmt : Fmt) (b : BExp)  -- `Struct(pfx + fmt).unpack(b)[0]`
  | shr (e : IExp) (k : Nat)                         -- `e >> k`
  | sub (e : IExp) (k : Int)                         -- `e - k`
  deriving DecidableEq, Repr

def BExp.eval (v : Bytes) : BExp → Bytes
  | .v => v
  | .lit bs => bs.map UInt8.ofNat
  | .cat a b => a.eval v ++ b.eval v

/-- the value of the lambda on the byte string `v`.  A struct format outside the vocabulary (no explicit
byte order, a float format) is refused by the translator; here it is given the value `struct.error`. -/
def IExp.run : IExp → Bytes → Except WavErr Int
  | .ord b, v => unpack8 (b.eval v)
  | .unpack0 pfx fmt b, v =>
    match pfx.order, fmt.intSpec with
    | some o, some (true, w) => ofOpt (unpackInt w o (b.eval v))
    | some o, some (false, w) => ofOpt (unpackUInt w o (b.eval v))
    | _, _ => .error .structLen
  | .shr e k, v => (e.run v).map fun (n : Int) => n >>> k
  | .sub e k, v => (e.run v).map fun (n : Int) => n - k

/-- `table[key]` on a dict literal written as its (key, value) pairs -/
def lookupNat {β : Type} (key : Nat) : List (Nat × β) → Option β
  | [] => none
  | (k, x) :: rest => if key = k then some x else lookupNat key rest

/-- the `_unpackers` table of the model, as programs: what `unpacker` computes (theorem
`unpacker_eq_table`) -/
def unpackersModel : List (Nat × IExp) :=
  [(8, .ord .v),
   (16, .unpack0 .lt .h .v),
   (24, .shr (.unpack0 .lt .i (.cat (.lit [0]) .v)) 8),
   (32, .unpack0 .lt .i .v)]

/-- `unpacker = lambda v: ord(v) - 128` of the normalising branch, as a program -/
def unpacker8Model : IExp := .sub (.ord .v) 128

/-! ### arithmetic of `data_generator` -/

section norm
variable {K : Type} [IntCast K] [Div K]

/-- Python `n / d` (true division of ints) with `d` a non-negative int -/
def trueDiv (n : Int) (d : Nat) : K := (n : K) / ((d : Int) : K)

end norm

/-! ### the reader loop -/

/-- `while True: el = w.readframes(n); if not el: break; yield el` over a data chunk with `fs` bytes per
frame: the chunks of `n` frames, a truncated file giving a short last one -/
def readLoop (n fs : Nat) (data : Bytes) : List Bytes := blockReader (n * fs) data

/-! ### struct format strings as their parts -/

/-- one piece of a format string built by `+` -/
inductive SPart
  | pfx (a : OrderArg)     -- the `byte_order` argument
  | count (n : Nat)        -- `str(size)`
  | fmt (c : Fmt)          -- the `dfmt` argument
  deriving DecidableEq, Repr

/-- a struct format `[prefix] [count] char` -/
structure StructStr where
  pfx : OrderArg
  count : Nat
  fmt : Fmt
  deriving DecidableEq, Repr

/-- `struct.Struct(string)`: the only strings of the vocabulary are `count char` and `prefix count char`
(`none` = `struct.error: bad char in struct format`) -/
def mkStruct : List SPart → Option StructStr
  | [.count n, .fmt c] => some ⟨.omitted, n, c⟩
  | [.pfx a, .count n, .fmt c] => some ⟨a, n, c⟩
  | _ => none

/-- `byte_order is None` (omitted = the default `None`) -/
def OrderArg.isNone : OrderArg → Bool
  | .omitted | .none => true
  | _ => false

/-- an error of the element encoder inside the wider error type of `StructStr.pack` -/
def liftErr {β ε : Type} : Except ε β → Except (Option ε) β
  | .ok b => .ok b
  | .error e => .error (some e)

/-- `s.pack(*items)`: `none` as the error = `struct.error: pack expected count items`; otherwise the items are
packed from left to right by the element encoder of the format, in the order the prefix asks for -/
def StructStr.pack (native : Order) (s : StructStr) (items : List PVal) : Except (Option PackErr) Bytes :=
  if items.length = s.count then
    liftErr (packBlock (encOrder (resolveOrder native s.pfx.order) (leElem true s.fmt)) items)
  else .error none

/-- `s.pack` for a `Struct` that may not exist -/
def packWith (native : Order) (s : Option StructStr) (items : List PVal) : Except (Option PackErr) Bytes :=
  match s with
  | some s => s.pack native items
  | none => .error none

/-- a generator of the hand-written model seen with the wider error type of `StructStr.pack` -/
def Gen.someErr {β ε : Type} (g : Gen β ε) : Gen β (Option ε) := ⟨g.out, g.err.map some⟩

/-! ### the byte-order table of `chunks.array` -/

/-- `{"<": "little", ">": "big", "!": "big"}.get(byte_order, sys.byteorder)` on a table given as pairs -/
def orderGet (tbl : List (OrderArg × Order)) (native : Order) (a : OrderArg) : Order :=
  match tbl with
  | [] => native
  | (k, o) :: rest => if a = k then o else orderGet rest native a

/-- the table of the model (`OrderArg.order`) -/
def orderTableModel : List (OrderArg × Order) := [(.lt, .little), (.gt, .big), (.bang, .big)]

/-! ### the working array of `chunks.array` (a mutable `array.array` of fixed size = a cell list with `set`) -/

section arr
variable {α ε σ β : Type}

/-- item encoder of `array.array(dfmt, …)` / `chunk[idx] = v`: the machine representation of the item, with the
conversion rules of the array module (`leElem false`) -/
def arrEnc (native : Order) (dfmt : Fmt) : PVal → Except PackErr Bytes := encOrder native (leElem false dfmt)

/-- `array.array(dfmt, [v] * n)` -/
def arrNew (enc : α → Except ε Bytes) (v : α) (n : Nat) : Except ε (List Bytes) := (enc v).map (List.replicate n)

/-- `chunk[idx] = v` (a failed conversion leaves the array as it was and raises) -/
def arrSet (enc : α → Except ε Bytes) (chunk : List Bytes) (idx : Nat) (v : α) : Except ε (List Bytes) :=
  (enc v).map (chunk.set idx)

/-- `array.array(dfmt, chunk)` for an array `chunk` of the same type code: a copy, no conversion -/
def arrCopy (chunk : List Bytes) : List Bytes := chunk

/-- `a.byteswap()` -/
def arrByteswap (chunk : List Bytes) : List Bytes := chunk.map List.reverse

/-- `tobytes(a)` -/
def arrTobytes (chunk : List Bytes) : Bytes := chunk.flatten

/-- the values yielded during one pass of a loop body, before what the rest of the generator yields -/
def Gen.prepend (ys : List β) (g : Gen β ε) : Gen β ε := ⟨ys ++ g.out, g.err⟩

/-- `for i in xrange(lo, lo + n): s = body(i, s)` where the body may raise -/
def forRange (body : Nat → σ → Except ε σ) : Nat → Nat → σ → Except ε σ
  | 0, _, s => .ok s
  | n + 1, i, s =>
    match body i s with
    | .error e => .error e
    | .ok s => forRange body n (i + 1) s

/-- `for x in xs: <body>` inside a generator, followed by `fin`: the body maps the loop state to the new state and
the values it yields, or raises (only bodies that raise before their first yield are in the vocabulary) -/
def forGen (body : σ → α → Except ε (σ × List β)) (fin : σ → Gen β ε) : σ → List α → Gen β ε
  | s, [] => fin s
  | s, x :: xs =>
    match body s x with
    | .error e => ⟨[], some e⟩
    | .ok r => (forGen body fin r.1 xs).prepend r.2

end arr

end ALV.C18
