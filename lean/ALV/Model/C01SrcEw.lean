/-
  C01 — a PROGRAM TYPE for the body of `lazy_misc.elementwise` (decorator level + the `wrapper`), and its
  interpreter into the vocabulary of the hand-written model (`ECall`, `BOut`, `Iter.mapc true`, `kwSplit`, …).

  Translator `harness/props/c01_tr.py` reads the function with `ast`, executes the straight-line part
  symbolically (locals `positional`, `arg`, `data`, `type_arg`, `is_numpy` are substituted) and writes the
  decision tree of its `return`s as the value `ALV.Gen.C01.elementwise : EwProg`.
  `Props/C01.lean` proves `src_elementwise_is_model : EwProg.run Gen.C01.elementwise c = some (elementwise c)`.

  `none` = the program leaves the model (an exception other than the `KeyError` of `kwargs[name]`, a value
  the model has no name for).  Core Lean only.
-/
import ALV.Model.C01
namespace ALV.C01.Src
open ALV.C01

inductive EwTest where
  | nameIsEmpty                 -- `name == ""`
  | posIsNone                   -- `pos is None`
  | posLtLenArgs                -- `pos < len(args)`            (TypeError when `pos` is None)
  | positional                  -- the local `positional`
  | argIsIterable               -- `isinstance(arg, Iterable)`
  | argIsStr                    -- `isinstance(arg, STR_TYPES)`
  | argIsSomeGen                -- `isinstance(arg, SOME_GEN_TYPES)`
  | typeArgIsStream             -- `issubclass(type(arg), Stream)`
  | isNumpy                     -- the local `is_numpy` (`type(arg).__module__ == "numpy"`, False on AttributeError)
  | not (t : EwTest)
  | and (a b : EwTest)          -- short circuit
  deriving DecidableEq, Repr

/-- how one call of `func` gets its arguments; `x` = the element -/
inductive EwCallArgs where
  | splice                      -- `*(args[:pos] + (x,) + args[pos+1:]), **kwargs`
  | kwChain                     -- `*args, **dict(it.chain(iteritems(kwargs), [(name, x)]))`
  | plain                       -- `*args, **kwargs`
  deriving DecidableEq, Repr

inductive EwExpr where
  | genOver (a : EwCallArgs)            -- `(func(a) for x in arg)`
  | cond (t : EwTest) (a b : EwExpr)    -- a local assigned in both branches of `if t: … else: …`
  | streamOf (e : EwExpr)               -- `Stream(e)`
  | typeArgOf (e : EwExpr)              -- `type(arg)(e)`
  | npOfList (e : EwExpr)               -- `np_type(list(e))`
  | callFunc (a : EwCallArgs)           -- `func(a)`
  deriving DecidableEq, Repr

/-- where `arg` is taken from -/
inductive EwLookup where
  | argsAtPos                           -- `args[pos]`
  | kwargsAtName                        -- `kwargs[name]`
  | cond (t : EwTest) (a b : EwLookup)  -- `a if t else b`
  deriving DecidableEq, Repr

/-- the `if … return …` structure of the wrapper -/
inductive EwTree where
  | ret (e : EwExpr)
  | ite (t : EwTest) (a b : EwTree)
  deriving DecidableEq, Repr

structure EwProg where
  /-- decorator level: `if T: pos = N` -/
  defaultPos : Option (EwTest × Nat)
  /-- `positional = T` -/
  positional : EwTest
  /-- `arg = L` -/
  arg : EwLookup
  body : EwTree
  deriving DecidableEq, Repr

/-- the names of the wrapper while it runs -/
structure EwEnv where
  c : ECall
  pos : Option Nat            -- the closure variable `pos` (after the decorator-level default)
  positional : Option Bool    -- `none`: not assigned yet

def evalEwTest (env : EwEnv) : EwTest → Option Bool
  | .nameIsEmpty => some (env.c.dname == [])
  | .posIsNone => some env.pos.isNone
  | .posLtLenArgs => env.pos.map fun p => decide (p < env.c.args.length)
  | .positional => env.positional
  | .argIsIterable => some env.c.arg.kind.isIterable
  | .argIsStr => some env.c.arg.kind.isStr
  | .argIsSomeGen => some env.c.arg.kind.isSomeGen
  | .typeArgIsStream => some env.c.arg.kind.isStream
  | .isNumpy => some false                              -- no `CKind` is a numpy class
  | .not t => (evalEwTest env t).map (!·)
  | .and a b =>
    match evalEwTest env a with
    | some true => evalEwTest env b
    | r => r

/-- the generator expression over `arg`, arguments spliced in by position -/
def dataSplice (c : ECall) (p : Nat) : Iter :=
  .mapc true c.f (c.args.take p) (c.args.drop (p + 1) ++ kwFlat c.kwargs) c.arg.iter

/-- the generator expression over `arg`, the element handed over by keyword -/
def dataKw (c : ECall) : Iter :=
  let s := kwSplit c.dname c.kwargs
  .mapc true c.f (c.args ++ s.1) s.2 c.arg.iter

/-- `func(*args, **kwargs)`: the slot of `arg` (found by position or by keyword) holds the object itself -/
def plainAt (c : ECall) (positional : Bool) (p : Nat) : Term :=
  if positional then .app c.f (c.args.take p ++ c.arg.self :: (c.args.drop (p + 1) ++ kwFlat c.kwargs))
  else
    let s := kwSplit c.dname c.kwargs
    .app c.f ((c.args ++ s.1) ++ c.arg.self :: s.2)

/-- a value inside the wrapper: the generator expression (not started) or something returned as it is -/
inductive EwV where
  | gen (it : Iter)
  | out (b : BOut)

def evalEwExpr (env : EwEnv) : EwExpr → Option EwV
  | .genOver .splice => env.pos.map fun p => .gen (dataSplice env.c p)
  | .genOver .kwChain => some (.gen (dataKw env.c))
  | .genOver .plain => none
  | .cond t a b =>
    match evalEwTest env t with
    | some true => evalEwExpr env a
    | some false => evalEwExpr env b
    | none => none
  | .streamOf e =>
    match evalEwExpr env e with
    | some (.gen it) => some (.out (.stream it))
    | _ => none
  | .typeArgOf e =>
    match evalEwExpr env e with
    | some (.gen it) =>
      let r := it.runS env.c.arg.drainFuel            -- `type_arg(data)` reads `data` to its end
      some (.out (.cast env.c.arg.kind r.1 r.2))
    | _ => none
  | .npOfList _ => none
  | .callFunc .plain => env.positional.map fun b => .out (.value (plainAt env.c b (env.pos.getD 0)))
  | .callFunc _ => none

inductive Found where
  | found | keyError | outside

def evalEwLookup (env : EwEnv) : EwLookup → Found
  | .argsAtPos =>
    match env.pos with
    | some p => if p < env.c.args.length then .found else .outside      -- IndexError
    | none => .outside                                                  -- `args[None]`
  | .kwargsAtName => if env.c.kwargs.any (fun kv => kv.1 == env.c.dname) then .found else .keyError
  | .cond t a b =>
    match evalEwTest env t with
    | some true => evalEwLookup env a
    | some false => evalEwLookup env b
    | none => .outside

def evalEwTree (env : EwEnv) : EwTree → Option BOut
  | .ret e =>
    match evalEwExpr env e with
    | some (.gen it) => some (.gen it)
    | some (.out b) => some b
    | none => none
  | .ite t a b =>
    match evalEwTest env t with
    | some true => evalEwTree env a
    | some false => evalEwTree env b
    | none => none

/-- `elementwise(dname, dpos)(f)(*args, **kwargs)` -/
def EwProg.run (P : EwProg) (c : ECall) : Option BOut :=
  let pos : Option (Option Nat) :=
    match P.defaultPos with
    | none => some c.dpos
    | some (t, n) => (evalEwTest ⟨c, c.dpos, none⟩ t).map fun b => if b then some n else c.dpos
  match pos with
  | none => none
  | some pos =>
    match evalEwTest ⟨c, pos, none⟩ P.positional with
    | none => none
    | some positional =>
      let env : EwEnv := ⟨c, pos, some positional⟩
      match evalEwLookup env P.arg with
      | .outside => none
      | .keyError => some .keyError
      | .found => evalEwTree env P.body

end ALV.C01.Src
