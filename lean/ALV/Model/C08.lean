/-
  C08 — model of `audiolazy.lazy_misc.blocks` and `zero_pad` (code shaped).
  Mathlib-free; executable.

  `blocks(seq, size, hop, padval)`:
    res = deque(maxlen=size); idx = 0; last_idx = size-1; reinit_idx = size-hop
    loop A (hop <= size): res.append(el); if idx == last_idx: yield res; idx = reinit_idx  else idx += 1
    loop B (hop >  size): if idx < 0: idx += 1 else (same as loop A)
    tail: if idx > max(size-hop, 0): for _ in range(idx,size): res.append(padval); yield res
  One `bstep` serves both loops: for `hop ≤ size` the index never becomes
  negative, so the `idx < 0` branch is dead (`Lemmas.C08.bstep_inv`).
-/
namespace ALV.C08
variable {α : Type}

/-- `collections.deque(maxlen=size).append` -/
def dqPush (size : Nat) (res : List α) (x : α) : List α :=
  let r := res ++ [x]
  r.drop (r.length - size)

structure BState (α : Type) where
  res : List α
  idx : Int

/-- One iteration of either loop of `blocks`. -/
def bstep (size hop : Nat) (s : BState α) (x : α) : BState α × Option (List α) :=
  if s.idx < 0 then (⟨s.res, s.idx + 1⟩, none)
  else
    let res := dqPush size s.res x
    if s.idx = (size : Int) - 1 then (⟨res, (size : Int) - hop⟩, some res)
    else (⟨res, s.idx + 1⟩, none)

def bloop (size hop : Nat) : BState α → List α → List (List α) × BState α
  | s, [] => ([], s)
  | s, x :: xs =>
    let r := bstep size hop s x
    let t := bloop size hop r.1 xs
    (r.2.toList ++ t.1, t.2)

/-- padding at the end: `for _ in xrange(idx, size): res.append(padval)` -/
def padTo (size : Nat) (pad : α) (res : List α) : Nat → List α
  | 0 => res
  | n + 1 => padTo size pad (dqPush size res pad) n

def btail (size hop : Nat) (pad : α) (s : BState α) : List (List α) :=
  if s.idx > max ((size : Int) - hop) 0 then [padTo size pad s.res (size - s.idx.toNat)] else []

def blocks (size hop : Nat) (pad : α) (xs : List α) : List (List α) :=
  let t := bloop size hop ⟨[], 0⟩ xs
  t.1 ++ btail size hop pad t.2

/-- Number of source items consumed when each block is yielded (for the lazy
    contract, C02): the j-th entry is the count of items read so far when the
    j-th block comes out; the padded tail block needs the end of the source. -/
def bloopReads (size hop : Nat) : BState α → Nat → List α → List Nat
  | _, _, [] => []
  | s, n, x :: xs =>
    let r := bstep size hop s x
    (match r.2 with | some _ => [n + 1] | none => []) ++ bloopReads size hop r.1 (n + 1) xs

/-- `zero_pad(seq, left, right, zero)` -/
def zeroPad (left right : Nat) (zero : α) (xs : List α) : List α :=
  List.replicate left zero ++ xs ++ List.replicate right zero

end ALV.C08
