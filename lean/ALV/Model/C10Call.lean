/-
  C10 — the CALL LAYER of `levinson_durbin(acdata, order=None)`, `acorr(blk, max_lag=None)`,
  `lag_matrix(blk, max_lag=None)`, `lpc.kautocor(blk, order=None)`, `lpc.kcovar(blk, order=None)`,
  `lpc(blk, order=None)` (the StrategyDict: default strategy, strategy names and aliases).
  Mathlib-free; executable.

  `ALV.C10.levinson r (order : Option Nat)` (Model/C10.lean) is the function body for an order that is
  `None` or a natural number.  A Python call can spell the second argument in more ways; what the
  code does with each spelling is part of its behaviour:

    omitted / `None`      the documented default (`len − 1`)
    an `int` (or `bool`)  possibly NEGATIVE: `xrange(1, order + 1)` / `xrange(max_lag + 1)` are empty
    a non-int number      (float `2.0`, `Fraction(2)`): every numeric comparison (`order >= len(acdata)`,
                          `max_lag >= len(blk)`, `order < 100`) works on the value, every integer
                          context (`xrange`, `Stream.take`) raises TypeError

  lpc (lazy_lpc.py:139-340) is a StrategyDict; `lpc(blk, order)` is its default strategy `autocor`:
      if order < 100: return lpc.nautocor(blk, order)          # numpy
      try: return lpc.kautocor(blk, order)
      except ParCorError: return lpc.nautocor(blk, order)      # numpy
  The numpy strategies (`nautocor`, `covar`) are a PARAMETER `np` of the model (their bodies need
  numpy; where numpy is absent their first statement `from numpy import matrix` raises
  ModuleNotFoundError: `noNumpy`).
-/
import ALV.Model.C10
namespace ALV.C10
variable {α : Type} [Add α] [Mul α] [Sub α] [Neg α] [Div α] [OfNat α 0] [OfNat α 1]

/-- how the `order` / `max_lag` argument is spelled at a call -/
inductive OrdArg where
  /-- the parameter is left out (positional call with one argument) -/
  | omitted
  /-- `order=None` written out -/
  | none
  /-- an `int`; a `bool` is the int 0 / 1 -/
  | int (i : Int)
  /-- a number that is not an `int`, of value `q`: a float (`isFloat`) or a Fraction -/
  | real (q : Rat) (isFloat : Bool)
  deriving DecidableEq, Repr

/-- the order / max_lag the body works with, for the spellings on which it works -/
def OrdArg.toOption : OrdArg → Option Nat
  | .omitted | .none => Option.none
  | .int i => some i.toNat
  | .real _ _ => Option.none

/-- `acorr(blk, max_lag)`: `xrange(max_lag + 1)` is empty for a negative int and raises TypeError
    for a non-int -/
def acorrCall (blk : List α) : OrdArg → Except String (List α)
  | .omitted | .none => .ok (acorr blk Option.none)
  | .int i => if i < 0 then .ok [] else .ok (acorr blk (some i.toNat))
  | .real _ _ => .error "TypeError"

/-- `lag_matrix(blk, max_lag)`: the test `max_lag >= len(blk)` comes first and works on any number;
    a negative int passes it and gives the empty table -/
def lagMatrixCall (blk : List α) : OrdArg → Except String (List (List α))
  | .omitted | .none => lagMatrix blk Option.none
  | .int i => if i < 0 then .ok [] else lagMatrix blk (some i.toNat)
  | .real q _ => if (blk.length : Rat) ≤ q then .error "ValueError" else .error "TypeError"

section filters
variable [DecidableEq α]

/-- `levinson_durbin(acdata, order)`: a negative int runs no pass (`A = 1`, `error = acdata[0]`,
    IndexError on an empty list); a non-int below `len(acdata)` raises TypeError in `xrange`; from
    `len(acdata)` on, `Stream.take(order + 1)` comes first: it ROUNDS a float (then `xrange` raises
    TypeError) and hands a Fraction to `itertools.islice` (ValueError) -/
def levinsonCall (r : List α) : OrdArg → Except String (List α × α)
  | .omitted | .none => levinson r Option.none
  | .int i =>
    if i < 0 then (if r.length = 0 then .error "IndexError" else .ok ([1], inner r [1] [1]))
    else levinson r (some i.toNat)
  | .real q fl => if (r.length : Rat) ≤ q ∧ fl = false then .error "ValueError" else .error "TypeError"

/-- `lpc.kautocor(blk, order)` = `levinson_durbin(acorr(blk, order), order)` -/
def kautocorCall (blk : List α) (o : OrdArg) : Except String (List α × α) := do
  let r ← acorrCall blk o
  levinsonCall r o

/-- `lpc.kcovar(blk, order)` with the exit test passed as a predicate -/
def kcovarCallWith (unstable : α → Bool) (blk : List α) (o : OrdArg) : Except String (List α × α) := do
  let phi ← lagMatrixCall blk o
  kcovarOn phi unstable

/-- `lpc.kcovar(blk, order)` -/
def kcovarCall [LE α] [DecidableRel (α := α) (· ≤ ·)] (blk : List α) (o : OrdArg) :
    Except String (List α × α) :=
  kcovarCallWith (fun k => decide ((1 : α) ≤ k) || decide (k ≤ -1)) blk o

/-- `lpc.kcovar` on samples without an order (complex): the division `… / beta[0]` comes first
    (ZeroDivisionError), then `k >= 1` raises TypeError — it never returns -/
def kcovarCallNoOrder (blk : List α) (o : OrdArg) : Except String (List α × α) := do
  let phi ← lagMatrixCall blk o
  match kcovarOn phi (fun _ => true) with
  | .error e => if e = "ValueError" then .error "TypeError" else .error e
  | .ok x => .ok x

/-! ### the StrategyDict `lpc` -/

inductive Strat where
  | autocor | nautocor | kautocor | covar | kcovar
  deriving DecidableEq, Repr

/-- the names given in the `@lpc.strategy(…)` decorators, in source order (the first strategy is the
    default one) -/
def strategyNames : List (Strat × List String) :=
  [(.autocor, ["autocor", "acorr", "autocorrelation", "auto_correlation"]),
   (.nautocor, ["nautocor", "nacorr", "nautocorrelation", "nauto_correlation"]),
   (.kautocor, ["kautocor", "kacorr", "kautocorrelation", "kauto_correlation"]),
   (.covar, ["covar", "cov", "covariance", "ncovar", "ncov", "ncovariance"]),
   (.kcovar, ["kcovar", "kcov", "kcovariance"])]

/-- `lpc[name]` / `lpc.name`: which strategy a name selects (`none`: KeyError / AttributeError) -/
def strategyOf (name : String) : Option Strat :=
  (strategyNames.find? fun p => p.2.contains name).map (·.1)

def Strat.name : Strat → String
  | .autocor => "autocor" | .nautocor => "nautocor" | .kautocor => "kautocor"
  | .covar => "covar" | .kcovar => "kcovar"

/-- `lpc.default`: the first strategy registered -/
def defaultStrategy : Strat := (strategyNames.head?.map (·.1)).getD .autocor

/-- numpy is absent: `from numpy import matrix` (first statement of `nautocor` / `covar`) raises -/
def noNumpy : Strat → List α → OrdArg → Except String (List α × α) :=
  fun _ _ _ => .error "ModuleNotFoundError"

/-- `order < 100` of the default strategy: TypeError for `None` (Python 3), numeric otherwise -/
def below100 : OrdArg → Except String Bool
  | .omitted | .none => .error "TypeError"
  | .int i => .ok (decide (i < 100))
  | .real q _ => .ok (decide (q < 100))

/-- `lpc.autocor(blk, order)`, the default strategy -/
def lpcAutocor (np : Strat → List α → OrdArg → Except String (List α × α)) (blk : List α) (o : OrdArg) :
    Except String (List α × α) := do
  if (← below100 o) then np .nautocor blk o
  else
    match kautocorCall blk o with
    | .error e => if e = "ParCorError" then np .nautocor blk o else .error e
    | .ok x => .ok x

/-- a call of one strategy of `lpc` -/
def lpcCall [LE α] [DecidableRel (α := α) (· ≤ ·)]
    (np : Strat → List α → OrdArg → Except String (List α × α)) (s : Strat) (blk : List α) (o : OrdArg) :
    Except String (List α × α) :=
  match s with
  | .autocor => lpcAutocor np blk o
  | .nautocor => np .nautocor blk o
  | .kautocor => kautocorCall blk o
  | .covar => np .covar blk o
  | .kcovar => kcovarCall blk o

end filters
end ALV.C10
