/-
  C03 — element operations and sources that RAISE in the middle of a stream, and the caller goes on
  reading (code shaped; Mathlib-free; executable).

  `next(it)` has three outcomes: an item, StopIteration, or another exception.  What each wrapper of
  `lazy_stream.Stream` does with an exception coming from below (or from its own element function) is
  what CPython's iterator types do:

  * the builtin `map` / `filter` objects, `itertools.chain`, `itertools.tee` pass it on and GO ON with the
    next item at the following `next()`;
  * `itertools.islice` (`limit`, and the temporary one inside `take(n)`) clears its iterator: it is
    exhausted afterwards (the temporary one of `take` is dropped anyway — `self._data` goes on);
  * a generator (`skipper` of `skip`) is finished by any exception passing through it
    (`Stream.__getattr__` / `__call__` build a `map` object since /repo ff92505: they go on);
  * an `itertools.tee` buffer only stores items: an exception is delivered once, to the copy that reaches
    it first; the other copies go straight to the next item.

  `take(n)` that hits an exception raises it; the items it had already pulled are lost, the Stream goes
  on after the raising position.  `peek` does the same on a copy: the Stream itself loses nothing but the
  raising position (the tee has moved past it).
-/
import ALV.Model.C03
namespace ALV.C03
variable {α : Type}

/-- an event of a sequence: an item, or the exception raised instead of it -/
abbrev Ev (α : Type) := Except String α

inductive Res (α : Type) where
  | stop | item (v : α) | raise (e : String)
  deriving Repr, DecidableEq

inductive XIt (α : Type) where
  /-- an iterator that yields the items and raises at the marked positions, then goes on -/
  | src (es : List (Ev α))
  | map (f : α → Ev α) (it : XIt α)
  | filter (p : α → Ev Bool) (it : XIt α)
  | chain (a b : XIt α)
  /-- `it.islice(data, n)` -/
  | islice (n : Nat) (it : XIt α)
  /-- the `skipper` generator with `n` items still to throw away -/
  | skipper (n : Nat) (it : XIt α)
  | tee (hub : Nat) (pos : Nat)

structure XHub (α : Type) where
  parent : XIt α
  buf : List α

abbrev XHeap (α : Type) := List (XHub α)

/-- a finished iterator -/
def XIt.done : XIt α := .src []

def xnext : Nat → XHeap α → XIt α → Option (XHeap α × XIt α × Res α)
  | 0, _, _ => none
  | _ + 1, h, .src [] => some (h, .src [], .stop)
  | _ + 1, h, .src (.ok v :: r) => some (h, .src r, .item v)
  | _ + 1, h, .src (.error e :: r) => some (h, .src r, .raise e)
  | f + 1, h, .map g it =>
    match xnext f h it with
    | none => none
    | some (h', it', .stop) => some (h', .map g it', .stop)
    | some (h', it', .raise e) => some (h', .map g it', .raise e)
    | some (h', it', .item v) =>
      match g v with
      | .ok w => some (h', .map g it', .item w)
      | .error e => some (h', .map g it', .raise e)
  | f + 1, h, .filter p it =>
    match xnext f h it with
    | none => none
    | some (h', it', .stop) => some (h', .filter p it', .stop)
    | some (h', it', .raise e) => some (h', .filter p it', .raise e)
    | some (h', it', .item v) =>
      match p v with
      | .error e => some (h', .filter p it', .raise e)
      | .ok true => some (h', .filter p it', .item v)
      | .ok false => xnext f h' (.filter p it')
  | f + 1, h, .chain a b =>
    match xnext f h a with
    | none => none
    | some (h', a', .item v) => some (h', .chain a' b, .item v)
    | some (h', a', .raise e) => some (h', .chain a' b, .raise e)
    | some (h', _, .stop) => xnext f h' b
  | _ + 1, h, .islice 0 _ => some (h, .done, .stop)
  | f + 1, h, .islice (n + 1) it =>
    match xnext f h it with
    | none => none
    | some (h', _, .stop) => some (h', .done, .stop)
    | some (h', _, .raise e) => some (h', .done, .raise e)          -- islice clears its iterator
    | some (h', it', .item v) => some (h', .islice n it', .item v)
  | f + 1, h, .skipper 0 it =>
    match xnext f h it with
    | none => none
    | some (h', _, .stop) => some (h', .done, .stop)
    | some (h', _, .raise e) => some (h', .done, .raise e)          -- the generator is finished
    | some (h', it', .item v) => some (h', .skipper 0 it', .item v)
  | f + 1, h, .skipper (n + 1) it =>
    match xnext f h it with
    | none => none
    | some (h', _, .stop) => some (h', .done, .stop)
    | some (h', _, .raise e) => some (h', .done, .raise e)
    | some (h', it', .item _) => xnext f h' (.skipper n it')
  | f + 1, h, .tee k pos =>
    match h[k]? with
    | none => some (h, .tee k pos, .stop)
    | some hub =>
      if pos < hub.buf.length then
        match hub.buf[pos]? with
        | some v => some (h, .tee k (pos + 1), .item v)
        | none => some (h, .tee k pos, .stop)
      else
        match xnext f h hub.parent with
        | none => none
        | some (h', p', .stop) => some (h'.set k ⟨p', hub.buf⟩, .tee k pos, .stop)
        | some (h', p', .raise e) => some (h'.set k ⟨p', hub.buf⟩, .tee k pos, .raise e)   -- not stored
        | some (h', p', .item v) => some (h'.set k ⟨p', hub.buf ++ [v]⟩, .tee k (pos + 1), .item v)

/-- `list(it.islice(data, n))`: the items, or the exception that ended it (the items pulled are lost) -/
def xtakeN (f : Nat) : Nat → XHeap α → XIt α → Option (XHeap α × XIt α × Except String (List α))
  | 0, h, it => some (h, it, .ok [])
  | n + 1, h, it =>
    match xnext f h it with
    | none => none
    | some (h', it', .stop) => some (h', it', .ok [])
    | some (h', it', .raise e) => some (h', it', .error e)
    | some (h', it', .item v) =>
      match xtakeN f n h' it' with
      | none => none
      | some (h'', it'', .ok vs) => some (h'', it'', .ok (v :: vs))
      | some (h'', it'', .error e) => some (h'', it'', .error e)

/-- `list(data)` -/
def xdrain (f : Nat) : Nat → XHeap α → XIt α → Option (XHeap α × XIt α × Except String (List α))
  | 0, _, _ => none
  | g + 1, h, it =>
    match xnext f h it with
    | none => none
    | some (h', it', .stop) => some (h', it', .ok [])
    | some (h', it', .raise e) => some (h', it', .error e)
    | some (h', it', .item v) =>
      match xdrain f g h' it' with
      | none => none
      | some (h'', it'', .ok vs) => some (h'', it'', .ok (v :: vs))
      | some (h'', it'', .error e) => some (h'', it'', .error e)

def obsOf : Except String (List α) → Obs α
  | .ok vs => .items vs
  | .error e => .err e

/-- `Stream.take` on an iterator -/
def xtakeIt (f : Nat) (h : XHeap α) (it : XIt α) (c : Cnt) : Option (XHeap α × XIt α × Obs α) :=
  match takeMode c with
  | .one =>
    match xnext f h it with
    | none => none
    | some (h', it', .stop) => some (h', it', .err "StopIteration")
    | some (h', it', .raise e) => some (h', it', .err e)
    | some (h', it', .item v) => some (h', it', .item v)
  | .all => (xdrain f f h it).map fun (h', it', r) => (h', it', obsOf r)
  | .n k => (xtakeN f k h it).map fun (h', it', r) => (h', it', obsOf r)

structure XSt (α : Type) where
  heap : XHeap α
  pool : List (Option (XIt α))        -- `none`: moved into another Stream

inductive XOp (α : Type) where
  | new (es : List (Ev α))             -- `Stream(iterator that raises at the marked positions)`
  | take (i : Nat) (c : Cnt)
  | peek (i : Nat) (c : Cnt)
  | skip (i : Nat) (n : Nat)
  | limit (i : Nat) (n : Nat)
  | append (i : Nat) (es : List (Ev α))
  | map (i : Nat) (f : α → Ev α)
  | filter (i : Nat) (p : α → Ev Bool)
  | copy (i : Nat)
  | next (i : Nat)
  | drain (i : Nat)
  /-- `s.name` / `s.name()` / `s(args)`: a NEW Stream over `map(g, s._data)` (`s` shares it: dead for us) -/
  | attr (i : Nat) (g : α → Ev α)
  /-- `s.__next__`: "Streams are iterable, not iterators" — AttributeError, nothing is read -/
  | nextAttr (i : Nat)
  /-- `s.skip(n)` with a count that `int(round(n))` refuses (inf, nan, None, …): the call returns `self`; the
      `skipper` generator evaluates `int(round(n))` at its first `next`, raises there and is finished — it
      never touches `s._data` -/
  | skipBad (i : Nat) (e : String)

/-- `s.skip(n)` as written, any count: `int(round(n))` is evaluated lazily, inside the generator -/
def xskipOf (i : Nat) (c : Cnt) : XOp α :=
  match roundCount c with
  | .ok n => .skip i n
  | .error e => .skipBad i e

def xteeOf (h : XHeap α) (parent : XIt α) : XHeap α × XIt α :=
  (h ++ [⟨parent, []⟩], .tee h.length 0)

def xstep (f : Nat) (st : XSt α) : XOp α → Option (XSt α × Obs α)
  | .new es => some (⟨st.heap, st.pool ++ [some (.src es)]⟩, .new st.pool.length)
  | .take i c =>
    match st.pool[i]? with
    | some (some it) => (xtakeIt f st.heap it c).map fun (h', it', o) => (⟨h', st.pool.set i (some it')⟩, o)
    | _ => some (st, .err "noobj")
  | .peek i c =>
    match st.pool[i]? with
    | some (some it) =>
      let (h1, t) := xteeOf st.heap it
      (xtakeIt f h1 t c).map fun (h', _, o) => (⟨h', st.pool.set i (some t)⟩, o)
    | _ => some (st, .err "noobj")
  | .skip i n =>
    match st.pool[i]? with
    | some (some it) => some (⟨st.heap, st.pool.set i (some (.skipper n it))⟩, .unit)
    | _ => some (st, .err "noobj")
  | .limit i n =>
    match st.pool[i]? with
    | some (some it) => some (⟨st.heap, st.pool.set i (some (.islice n it))⟩, .unit)
    | _ => some (st, .err "noobj")
  | .append i es =>
    match st.pool[i]? with
    | some (some it) => some (⟨st.heap, st.pool.set i (some (.chain it (.src es)))⟩, .unit)
    | _ => some (st, .err "noobj")
  | .map i g =>
    match st.pool[i]? with
    | some (some it) => some (⟨st.heap, st.pool.set i (some (.map g it))⟩, .unit)
    | _ => some (st, .err "noobj")
  | .filter i p =>
    match st.pool[i]? with
    | some (some it) => some (⟨st.heap, st.pool.set i (some (.filter p it))⟩, .unit)
    | _ => some (st, .err "noobj")
  | .copy i =>
    match st.pool[i]? with
    | some (some it) =>
      let (h1, t) := xteeOf st.heap it
      some (⟨h1, st.pool.set i (some t) ++ [some t]⟩, .new st.pool.length)
    | _ => some (st, .err "noobj")
  | .next i =>
    match st.pool[i]? with
    | some (some it) => (xtakeIt f st.heap it .none).map fun (h', it', o) => (⟨h', st.pool.set i (some it')⟩, o)
    | _ => some (st, .err "noobj")
  | .drain i =>
    match st.pool[i]? with
    | some (some it) => (xtakeIt f st.heap it .inf).map fun (h', it', o) => (⟨h', st.pool.set i (some it')⟩, o)
    | _ => some (st, .err "noobj")
  | .attr i g =>
    match st.pool[i]? with
    | some (some it) => some (⟨st.heap, st.pool.set i none ++ [some (.map g it)]⟩, .new st.pool.length)
    | _ => some (st, .err "noobj")

  | .nextAttr i =>
    match st.pool[i]? with
    | some (some _) => some (st, .err "AttributeError")
    | _ => some (st, .err "noobj")
  | .skipBad i e =>
    match st.pool[i]? with
    | some (some _) => some (⟨st.heap, st.pool.set i (some (.src [.error e]))⟩, .unit)
    | _ => some (st, .err "noobj")

def xrun (f : Nat) : XSt α → List (XOp α) → List (Option (Obs α))
  | _, [] => []
  | st, op :: ops =>
    match xstep f st op with
    | none => [none]
    | some (st', o) => some o :: xrun f st' ops

def XSt.empty : XSt α := ⟨[], []⟩

end ALV.C03
