/-
  C17 — recording streams (`AudioIO.record`, `RecStream`, the recordings part of `AudioIO.close`),
  code shaped, as a machine over histories of calls of the control thread:

      r = io.record(chunk_size=cs)   r.take(n)   r.stop()   io.close()

  A `RecStream` is a generator

      while self._recording:
        for k in s.unpack(file_obj.read(chunk_size)): yield k
      finally: file_obj.close(); self._recording = False; device_manager.recording_finished(self)

  so a read of the device happens lazily, at the `next()` that finds the last chunk used up; after
  `stop()` the samples of the chunk read last are still handed out, then the generator ends, closes
  its device stream and leaves `AudioIO._recordings`.  `close()` stops and drains (`take(inf)`) the
  recordings from the last one on, then terminates the backend.

  Mathlib-free; executable.
-/
namespace ALV.C17Rec

/-- what the device delivers: the `k`-th read of `n` frames on input stream `i` (the harness feeds
    the fake backend the same numbers) -/
def devChunk (i k n : Nat) : List Int :=
  (List.range n).map fun j => ((1000 * (i + 1) + k * n + j : Nat) : Int)

/-- one `RecStream` -/
structure Rec where
  cs : Nat                -- `chunk_size` (frames = samples per read; one channel)
  recording : Bool        -- `_recording`
  buf : List Int          -- samples of the chunk read last that were not handed out yet
  reads : Nat             -- reads of the device issued so far
  out : List Int          -- every sample handed out so far, in order
  done : Bool             -- the generator has finished (its `finally` clause ran)
  closes : Nat            -- calls of `file_obj.close()` on its device stream
  deriving Repr, DecidableEq, Inhabited

inductive RCmd where
  | record (cs : Nat)          -- `io.record(chunk_size=cs)`
  | take (i n : Nat)           -- `r_i.take(n)`
  | stop (i : Nat)             -- `r_i.stop()`
  | close                      -- `io.close()`
  deriving Repr, DecidableEq, Inhabited

inductive REv where
  | recordOk (i : Nat)
  | recordRefused              -- `pa.open` after `terminate`: the backend raises
  | took (xs : List Int)
  | stopOk
  | skipped                    -- handle of a stream that was never created
  | closeOk
  deriving Repr, DecidableEq, Inhabited

structure RState where
  recs : List Rec              -- every RecStream ever created
  recordings : List Nat        -- `AudioIO._recordings`
  finished : Bool              -- `AudioIO.finished`
  terminated : Nat             -- calls of `pa.terminate()`
  log : List REv
  deriving Repr, DecidableEq, Inhabited

def init : RState := { recs := [], recordings := [], finished := false, terminated := 0, log := [] }

/-- one `next()` on stream `i`: an item, or the end of the generator (`finally`) -/
def nextItem (i : Nat) (r : Rec) : Option Int × Rec :=
  if r.done then (none, r) else
  match r.buf with
  | x :: b => (some x, { r with buf := b, out := r.out ++ [x] })
  | [] =>
    if r.recording then
      match devChunk i r.reads r.cs with
      | x :: b => (some x, { r with reads := r.reads + 1, buf := b, out := r.out ++ [x] })
      | [] => (none, r)          -- chunk_size = 0 (excluded: the real loop would never end)
    else (none, { r with done := true, closes := r.closes + 1, recording := false })

/-- `Stream.take(n)`: up to `n` items -/
def takeN (i : Nat) : Nat → Rec → List Int × Rec
  | 0, r => ([], r)
  | n + 1, r =>
    match nextItem i r with
    | (some x, r') => (x :: (takeN i n r').1, (takeN i n r').2)
    | (none, r') => ([], r')

/-- `take` on stream `i` of the manager: a stream that finishes leaves `_recordings` -/
def takeOn (s : RState) (i n : Nat) : List Int × RState :=
  match s.recs[i]? with
  | none => ([], s)
  | some r =>
    ((takeN i n r).1,
     { s with recs := s.recs.set i (takeN i n r).2,
              recordings := if (takeN i n r).2.done && !r.done then s.recordings.erase i
                            else s.recordings })

def stopOn (s : RState) (i : Nat) : RState :=
  match s.recs[i]? with
  | none => s
  | some r => { s with recs := s.recs.set i { r with recording := false } }

/-- `recst.take(inf)` after `recst.stop()`: what is left of the last chunk, then the end -/
def drain (s : RState) (i : Nat) : RState :=
  match s.recs[i]? with
  | none => s
  | some r => (takeOn s i (r.buf.length + 1)).2

/-- `while self._recordings: recst = self._recordings[-1]; recst.stop(); recst.take(inf)` -/
def closeLoop : Nat → RState → RState
  | 0, s => s
  | f + 1, s =>
    match s.recordings.getLast? with
    | none => s
    | some i => closeLoop f (drain (stopOn s i) i)

def stepCmd (s : RState) : RCmd → RState
  | .record cs =>
    if s.terminated > 0 then { s with log := s.log ++ [.recordRefused] }
    else
      let r : Rec := { cs := cs, recording := true, buf := [], reads := 0, out := [], done := false, closes := 0 }
      { s with recs := s.recs ++ [r], recordings := s.recordings ++ [s.recs.length],
               log := s.log ++ [.recordOk s.recs.length] }
  | .take i n =>
    if i < s.recs.length then
      { (takeOn s i n).2 with log := (takeOn s i n).2.log ++ [.took (takeOn s i n).1] }
    else { s with log := s.log ++ [.skipped] }
  | .stop i =>
    if i < s.recs.length then { stopOn s i with log := s.log ++ [.stopOk] }
    else { s with log := s.log ++ [.skipped] }
  | .close =>
    if s.finished then { s with log := s.log ++ [.closeOk] }
    else
      let s1 := closeLoop s.recordings.length { s with finished := true }
      { s1 with terminated := s1.terminated + 1, log := s1.log ++ [.closeOk] }

def run (s : RState) : List RCmd → RState
  | [] => s
  | c :: cs => run (stepCmd s c) cs

/-- every sample the device has delivered to stream `i` so far -/
def devData (i cs reads : Nat) : List Int := (List.range reads).flatMap fun k => devChunk i k cs

end ALV.C17Rec
