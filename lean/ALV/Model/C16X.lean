/-
  C16 — the Streamix machine WITH EXCEPTIONS (lazy_stream.py:684-746), generator level.
  Mathlib-free; executable.  This is the machine the driver runs for the entry `streamix_x`.

  What `ALV.Model.C16Gen` leaves out and this file adds:

  * `add(delta, data)` evaluates, in this order,
        if delta < 0: raise ValueError
        self._not_playing.append((delta, iter(data)))     # the tuple is built first: iter(data) may raise
    so an `add` whose `iter(data)` raises (data not iterable: TypeError; a StreamTeeHub with no
    copies left: IndexError; a user `__iter__` that raises anything) has touched nothing:
    `XOp.addFail delta e`.  A negative delta wins over the bad data (the test comes first).
  * `data += next(snd)` may raise in two ways: `next(snd)` itself raises something that is not
    StopIteration (an item `.error e` of the event: the event's iterator — a generator — is
    finished afterwards), or the addition raises (`XAdd.xadd data item = .error e`, e.g.
    `0 + (1,)`, `None + 1`: TypeError; the item is consumed).  The exception leaves the
    `for snd in self._playing` loop and the generator: the generator is FINISHED (every later
    `next` raises StopIteration), the events before the culprit have given one item, the events
    after it have not been asked, nothing was removed from `_playing` (the `to_remove` pass was
    not reached), the events started in this step have left `_not_playing`.

  The state is the `PState` of `ALV.Model.C16Gen` over the items `Except ε α` (`.ok a`: the
  iterator returns `a`; `.error e`: it raises `e`).  `ALV.Lemmas.C16X` proves that this machine
  shows what the exception-free machine `prun` shows over the item type `Except ε α` with the
  absorbing lifted `+` (`liftAdd`) on the history without the failed adds, up to the first
  raising read, after which the mixer is dead.
-/
import ALV.Model.C16Gen
namespace ALV.C16
variable {ε α : Type}

/-- a `+` that returns or raises -/
class XAdd (ε α : Type) where
  xadd : α → α → Except ε α

/-- the lifted, total `+` on `Except ε α`: the first exception wins (`next(snd)` is evaluated
    before the addition; once an exception is out nothing else is evaluated) -/
instance liftAdd [XAdd ε α] : Add (Except ε α) where
  add
    | .ok a, .ok b => XAdd.xadd a b
    | .ok _, .error e => .error e
    | .error e, _ => .error e

/-- one operation of a history on a Streamix, failing calls included -/
inductive XOp (ε α : Type) where
  | add (delta : Rat) (data : List (Except ε α))   -- smix.add(delta, data), iter(data) works
  | addFail (delta : Rat) (e : ε)                  -- smix.add(delta, data), iter(data) raises e
  | next                                           -- next(iter(smix))
  | setKeep (b : Bool)                             -- smix.keep = b

/-- what the caller of one operation sees -/
inductive XObs (ε α : Type) where
  | ok
  | valueError
  | out (v : α) (started : Nat)
  | stop
  | raised (e : ε)                                 -- the call raised e (not ValueError / StopIteration of the mixer)
  deriving DecidableEq

/-- `for snd in self._playing: try: data += next(snd) except StopIteration: to_remove.append(snd)`
    with exceptions.  `.ok (sum, _playing with one item taken from each, to_remove)`, or
    `.error (e, _playing as the exception leaves it)`. -/
def xsumLoop [XAdd ε α] : α → List (Snd (Except ε α)) →
    Except (ε × List (Snd (Except ε α))) (α × List (Snd (Except ε α)) × List Nat)
  | data, [] => .ok (data, [], [])
  | data, snd :: ps =>
    match snd.rest with
    | [] =>                                        -- StopIteration: to_remove.append(snd)
      match xsumLoop data ps with
      | .ok r => .ok (r.1, snd :: r.2.1, snd.id :: r.2.2)
      | .error (e, pl) => .error (e, snd :: pl)
    | .error e :: _ => .error (e, ⟨snd.id, []⟩ :: ps)          -- next(snd) raised e: that generator is finished
    | .ok x :: xs =>
      match XAdd.xadd data x with
      | .error e => .error (e, ⟨snd.id, xs⟩ :: ps)              -- the item is consumed, `data += item` raised
      | .ok d =>
        match xsumLoop d ps with
        | .ok r => .ok (r.1, ⟨snd.id, xs⟩ :: r.2.1, r.2.2)
        | .error (e, pl) => .error (e, ⟨snd.id, xs⟩ :: pl)

/-- `Streamix.add` whose `iter(data)` works -/
def xadd (s : PState (Except ε α)) (delta : Rat) (data : List (Except ε α)) :
    PState (Except ε α) × XObs ε α :=
  if delta < 0 then (s, .valueError)
  else ({ s with notPlaying := s.notPlaying ++ [(delta, ⟨s.fresh, data⟩)], fresh := s.fresh + 1 }, .ok)

/-- `Streamix.add` whose `iter(data)` raises `e`: the test of delta comes first, nothing is stored -/
def xaddFail (s : PState (Except ε α)) (delta : Rat) (e : ε) : PState (Except ε α) × XObs ε α :=
  if delta < 0 then (s, .valueError) else (s, .raised e)

/-- one `next` on the generator -/
def xnext [XAdd ε α] (zero : α) (s : PState (Except ε α)) : PState (Except ε α) × XObs ε α :=
  if s.ended then (s, .stop)
  else
    let count := if s.suspended then s.count + 1 else s.count
    let r := pstartLoop count s.notPlaying s.playing
    match xsumLoop zero r.2.2 with
    | .error (e, pl) =>      -- the exception goes through the generator: it is finished
      ({ s with count := r.1, notPlaying := r.2.1, playing := pl, suspended := false, ended := true }, .raised e)
    | .ok sm =>
      let playing := removeAll sm.2.2 sm.2.1
      if s.keep = false ∧ playing.isEmpty = true ∧ r.2.1.isEmpty = true then
        ({ s with count := r.1, notPlaying := r.2.1, playing := playing, suspended := false, ended := true }, .stop)
      else
        ({ s with count := r.1, notPlaying := r.2.1, playing := playing, suspended := true },
         .out sm.1 (s.notPlaying.length - r.2.1.length))

def xstep [XAdd ε α] (zero : α) (s : PState (Except ε α)) : XOp ε α → PState (Except ε α) × XObs ε α
  | .add d x => xadd s d x
  | .addFail d e => xaddFail s d e
  | .next => xnext zero s
  | .setKeep b => ({ s with keep := b }, .ok)

def xrun [XAdd ε α] (zero : α) : PState (Except ε α) → List (XOp ε α) → PState (Except ε α) × List (XObs ε α)
  | s, [] => (s, [])
  | s, op :: ops =>
    let r := xstep zero s op
    let t := xrun zero r.1 ops
    (t.1, r.2 :: t.2)

/-- the states after each operation (for the tie) -/
def xtrace [XAdd ε α] (zero : α) : PState (Except ε α) → List (XOp ε α) → List (PState (Except ε α) × XObs ε α)
  | _, [] => []
  | s, op :: ops =>
    let r := xstep zero s op
    r :: xtrace zero r.1 ops

/-! ### vocabulary of the correspondence with the exception-free machine -/

/-- the history the exception-free machine sees: the failed adds are not there -/
def erase : List (XOp ε α) → List (Op (Except ε α))
  | [] => []
  | .add d x :: ops => .add d x :: erase ops
  | .addFail _ _ :: ops => erase ops
  | .next :: ops => .next :: erase ops
  | .setKeep b :: ops => .setKeep b :: erase ops

/-- what a failed add shows -/
def failObs (d : Rat) (e : ε) : XObs ε α := if d < 0 then .valueError else .raised e

/-- what an operation shows on a mixer whose generator is finished -/
def deadObs : XOp ε α → XObs ε α
  | .add d _ => if d < 0 then .valueError else .ok
  | .addFail d e => failObs d e
  | .next => .stop
  | .setKeep _ => .ok

/-- an observation of the exception-free machine over `Except ε α`, as the caller of the real
    object sees it: a sum that is `.error e` is the exception `e` -/
def conv : Obs (Except ε α) → XObs ε α
  | .ok => .ok
  | .valueError => .valueError
  | .stop => .stop
  | .out (.ok v) k => .out v k
  | .out (.error e) _ => .raised e

/-- the observations of a history with failures, read off the observations `os` the
    exception-free machine shows on `erase ops`: failed adds show their exception and use up no
    observation; the first sample that is an exception is raised, and from then on the mixer is dead -/
def xview : List (XOp ε α) → List (Obs (Except ε α)) → List (XObs ε α)
  | [], _ => []
  | op :: ops, os =>
    match op with
    | .addFail d e => failObs d e :: xview ops os
    | _ =>
      match os with
      | [] => []
      | o :: os' =>
        match o with
        | .out (.error e) _ => .raised e :: ops.map deadObs
        | _ => conv o :: xview ops os'

/-- cumulative time of the adds that SUCCEEDED -/
def xAcceptedTime : List (XOp ε α) → Rat
  | [] => 0
  | .add d _ :: ops => (if d < 0 then 0 else d) + xAcceptedTime ops
  | _ :: ops => xAcceptedTime ops

end ALV.C16
