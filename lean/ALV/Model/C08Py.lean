/-
  C08 — the semantics of the small Python subset that the translator `harness/props/c08_tr.py`
  assumes (hand written, TRUSTED; core Lean only).  The generated file `ALV/Gen/C08Src.lean` is
  written in this vocabulary and in the types of `Model/C08Call`:

    `for el in seq: <body handing out at most one value>`   `Py.forEv`   (observed source: each value
                                                            with the number of items pulled so far)
    `max(a, b)`                                             `Py.max2`    (`b` if `b > a` else `a`)
    `for _ in xrange(lo, hi): <body>`                       `Py.forRange` (`lo` must still be a Python
                                                            int, else TypeError; `hi - lo` turns, none
                                                            when negative)
    the generator consumed to its end                       `Py.genRun`  (source fails: its exception
                                                            passes through; source stops: the tail runs)
    `res = deque(maxlen=size)` ... `res.append(x)`          `dqPush maxlen res x` (Model/C08)
    `None` test on a parameter                              `= Num.none`
  and `<=`, `-` on the non-finite index type `XRat` (IEEE rules).
-/
import ALV.Model.C08Call
namespace ALV.C08

/-! ### `-` and `<=` on `XRat` -/

def XRat.neg : XRat → XRat
  | .fin q => .fin (-q)
  | .pinf => .ninf
  | .ninf => .pinf
  | .nan => .nan

def XRat.leb : XRat → XRat → Bool
  | .fin a, .fin b => decide (a ≤ b)
  | .ninf, .fin _ => true
  | .ninf, .pinf => true
  | .fin _, .pinf => true
  | .pinf, .pinf => true
  | .ninf, .ninf => true
  | _, _ => false

instance : Sub XRat := ⟨fun a b => XRat.add a (XRat.neg b)⟩
instance : LE XRat := ⟨fun a b => XRat.leb a b = true⟩
instance : DecidableRel (fun a b : XRat => a ≤ b) := fun a b => inferInstanceAs (Decidable (XRat.leb a b = true))

/-- the float a non-finite `hop` is -/
def XRat.ofNonFin : NonFin → XRat
  | .pinf => .pinf
  | .ninf => .ninf
  | .nan => .nan

namespace Py
variable {α β S ι : Type}

/-- `for el in seq: body`, the body handing out at most one value per turn -/
def forEv (step : S → α → S × Option β) : S → Nat → List α → List (Nat × β) × S
  | s, _, [] => ([], s)
  | s, n, x :: xs =>
    let r := step s x
    let t := forEv step r.1 (n + 1) xs
    ((r.2.toList.map fun b => (n + 1, b)) ++ t.1, t.2)

/-- builtin `max(a, b)`: the first argument unless the second is greater -/
def max2 [LT ι] [DecidableRel (fun a b : ι => a < b)] (a b : ι) : ι := if a < b then b else a

/-- a loop body run `n` times -/
def times (f : S → S) : Nat → S → S
  | 0, s => s
  | n + 1, s => times f n (f s)

/-- `for _ in xrange(lo, hi): body`; `none` = TypeError (`lo` is not a Python int any more) -/
def forRange (loInt : Bool) (lo hi : Nat) (f : S → S) (s : S) : Option S :=
  if loInt then some (times f (hi - lo) s) else none

/-- the generator consumed to its end by a source that delivers `xs` and then ends with `e` -/
def genRun (t : List (Nat × List α) × S) (tail : S → GTail α) (xs : List α) (e : Ending) : CallRun α :=
  match e with
  | .fail => ⟨t.1, .srcFail, xs.length⟩
  | .stop =>
    match tail t.2 with
    | .nothing => ⟨t.1, .stop, xs.length⟩
    | .block b => ⟨t.1 ++ [(xs.length, b)], .stop, xs.length⟩
    | .refuse => ⟨t.1, .err .typeError, xs.length⟩

/-- a default value as written in a signature -/
inductive Dflt where
  | none
  | int (i : Int)
  | flt (num : Int) (den : Nat)
  deriving DecidableEq, Repr

end Py
end ALV.C08
