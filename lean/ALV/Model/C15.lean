/-
  C15 — model of `audiolazy.lazy_core.MultiKeyDict` and `StrategyDict` (code shaped).
  Mathlib-free; executable.  Polymorphic in the key type `K` and the value type `V`
  (any types with decidable equality); the driver instantiates `K := String`, `V := Int`.

  A Python `dict` is an insertion-ordered association list (`Dict`): `d[k] = v` overwrites in
  place when `k` is present and appends otherwise, `del d[k]` raises `KeyError` when absent.

  `MultiKeyDict` keeps three dicts:
     `_keys_dict : key -> key tuple`, `_inv_dict : value -> key tuple`,
     the `dict` storage itself `key tuple -> value`.
  Python exceptions predicted by the model: `none` = `KeyError` for the MultiKeyDict
  operations, `Except Err` (`KeyError` / `AttributeError`) for the StrategyDict ones.  A
  `KeyError` / `AttributeError` leaves the model state unchanged; in the real code the only
  statement that can raise one of them in a coherent state is the first one of each method, before
  any mutation.

  Operands that cannot be hashed (a `list` / `dict` / `set`, an object without `__hash__`, an
  object whose `__hash__` raises) are *rejected*: result `Res.rejected` (`TypeError`, or whatever
  the operand's own `__hash__` raises).  They are separate constructors of `Op` / `SOp`, so that
  `K` and `V` stay the types of the hashable keys and values.  Since the repairs 9cbe718 / 735182a
  both `__setitem__` methods hash their operands in their first statements, so every rejected
  operation leaves the state untouched.  The code BEFORE the repairs failed half-way; its model is
  kept (`setitemBadKey`, `sdSetRefused`, not part of `step` / `sdStep`) together with the theorems
  that say what it did, because a regression to it is the typical way to break this property.

  What the caller writes (`Call` / `SCall`): every operation with a key argument of any shape —
  a single key or a tuple of any length whose items are hashable keys, unhashable objects and (for
  `StrategyDict`) hashable non-strings, at every position — is classified by `Call.toOp` /
  `SCall.toOp` into the operations of a history, following the first statements of the methods.
-/
namespace ALV.C15

/-! ## Python `dict` -/

abbrev Dict (A B : Type) := List (A × B)

section Dict
variable {A B : Type} [DecidableEq A]

/-- `d.get(k)`; `none` where `d[k]` raises `KeyError` -/
def dget : Dict A B → A → Option B
  | [], _ => none
  | (a, b) :: r, k => if a = k then some b else dget r k

/-- `k in d` -/
def dhas (d : Dict A B) (k : A) : Bool := (dget d k).isSome

/-- `d[k] = v`: overwrite in place when present, append when new -/
def dset : Dict A B → A → B → Dict A B
  | [], k, v => [(k, v)]
  | (a, b) :: r, k, v => if a = k then (a, v) :: r else (a, b) :: dset r k v

/-- remove every entry of key `k` (a Python dict has at most one) -/
def derase (d : Dict A B) (k : A) : Dict A B := d.filter (fun e => e.1 ≠ k)

/-- `del d[k]`; `none` = `KeyError` -/
def ddel (d : Dict A B) (k : A) : Option (Dict A B) :=
  if dhas d k then some (derase d k) else none

end Dict

/-! ## MultiKeyDict -/

structure St (K V : Type) where
  /-- `self._keys_dict` -/
  keysDict : Dict K (List K) := []
  /-- `self._inv_dict` -/
  invDict : Dict V (List K) := []
  /-- the `dict` storage (`super().__getitem__` …) -/
  store : Dict (List K) V := []

section MK
variable {K V : Type} [DecidableEq K] [DecidableEq V]

/-- `MultiKeyDict()` -/
def St.empty : St K V := {}

/-- `MultiKeyDict.__getitem__(key)` for a non-tuple key:
    `super().__getitem__(self._keys_dict[key])` -/
def getitem (s : St K V) (key : K) : Option V :=
  match dget s.keysDict key with
  | none => none
  | some kt => dget s.store kt

/-- `MultiKeyDict.__getitem__(key)` for a tuple key: `super().__getitem__(key)` -/
def getTuple (s : St K V) (kt : List K) : Option V := dget s.store kt

/-- `key2keys` : `self._keys_dict[key]` -/
def key2keys (s : St K V) (key : K) : Option (List K) := dget s.keysDict key

/-- `value2keys` : `self._inv_dict.get(value, tuple())` -/
def value2keys (s : St K V) (value : V) : List K := (dget s.invDict value).getD []

/-- `len(d)` : length of the `dict` storage -/
def len (s : St K V) : Nat := s.store.length

/-- `MultiKeyDict.__iter__` : `iter(self._inv_dict)` -/
def iterValues (s : St K V) : List V := s.invDict.map (·.1)

/-- `d.keys()`, `d.values()`, `d.items()` of the `dict` storage -/
def keyTuples (s : St K V) : List (List K) := s.store.map (·.1)
def storeValues (s : St K V) : List V := s.store.map (·.2)

/-- `MultiKeyDict.__delitem__` -/
def delitem (s : St K V) (key : K) : Option (St K V) :=
  match dget s.keysDict key with                     -- key_tuple = self._keys_dict[key]
  | none => none
  | some keyTuple =>
  match getitem s key with                           -- value = self[key]
  | none => none
  | some value =>
    let newKey := keyTuple.filter (fun k => k ≠ key) -- tuple(k for k in key_tuple if k != key)
    -- Remove the old data
    match ddel s.keysDict key, ddel s.invDict value, ddel s.store keyTuple with
    | some kd, some inv, some st =>
      -- Do the assignment (when it makes sense)
      if newKey.length > 0 then
        some { keysDict := newKey.foldl (fun d k => dset d k newKey) kd
               invDict := dset inv value newKey
               store := dset st newKey value }
      else
        some { keysDict := kd, invDict := inv, store := st }
    | _, _, _ => none

/-- "Remove duplicated keys (last insertion has priority)":
    `key_list = []; for k in reversed(key): if k not in key_list: key_list.append(k)`
    `key = tuple(reversed(key_list))` -/
def dedupLastCode (key : List K) : List K :=
  (key.reverse.foldl (fun keyList k => if k ∈ keyList then keyList else keyList ++ [k]) []).reverse

/-- "Remove the overwritten data":
    `for k in key: if k in self._keys_dict: MultiKeyDict.__delitem__(self, k)` -/
def delLoop : St K V → List K → Option (St K V)
  | s, [] => some s
  | s, k :: rest =>
    if dhas s.keysDict k then
      match delitem s k with
      | none => none
      | some s' => delLoop s' rest
    else delLoop s rest

/-- `MultiKeyDict.__setitem__(key, value)`; `keys` is the key already made a tuple
    (`if not isinstance(key, tuple): key = (key,)`) -/
def setitem (s : St K V) (keys : List K) (value : V) : Option (St K V) :=
  -- Finds the full new tuple keys
  let key0 := match dget s.invDict value with
    | some old => old ++ keys
    | none => keys
  let key := dedupLastCode key0
  match delLoop s key with
  | none => none
  | some s1 =>
    -- Do the assignment
    some { keysDict := key.foldl (fun d k => dset d k key) s1.keysDict
           invDict := dset s1.invDict value key
           store := dset s1.store key value }

/-- result of one operation (`keyError` = the call raised `KeyError`, `rejected` = the call raised
    because an operand cannot be hashed: `TypeError`, or the exception of the operand's `__hash__`) -/
inductive Res (K V : Type) where
  | done | keyError | attrError | notImpl
  | val (v : V) | keys (t : List K) | num (n : Nat)
  | rejected
  /-- `True` / `False` (`key in d`) and `None` (`d.get(key)` of a missing key) -/
  | bool (b : Bool) | pyNone
  deriving DecidableEq

/-- `MultiKeyDict.__setitem__(keys, value)` with an UNHASHABLE `value` (`d[k] = []`): the first
    statement that touches the value, `if value in self._inv_dict`, hashes it and raises before
    anything is changed.  (`keys` may contain anything.) -/
def setitemUnhashable (s : St K V) (_keys : List K) : St K V × Res K V := (s, .rejected)

/-! ### before the repair 9cbe718 (no `hash(key)` in front): kept for the regression theorems -/

/-- the keys that `__setitem__` had already deleted when it met the unhashable key `BAD` of the
    key tuple `before ++ (BAD,) ++ after`: the value's old keys are prepended and the tuple is
    de-duplicated (both by `==` on the keys, nothing is hashed yet), then "Remove the overwritten
    data" walks the tuple and hashes key after key (`k in self._keys_dict`) -/
def badKeyPrefix (s : St K V) (before after : List K) (value : V) : List K :=
  let old := match dget s.invDict value with
    | some old => old
    | none => []
  let key : List (Option K) := dedupLastCode ((old ++ before).map some ++ none :: after.map some)
  (key.takeWhile (fun k => k.isSome)).filterMap id

/-- `MultiKeyDict.__setitem__` with a hashable value and a key tuple `before ++ (BAD,) ++ after`
    holding one UNHASHABLE key (`d[("c", [])] = 1`, `d[[]] = 1`) BEFORE the repair: the
    exception came out of the deletion loop, after the keys in front of `BAD` (the value's own old
    keys included) have lost their values -/
def setitemBadKey (s : St K V) (before after : List K) (value : V) : St K V × Res K V :=
  match delLoop s (badKeyPrefix s before after value) with
  | some s1 => (s1, .rejected)
  | none => (s, .keyError)               -- not reachable from a coherent state

/-- operations of a history -/
inductive Op (K V : Type) where
  | set (keys : List K) (value : V)     -- `d[keys] = value` (a single key `k` is `[k]`)
  | del (key : K)                       -- `del d[key]`
  | get (key : K)                       -- `d[key]`
  | getT (keyTuple : List K)            -- `d[key_tuple]`
  | key2keys (key : K)
  | value2keys (value : V)
  | len
  /-- `d[keys] = value`, `value` unhashable -/
  | setUnhashable (keys : List K)
  /-- `d[before ++ (BAD,) ++ after] = value`, `BAD` unhashable, `value` hashable: refused by
      `hash(key)` before anything is changed -/
  | setBadKey (before after : List K) (value : V)
  /-- a lookup or deletion whose operand is unhashable: `d[BAD]`, `del d[BAD]`, `d.key2keys(BAD)`,
      `d.value2keys(BAD)`, `d[(k, BAD)]` — each hashes the operand in its first statement -/
  | badOperand
  /-- an operation whose outcome does not depend on the dict and that changes nothing: a lookup /
      deletion / `key2keys` whose operand is a TUPLE (`del d[("a", "b")]`: keys are never tuples, so
      `self._keys_dict[key]` raises `KeyError`), `"a" in d` and `d.get("a")` with a non-tuple (the
      inherited `dict` methods see the key-TUPLE storage: `False` / `None`) -/
  | const (r : Res K V)
  /-- `key_tuple in d` — `dict.__contains__`, inherited: looks the tuple up in the storage -/
  | contains (keyTuple : List K)
  /-- `d.get(key_tuple)` — `dict.get`, inherited: the stored value or `None` -/
  | dictGet (keyTuple : List K)

def Res.ofVal : Option V → Res K V
  | none => .keyError
  | some v => .val v

/-- `d.get(key)`: the value or `None` -/
def Res.orNone : Option V → Res K V
  | none => .pyNone
  | some v => .val v

def Res.ofKeys : Option (List K) → Res K V
  | none => .keyError
  | some t => .keys t

/-- one step of a history: new state and what the caller sees -/
def step (s : St K V) : Op K V → St K V × Res K V
  | .set keys value => match setitem s keys value with
      | some s' => (s', .done)
      | none => (s, .keyError)
  | .del key => match delitem s key with
      | some s' => (s', .done)
      | none => (s, .keyError)
  | .get key => (s, .ofVal (getitem s key))
  | .getT kt => (s, .ofVal (getTuple s kt))
  | .key2keys key => (s, .ofKeys (key2keys s key))
  | .value2keys value => (s, .keys (value2keys s value))
  | .len => (s, .num (len s))
  | .setUnhashable keys => setitemUnhashable s keys
  -- `hash(key)` is the first statement after the tuple-isation: refused before anything is changed
  | .setBadKey _ _ _ => (s, .rejected)
  | .badOperand => (s, .rejected)
  | .const r => (s, r)
  | .contains kt => (s, .bool (dhas s.store kt))
  | .dictGet kt => (s, Res.orNone (getTuple s kt))

/-- run a history from a state: final state and the results in order -/
def run : St K V → List (Op K V) → St K V × List (Res K V)
  | s, [] => (s, [])
  | s, op :: ops =>
    let r := step s op
    let t := run r.1 ops
    (t.1, r.2 :: t.2)

/-- `MultiKeyDict(mapping)` : `for key, value in iteritems(dict(*args, **kwargs)): self[key] = value` -/
def ofDict (items : List (K × V)) : St K V :=
  (run St.empty (items.map fun e => Op.set [e.1] e.2)).1

/-- `dict(*args, **kwargs)` over a list of pairs (a mapping, an iterable of pairs, keyword
    arguments after them): a key given again keeps its FIRST position and takes the LAST value -/
def dictOf {A B : Type} [DecidableEq A] (pairs : List (A × B)) : Dict A B :=
  pairs.foldl (fun d e => dset d e.1 e.2) []

/-- the assignments the constructor performs -/
def ctorOps (pairs : List (List K × V)) : List (Op K V) := (dictOf pairs).map fun e => Op.set e.1 e.2

/-- `MultiKeyDict(*args, **kwargs)` in general: the arguments are first collapsed by `dict(...)`,
    then assigned one by one; a key of the mapping that is itself a tuple is taken as a KEY TUPLE
    (`MultiKeyDict({("a", "b"): 1, "c": 1})` has one value with three keys), a non-tuple key `k` is
    `[k]` (the tie never mixes `k` and the 1-tuple `(k,)` in one call).  `MultiKeyDict.fromkeys(ks, v)`
    (`dict.fromkeys` on the subclass: `cls()`, then `self[k] = v` for EVERY element, repeated ones
    included — nothing is collapsed) is `ofDict (ks.map fun k => (k, v))`. -/
def ofPairs (pairs : List (List K × V)) : St K V := (run St.empty (ctorOps pairs)).1

/-! ### what the caller writes: key arguments of every shape -/

/-- one item of a key argument: a hashable key, or an object that cannot be hashed (`[]`, `{}`,
    an instance without `__hash__`, an instance whose `__hash__` raises) -/
inductive KeyItem (K : Type) where
  | ok (k : K)
  | unhashable

/-- the key argument of `d[...]`, `d[...] = v`, `del d[...]`, `... in d`, `d.get(...)`,
    `d.key2keys(...)`: a single object or a tuple (of any length, `()` included) -/
inductive KeyArg (K : Type) where
  | single (i : KeyItem K)
  | tuple (is : List (KeyItem K))

/-- all the items when every one of them is hashable (`hash(tuple)` succeeds), else `none` -/
def allOk : List (KeyItem K) → Option (List K)
  | [] => some []
  | .ok k :: r => (allOk r).map (k :: ·)
  | .unhashable :: _ => none

/-- `if not isinstance(key, tuple): key = (key,)` -/
def KeyArg.items : KeyArg K → List (KeyItem K)
  | .single i => [i]
  | .tuple is => is

/-- a call on a `MultiKeyDict`; `value = none` is an unhashable value -/
inductive Call (K V : Type) where
  | setitem (arg : KeyArg K) (value : Option V)
  | getitem (arg : KeyArg K)
  | delitem (arg : KeyArg K)
  | key2keys (arg : KeyArg K)
  | value2keys (value : Option V)
  | contains (arg : KeyArg K)
  | dictGet (arg : KeyArg K)
  | len

/-- which operation of a history a call is, read off the first statements of the methods -/
def Call.toOp : Call K V → Op K V
  -- `__setitem__`: tuple-ise; `hash(key)` refuses an unhashable item at ANY position; then
  -- `value in self._inv_dict` hashes the value; only then is anything changed
  | .setitem arg value =>
    match allOk arg.items, value with
    | some keys, some v => .set keys v
    | some keys, none => .setUnhashable keys
    | none, _ => .badOperand
  -- `__getitem__`: a tuple goes to the storage (`super().__getitem__(key)` hashes the tuple),
  -- anything else through `self._keys_dict[key]`
  | .getitem (.single (.ok k)) => .get k
  | .getitem (.single .unhashable) => .badOperand
  | .getitem (.tuple is) => match allOk is with
    | some t => .getT t
    | none => .badOperand
  -- `__delitem__`, `key2keys`: `self._keys_dict[key]` — a tuple of hashables is a key that is not
  -- there (`KeyError`), an unhashable item anywhere makes the lookup raise `TypeError`
  | .delitem (.single (.ok k)) => .del k
  | .delitem (.single .unhashable) => .badOperand
  | .delitem (.tuple is) => match allOk is with
    | some _ => .const .keyError
    | none => .badOperand
  | .key2keys (.single (.ok k)) => .key2keys k
  | .key2keys (.single .unhashable) => .badOperand
  | .key2keys (.tuple is) => match allOk is with
    | some _ => .const .keyError
    | none => .badOperand
  -- `value2keys`: `self._inv_dict.get(value, tuple())`
  | .value2keys (some v) => .value2keys v
  | .value2keys none => .badOperand
  -- inherited `dict.__contains__` / `dict.get`: they look at the key-TUPLE storage
  | .contains (.single (.ok _)) => .const (.bool false)
  | .contains (.single .unhashable) => .badOperand
  | .contains (.tuple is) => match allOk is with
    | some t => .contains t
    | none => .badOperand
  | .dictGet (.single (.ok _)) => .const .pyNone
  | .dictGet (.single .unhashable) => .badOperand
  | .dictGet (.tuple is) => match allOk is with
    | some t => .dictGet t
    | none => .badOperand
  | .len => .len

def callStep (s : St K V) (c : Call K V) : St K V × Res K V := step s c.toOp

def callRun (s : St K V) (cs : List (Call K V)) : St K V × List (Res K V) := run s (cs.map Call.toOp)

end MK

/-! ## StrategyDict

  `vars(self)` is a `Dict` from attribute names to values; the attribute name `default` is
  `none`, the attribute named like the strategy name `k` is `some k` (strategy names are assumed
  to be strings different from `"default"` and from every method / attribute of the class).
  The class attribute `StrategyDict.default` (a lambda returning `NotImplemented`) is what
  `self.default` yields when the instance has no `default`; it is never equal to a stored value. -/

inductive Err where
  | key    -- KeyError
  | attr   -- AttributeError
  deriving DecidableEq

structure SD (K V : Type) where
  mkd : St K V := {}
  attrs : Dict (Option K) V := []

section SD
variable {K V : Type} [DecidableEq K] [DecidableEq V]

def SD.empty : SD K V := {}

/-- `StrategyDict.__delitem__(key)` (raises only `KeyError`) -/
def sdDelitem (s : SD K V) (key : K) : Option (SD K V) :=
  match key2keys s.mkd key with                       -- keys = self.key2keys(key)
  | none => none
  | some keys =>
  match getTuple s.mkd keys with                      -- value = self[keys]
  | none => none
  | some value =>
  match delitem s.mkd key with                        -- super().__delitem__(key)
  | none => none
  | some mk' =>
    -- if hasattr(self, key) and getattr(self, key) == value: super().__delattr__(key)
    let attrs1 := if dget s.attrs (some key) = some value then derase s.attrs (some key) else s.attrs
    -- if len(keys) == 1 and value == self.default: super().__delattr__("default")
    let attrs2 := if keys.length = 1 ∧ dget attrs1 none = some value then derase attrs1 none else attrs1
    some { mkd := mk', attrs := attrs2 }

/-- `for k in keys: try: del self[k] except KeyError: pass` -/
def sdDelLoop : SD K V → List K → SD K V
  | s, [] => s
  | s, k :: rest =>
    match sdDelitem s k with
    | some s' => sdDelLoop s' rest
    | none => sdDelLoop s rest

/-- `StrategyDict.__setitem__(key, value)`, `keys` = the key made a tuple -/
def sdSetitem (s : SD K V) (keys : List K) (value : V) : Option (SD K V) :=
  let s1 := sdDelLoop s keys
  match setitem s1.mkd keys value with                -- super().__setitem__(keys, value)
  | none => none
  | some mk' =>
    -- for k in keys: setattr(self, k, value)
    let attrs1 := keys.foldl (fun a k => dset a (some k) value) s1.attrs
    -- if "default" not in vars(self): self.default = value
    let attrs2 := if dhas attrs1 none then attrs1 else dset attrs1 none value
    some { mkd := mk', attrs := attrs2 }

/-- `object.__delattr__(self, attr)` -/
def objDelattr (s : SD K V) (attr : Option K) : Except Err (SD K V) :=
  match ddel s.attrs attr with
  | none => .error .attr
  | some a => .ok { s with attrs := a }

/-- `StrategyDict.__delattr__(attr)` -/
def sdDelattr (s : SD K V) (attr : Option K) : Except Err (SD K V) :=
  match attr with
  | none => objDelattr s none                        -- `self["default"]` raises KeyError
  | some k =>
    match getitem s.mkd k with
    | none => objDelattr s attr                      -- except KeyError: del a non-strategy attribute
    | some item =>
      match dget s.attrs attr with                   -- getattr(self, attr)
      | none => .error .attr
      | some a =>
        if item = a then                             -- have both: `del self[attr]` removes both
          match sdDelitem s k with
          | some s' => .ok s'
          | none => objDelattr s attr
        else                                         -- different: put the attribute back
          .ok { s with attrs := dset s.attrs attr item }

def Res.ofExcept (s : SD K V) : Except Err (SD K V) → SD K V × Res K V
  | .ok s' => (s', .done)
  | .error .key => (s, .keyError)
  | .error .attr => (s, .attrError)

/-- `getattr(self, name)` for an instance attribute -/
def sdGetattr (s : SD K V) (attr : Option K) : Option V := dget s.attrs attr

/-- `self.default`; `none` = the class-level lambda returning `NotImplemented` -/
def sdDefault (s : SD K V) : Option V := dget s.attrs none

/-- `StrategyDict.__iter__` : `itervalues(self)` -/
def sdIter (s : SD K V) : List V := storeValues s.mkd

/-- BEFORE the repair 735182a (no `hash((keys, value))` and no name check in front; kept for the
    regression theorems, not part of `sdStep`): `StrategyDict.__setitem__(key, value)` REFUSED by
    `super().__setitem__` / by the loop itself — the statement
    `for k in keys: try: del self[k] except KeyError: pass` came first, so the names `deleted` had
    already lost their strategies (and the default its names) when the exception arrived.  `deleted` = all the given names when the strategy is
    unhashable (`sd["a"] = unhashable_callable`), = the names in front of `BAD` when the key tuple
    holds an unhashable name (`self.key2keys(BAD)` raises `TypeError`, which the loop does not catch). -/
def sdSetRefused (s : SD K V) (deleted : List K) : SD K V × Res K V := (sdDelLoop s deleted, .rejected)

/-! ### the NAME `default` (outside the property: names are assumed different from `default`) — as coded

  `dn` is the key spelled `"default"`.  The attribute that exposes this name IS the instance's
  `default`, so `hasattr(self, "default")` is always true (class attribute) and the two `__delattr__`
  calls of `__delitem__` hit the same attribute.  Not part of `sdStep`; the theorems C15.44-46 say what
  happens, the tie runs it (driver entry `sdn`). -/

/-- `StrategyDict.__delitem__("default")` as coded: the item goes; when the instance default equals the
    strategy it is removed as "the attribute of the name" — whether or not the strategy keeps other
    names — and when `default` was its only name the second `__delattr__("default")` raises
    `AttributeError` AFTER everything was removed -/
def sdDelDefaultName (s : SD K V) (dn : K) : SD K V × Res K V :=
  match key2keys s.mkd dn with
  | none => (s, .keyError)
  | some keys =>
  match getTuple s.mkd keys with
  | none => (s, .keyError)
  | some value =>
  match delitem s.mkd dn with
  | none => (s, .keyError)
  | some mk' =>
    if dget s.attrs none = some value then
      ({ mkd := mk', attrs := derase s.attrs none }, if keys.length = 1 then .attrError else .done)
    else ({ mkd := mk', attrs := s.attrs }, .done)

/-- `sd["default"] = value` as coded: the deletion loop catches `KeyError` only (the `AttributeError`
    above escapes, half-way); then `setattr(self, "default", value)` makes the strategy THE default,
    whatever was stored first -/
def sdSetDefaultName (s : SD K V) (dn : K) (value : V) : SD K V × Res K V :=
  match sdDelDefaultName s dn with
  | (s1, .attrError) => (s1, .attrError)
  | (s1, _) =>
    match setitem s1.mkd [dn] value with
    | none => (s1, .keyError)
    | some mk' => ({ mkd := mk', attrs := dset s1.attrs none value }, .done)

/-- `del sd.default` as coded when `default` may be a stored name: `self["default"] == getattr(self,
    "default")` decides between `del self["default"]` and putting the attribute "back" -/
def sdDelattrDefaultName (s : SD K V) (dn : K) : SD K V × Res K V :=
  match getitem s.mkd dn with
  | none => Res.ofExcept s (objDelattr s none)
  | some item =>
    if dget s.attrs none = some item then sdDelDefaultName s dn
    else ({ s with attrs := dset s.attrs none item }, .done)

inductive SOp (K V : Type) where
  | set (keys : List K) (value : V)
  | del (key : K)
  | get (key : K)
  | getattr (name : K)
  | setattr (attr : Option K) (value : V)   -- `sd.name = value` / `sd.default = value`
  | delattr (attr : Option K)               -- `del sd.name` / `del sd.default`
  | default                                 -- `sd.default`
  | call                                    -- `sd(...)` : which strategy is called
  | len
  /-- `sd[keys] = value` with an unhashable strategy / an unhashable or non-string name among the
      keys (`deleted` = the names in front of it): refused by `hash((keys, value))` / the name check
      before anything is changed -/
  | setRefused (deleted : List K)
  /-- an operation refused in its first statement: `sd[BAD]`, `del sd[BAD]` with an unhashable `BAD`
      (`self.key2keys(key)` hashes it) -/
  | rejected
  /-- an operation whose outcome does not depend on the dict and that changes nothing (see `Op.const`);
      also `sd[7]`, `del sd[7]` for a hashable non-string, which is never a name: `KeyError` -/
  | const (r : Res K V)
  /-- `sd[key_tuple]` (inherited from `MultiKeyDict`: the storage) -/
  | getT (keyTuple : List K)
  /-- `key_tuple in sd`, `sd.get(key_tuple)` (inherited from `dict`) -/
  | contains (keyTuple : List K)
  | dictGet (keyTuple : List K)

def Res.ofDefault : Option V → Res K V
  | none => .notImpl
  | some v => .val v

def sdStep (s : SD K V) : SOp K V → SD K V × Res K V
  | .set keys value => match sdSetitem s keys value with
      | some s' => (s', .done)
      | none => (s, .keyError)
  | .del key => match sdDelitem s key with
      | some s' => (s', .done)
      | none => (s, .keyError)
  | .get key => (s, .ofVal (getitem s.mkd key))
  | .getattr name => (s, match sdGetattr s (some name) with
      | some v => .val v
      | none => .attrError)
  | .setattr attr value => ({ s with attrs := dset s.attrs attr value }, .done)
  | .delattr attr => Res.ofExcept s (sdDelattr s attr)
  | .default => (s, .ofDefault (sdDefault s))
  | .call => (s, .ofDefault (sdDefault s))          -- `self.default(*args, **kwargs)`
  | .len => (s, .num (len s.mkd))
  | .setRefused _ => (s, .rejected)
  | .rejected => (s, .rejected)
  | .const r => (s, r)
  | .getT kt => (s, .ofVal (getTuple s.mkd kt))
  | .contains kt => (s, .bool (dhas s.mkd.store kt))
  | .dictGet kt => (s, Res.orNone (getTuple s.mkd kt))

def sdRun : SD K V → List (SOp K V) → SD K V × List (Res K V)
  | s, [] => (s, [])
  | s, op :: ops =>
    let r := sdStep s op
    let t := sdRun r.1 ops
    (t.1, r.2 :: t.2)

/-! ### what the caller writes -/

/-- one item of a key argument of a `StrategyDict`: a name (a string), a hashable object that is
    not a string (`7`, `None`, `1.5`), an unhashable object -/
inductive SKeyItem (K : Type) where
  | ok (k : K)
  | nonStr
  | unhashable

inductive SKeyArg (K : Type) where
  | single (i : SKeyItem K)
  | tuple (is : List (SKeyItem K))

def SKeyArg.items : SKeyArg K → List (SKeyItem K)
  | .single i => [i]
  | .tuple is => is

/-- how a key argument fares in the first statements of `StrategyDict.__setitem__`:
    `hash((keys, value))` comes first (an unhashable item at any position), then the loop
    `if not isinstance(k, STR_TYPES): raise TypeError` -/
inductive Names (K : Type) where
  | names (ks : List K)     -- all strings
  | hasNonStr               -- all hashable, a non-string among them
  | hasUnhashable

def classifyNames : List (SKeyItem K) → Names K
  | [] => .names []
  | .unhashable :: _ => .hasUnhashable
  | .nonStr :: r => match classifyNames r with
    | .hasUnhashable => .hasUnhashable
    | _ => .hasNonStr
  | .ok k :: r => match classifyNames r with
    | .names ks => .names (k :: ks)
    | o => o

/-- the names in front of the first item that is not a name -/
def namesBefore : List (SKeyItem K) → List K
  | .ok k :: r => k :: namesBefore r
  | _ => []

inductive SCall (K V : Type) where
  | setitem (arg : SKeyArg K) (value : Option V)
  | getitem (arg : SKeyArg K)
  | delitem (arg : SKeyArg K)
  | contains (arg : SKeyArg K)
  | dictGet (arg : SKeyArg K)
  | getattr (name : K)
  | setattr (attr : Option K) (value : V)
  | delattr (attr : Option K)
  | default | call | len

def SCall.toOp : SCall K V → SOp K V
  | .setitem arg value =>
    match classifyNames arg.items, value with
    | .names keys, some v => .set keys v
    | _, _ => .setRefused (namesBefore arg.items)
  -- `MultiKeyDict.__getitem__` (inherited): a non-string is a key like any other, and never stored
  | .getitem (.single (.ok k)) => .get k
  | .getitem (.single .nonStr) => .const .keyError
  | .getitem (.single .unhashable) => .rejected
  | .getitem (.tuple is) => match classifyNames is with
    | .names t => .getT t
    | .hasNonStr => .const .keyError
    | .hasUnhashable => .rejected
  -- `StrategyDict.__delitem__`: `keys = self.key2keys(key)` first
  | .delitem (.single (.ok k)) => .del k
  | .delitem (.single .nonStr) => .const .keyError
  | .delitem (.single .unhashable) => .rejected
  | .delitem (.tuple is) => match classifyNames is with
    | .hasUnhashable => .rejected
    | _ => .const .keyError
  | .contains (.single .unhashable) => .rejected
  | .contains (.single _) => .const (.bool false)
  | .contains (.tuple is) => match classifyNames is with
    | .names t => .contains t
    | .hasNonStr => .const (.bool false)
    | .hasUnhashable => .rejected
  | .dictGet (.single .unhashable) => .rejected
  | .dictGet (.single _) => .const .pyNone
  | .dictGet (.tuple is) => match classifyNames is with
    | .names t => .dictGet t
    | .hasNonStr => .const .pyNone
    | .hasUnhashable => .rejected
  | .getattr n => .getattr n
  | .setattr a v => .setattr a v
  | .delattr a => .delattr a
  | .default => .default
  | .call => .call
  | .len => .len

def sdCallStep (s : SD K V) (c : SCall K V) : SD K V × Res K V := sdStep s c.toOp

def sdCallRun (s : SD K V) (cs : List (SCall K V)) : SD K V × List (Res K V) :=
  sdRun s (cs.map SCall.toOp)

end SD
end ALV.C15
