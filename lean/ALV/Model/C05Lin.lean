/-
  C05 — the remaining branches of the anchored code of `ZFilter` (code shaped, Mathlib-free):

    ZFilter.__pow__            how the exponent is SPELLED: int / bool take the integer path; a float goes
                               into `Poly.__pow__`, which multiplies a list by it unless the polynomial
                               has at most one term (TypeError); a Fraction ends in
                               ValueError("Z-transform powers only valid with integers"); a complex number
                               fails at `other < 0` (TypeError)
    ZFilter.__add__/__mul__/__truediv__ with a LinearFilter that is not a ZFilter on the right:
                               ValueError("Filter equations have different domains"); `__sub__` negates
                               the other operand first: TypeError (LinearFilter has no unary minus)
    ZFilterMeta.__rbinary__    a ZFilter handed to a reflected operator: the same ValueError
    LinearFilter.linearize     fractional delays: a term `v·x^k` with non-integer `k` is split between
                               `left = int(k)` (truncation toward zero) and `left + 1` with the weights
                               `1 - (k - left)` and `k - left`; the pairs are accumulated into a new
                               dictionary (`+=` on a repeated key) and handed to the constructor
    LinearFilter.__init__(filter, denominator)   type cast, `filter / denominator` when one is given
-/
import ALV.Model.C05
namespace ALV.C05
open ALV.C07
variable {α : Type}

/-- how a number is spelled in Python -/
inductive NumKind where
  | int | bool | float | fraction | complex
  deriving DecidableEq, Repr

inductive BinOp where
  | add | sub | mul | div
  deriving DecidableEq, Repr

/-- `f op g` where `g` is a `LinearFilter` object that is not a `ZFilter` -/
def opForeign : BinOp → PyErr
  | .sub => .type
  | _ => .value

/-- `f.__radd__(g)` … with a ZFilter `g` (`ZFilterMeta.__rbinary__`) -/
def ropZFilter : BinOp → PyErr := fun _ => .value

section Arith
variable [Add α] [Mul α] [Sub α] [Neg α] [Div α] [OfNat α 0] [OfNat α 1] [DecidableEq α]

/-- `poly ** other` with a float `other` of integral value `n`: the list repetition of the general
branch needs an int -/
def polyPowFloat (p : MPoly α) (n : Int) : Except PyErr (MPoly α) :=
  if n ≠ 0 ∧ p.length ≥ 2 then .error .type else .ok (C07.pow p n)

/-- `f ** other` for an exponent of integral value `n` spelled as `kind` -/
def powSpelled (f : ZF α) (n : Int) : NumKind → Except PyErr (ZF α)
  | .int => pow f n
  | .bool => pow f n
  | .fraction => .error .value
  | .complex => .error .type
  | .float =>
      let go (g : ZF α) (m : Int) : Except PyErr (ZF α) := do
        let a ← polyPowFloat g.num m
        let b ← polyPowFloat g.den m
        ofPolys a b
      if n < 0 ∧ (f.num.length ≥ 2 ∨ f.den.length ≥ 2) then do
        let r ← ofPolys f.den f.num
        go r (-n)
      else go f n

/-- `ZFilter(filt)` / `LinearFilter(filt)`: the type cast takes both polynomials as they are and goes
through the normalisation of the constructor again -/
def cast (f : ZF α) : Except PyErr (ZF α) :=
  match C04.minKey f.den with
  | none => .error .value
  | some power =>
    if power ≠ 0 then .ok ⟨C07.mul f.num (polyDelta power), C07.mul f.den (polyDelta power)⟩ else .ok f

/-- `ZFilter(filt, other)`: `filt / other` first -/
def castDiv (f g : ZF α) : Except PyErr (ZF α) := do
  let q ← truediv f g
  cast q
def castDivScalar (f : ZF α) (c : α) : Except PyErr (ZF α) := do
  let q ← divScalar f c
  cast q

/-! ### `linearize` with fractional delays -/

/-- one term `v · x^k`, `k = left + w` with `left = int(k)` and `w = k - left` (so `w < 0` for a
negative fractional `k`: the code then extrapolates from `left`, `left + 1`) -/
structure FTerm (α : Type) where
  left : Int
  w : α
  v : α

/-- `pairs` of one term -/
def linPairs (t : FTerm α) : List (Int × α) :=
  if t.w = 0 then [(t.left, t.v)] else [(t.left, t.v * (1 - t.w)), (t.left + 1, t.v * t.w)]

/-- `if key in new_poly: new_poly[key] += value else: new_poly[key] = value` -/
def dictAdd : List (Int × α) → Int → α → List (Int × α)
  | [], k, x => [(k, x)]
  | (k', y) :: t, k, x => if k' = k then (k', y + x) :: t else (k', y) :: dictAdd t k x

/-- the new dictionary of one polynomial (terms in `terms()` order: ascending powers) -/
def linDict (ts : List (FTerm α)) : List (Int × α) :=
  ts.foldl (fun d t => (linPairs t).foldl (fun d kv => dictAdd d kv.1 kv.2) d) []

/-- `filt.linearize()` -/
def linearizeF (num den : List (FTerm α)) : Except PyErr (ZF α) := ofData (linDict num) (linDict den)

end Arith

/-! ### how a (rational) power is split: `left = int(k)`, `weight_right = k - left` -/

/-- Python's `int(k)` on a Fraction / float: truncation TOWARD ZERO (not the floor) -/
def truncZ (k : Rat) : Int := if k < 0 then -((-k).floor) else k.floor

/-- the term `v·x^k` as `linearize` sees it -/
def ftermOf (k v : Rat) : FTerm Rat := ⟨truncZ k, k - (truncZ k : Int), v⟩

/-- the terms of a polynomial with rational powers, in `terms()` order (ascending powers) -/
def ftermsOf (l : List (Rat × Rat)) : List (FTerm Rat) :=
  (l.mergeSort (fun a b => a.1 ≤ b.1)).map fun kv => ftermOf kv.1 kv.2

/-- `filt.linearize()` of a filter given by its (power, coefficient) pairs with rational powers -/
def linearizeQ (num den : List (Rat × Rat)) : Except PyErr (ZF Rat) := linearizeF (ftermsOf num) (ftermsOf den)

end ALV.C05
