/-
  C01 — a small PROGRAM TYPE for the bodies of the closures that build a Stream's dunders, and its
  interpreter into the vocabulary of the hand-written model (`Iter.mapc` with its flag, `Iter.map2`, `Val`).

  Translator `harness/props/c01_tr.py` reads, with `ast`, the bodies of

      StreamMeta.__binary__ / __rbinary__ / __unary__   (the inner `def dunder`)
      Stream.__getattr__ / Stream.__call__

  from `audiolazy/lazy_stream.py` and writes them as VALUES of `Closure` into `ALV/Gen/C01Src.lean`.
  `Props/C01.lean` proves that interpreting those values gives exactly the hand-written model functions
  `binaryDunder`, `rbinaryDunder`, `unaryDunder`, `methStream` (`src_*_is_model`).

  Core Lean only.
-/
import ALV.Model.C01
namespace ALV.C01.Src
open ALV.C01

/-- the parameters of a closure -/
inductive Var where
  | self | other
  deriving DecidableEq, Repr

/-- an expression whose value is an iterator -/
inductive ItE where
  | iterOf (v : Var)          -- `iter(self)`, `iter(other)`
  | dataOf (v : Var)          -- `self._data`
  deriving DecidableEq, Repr

/-- an argument of the element function inside a lambda / a generator expression -/
inductive LArg where
  | bound                     -- the lambda's parameter / the loop variable
  | var (v : Var)             -- a variable of the enclosing closure (`other`)
  deriving DecidableEq, Repr

/-- the iterator handed to `Stream(…)`; `F` is the element function of the closure (`op_func`,
    `getattr(·, name)`, `·(*args, **kwargs)`) -/
inductive MapE where
  | mapF (its : List ItE)                 -- `xmap(F, it₁, …, itₖ)`
  | mapLam (args : List LArg) (it : ItE)  -- `xmap(lambda a: F(args…), it)`        : a map object
  | genLam (args : List LArg) (it : ItE)  -- `(F(args…) for a in it)`              : a generator expression
  deriving DecidableEq, Repr

inductive RetE where
  | notImplemented            -- `NotImplemented`
  | stream (m : MapE)         -- `Stream(m)`
  deriving DecidableEq, Repr

inductive TestE where
  | isIgnored (v : Var)       -- `isinstance(v, cls.__ignored_classes__)`
  | isIterable (v : Var)      -- `isinstance(v, Iterable)`
  | nameIsNext                -- `name == NEXT_NAME`
  deriving DecidableEq, Repr

inductive Stmt where
  | ifReturn (t : TestE) (r : RetE)     -- `if t: return r`
  | ifRaise (t : TestE) (e : Err)       -- `if t: raise e(…)`
  | ret (r : RetE)                      -- `return r`
  deriving DecidableEq, Repr

/-- a translated function: its parameters and its statements -/
structure Closure where
  params : List Var
  body : List Stmt
  deriving DecidableEq, Repr

/-- what the names of a closure are bound to when it runs -/
structure Env where
  f : Name                 -- the name the element function has in the model's terms
  self : Iter              -- `self` is a Stream: `iter(self)` = `self._data` = this iterator
  other : Option Val       -- `none`: the closure has no such parameter
  isNext : Bool            -- `name == NEXT_NAME`

def evalIt (env : Env) : ItE → Except Err Iter
  | .iterOf .self => .ok env.self
  | .dataOf .self => .ok env.self
  | .iterOf .other =>
    match env.other with
    | some (.iterable _ it) => .ok it
    | _ => .error .typeError                      -- `iter(3)`: "object is not iterable"
  | .dataOf .other =>
    match env.other with
    | some (.iterable true it) => .ok it
    | _ => .error .attributeError

/-- `none` = the bound variable, `some c` = an element fixed for every position -/
def evalArg (env : Env) : LArg → Except Err (Option Term)
  | .bound => .ok none
  | .var .other =>
    match env.other with
    | some (.scalar c) => .ok (some c)
    | some (.ignored c) => .ok (some c)
    | _ => .error .typeError                      -- a whole iterable as ONE operand: outside the model
  | .var .self => .error .typeError

/-- the arguments before and after the (single) bound variable -/
def splitArgs : List (Option Term) → Option (List Term × List Term)
  | [] => none
  | none :: r => (r.mapM id).map fun post => ([], post)
  | some c :: r => (splitArgs r).map fun s => (c :: s.1, s.2)

def evalLam (env : Env) (g : Bool) (args : List LArg) (it : ItE) : Except Err Iter := do
  let src ← evalIt env it
  let as ← args.mapM (evalArg env)
  match splitArgs as with
  | some (pre, post) => pure (.mapc g env.f pre post src)
  | none => .error .typeError

def evalMap (env : Env) : MapE → Except Err Iter
  | .mapF [a] => do
    let ia ← evalIt env a
    pure (.map1 env.f ia)
  | .mapF [a, b] => do
    let ia ← evalIt env a
    let ib ← evalIt env b
    pure (.map2 env.f ia ib)
  | .mapF _ => .error .typeError
  | .mapLam args it => evalLam env false args it
  | .genLam args it => evalLam env true args it

def evalRet (env : Env) : RetE → Except Err Val
  | .notImplemented => .error .notImplemented
  | .stream m => do
    let it ← evalMap env m
    pure (.iterable true it)

def evalTest (env : Env) : TestE → Bool
  | .isIgnored .self => false
  | .isIterable .self => true
  | .isIgnored .other => match env.other with | some (.ignored _) => true | _ => false
  | .isIterable .other => match env.other with | some (.iterable _ _) => true | _ => false
  | .nameIsNext => env.isNext

/-- run the statements; falling off the end returns `None`, which no caller of these closures accepts -/
def runBody (env : Env) : List Stmt → Except Err Val
  | [] => .error .typeError
  | .ifReturn t r :: rest => if evalTest env t then evalRet env r else runBody env rest
  | .ifRaise t e :: rest => if evalTest env t then .error e else runBody env rest
  | .ret r :: _ => evalRet env r

/-- a closure `dunder(self, other)` built for the operator function `f` -/
def Closure.run2 (c : Closure) (f : Name) (self : Iter) (other : Val) : Except Err Val :=
  if c.params = [.self, .other] then runBody ⟨f, self, some other, false⟩ c.body else .error .typeError

/-- a closure `dunder(self)` -/
def Closure.run1 (c : Closure) (f : Name) (self : Iter) : Except Err Val :=
  if c.params = [.self] then runBody ⟨f, self, none, false⟩ c.body else .error .typeError

/-- `Stream.__getattr__(self, name)` / `Stream.__call__(self, *args, **kwargs)`: `label` is the name the
    model gives to `lambda a: getattr(a, name)` resp. `lambda a: a(*args, **kwargs)` -/
def Closure.runMeth (c : Closure) (label : Name) (self : Iter) (isNext : Bool) : Except Err Val :=
  if c.params = [.self] then runBody ⟨label, self, none, isNext⟩ c.body else .error .typeError

/-- the model's reading of attribute access and call on a Stream (the body of `evalPy`'s `meth` case) -/
def methStream (g : Bool) (label : Name) (self : Iter) : Val := .iterable true (.mapc g label [] [] self)

/-- `callDunder` with the three builders given as translated closures -/
def callDunderSrc (un bin rbin : Closure) (tbl : List (Name × Dunder)) (dname : Name) (self : Iter)
    (arg : Option Val) : Except Err Val :=
  match tbl.lookup dname with
  | none => .error .attributeError
  | some d =>
    match d.builder, arg with
    | .unary, none => un.run1 d.func self
    | .binary, some o => bin.run2 d.func self o
    | .rbinary, some o => rbin.run2 d.func self o
    | _, _ => .error .typeError

end ALV.C01.Src
