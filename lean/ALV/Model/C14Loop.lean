/-
  C14 — the loop `_generate_window_strategies` as a PROGRAM VALUE (deep embedding) and its interpreter.

  The translator (`harness/props/c14_tr.py`) reads the text of `_generate_window_strategies` (and the
  module-level context it depends on: where `pi` / `sin` / `cos` / `xrange` come from, how often the
  function is called) with `ast` and emits a value of `Prog` into `ALV/Gen/C14Src.lean`.  This file
  gives such a value its meaning on the state of the hand-written model (`ALV.C14.State`): which
  function object `exec` creates from which template, under which keys a decorator registers it, what
  `wsymm[sname] = window[sname]; break` does, which attributes the last two lines set.

  `Loop.model` is the program the hand-written `genStep` was written for; `Props.C14` proves
  `ALV.Gen.C14.generateWindowStrategies = Loop.model` (the source still says that), that every row
  of `Loop.model` runs as `genStep` (for ALL states and rows), and — by evaluation on the regenerated
  table — that the regenerated program leaves the state `generated`.

  `none` = the program raises (NameError, KeyError, a decorator applied to something that is no
  function) or leaves what the translation of the templates (T2, `Gen/Windows.lean`) assumes about
  it (see `exec`).  Core Lean only.
-/
import ALV.Model.C14
namespace ALV.C14.Loop
open ALV ALV.Gen.Windows ALV.C14

/-- an expression denoting one of the two dictionaries: `window`, `wsymm`, the inner loop variable `sdict` -/
inductive DE | window | wsymm | sdict
  deriving DecidableEq, Repr

/-- an expression denoting a function object: `ns[sname]`, `<dict>[sname]` -/
inductive FE
  | ns
  | item (d : DE)
  deriving DecidableEq, Repr

/-- an element of the list `decorators` -/
inductive Dec
  /-- `format_docstring(**docs_dict)`: sets `__doc__`, returns the function it was given -/
  | formatDocstring
  /-- `<dict>.strategy(*names)`: `dict[names] = func` (and `func.__name__ = names[0]`); returns the DICTIONARY -/
  | strategy (d : DE)
  deriving DecidableEq, Repr

/-- a statement without a block -/
inductive Simple
  /-- `names = wnd_dict[<field>]` -/
  | bindNames (field : String)
  /-- `sname = wnd_dict[<storeAs>] = names[<idx>]` -/
  | bindSname (storeAs : String) (idx : Nat)
  /-- `wnd_dict.setdefault(<field>, <value>)` -/
  | setDefault (field value : String)
  /-- `docs_dict = window._doc_kwargs(symm = <a> is <b>, **wnd_dict)` (text of the docstring only) -/
  | docs (a b : DE)
  /-- `decorators = [...]` -/
  | decorators (ds : List Dec)
  /-- `ns = dict(k = v, ...)`: the globals of the exec'ed function, (key, module-level name it is bound to) -/
  | nsBind (binds : List (String × String))
  /-- `exec(<tmpl>._code_template.format(**wnd_dict), ns, ns)` -/
  | exec (tmpl : DE)
  /-- `reduce(lambda func, dec: dec(func), decorators, <f>)` -/
  | applyDecorators (f : FE)
  /-- `<d>[sname] = <f>` -/
  | setItem (d : DE) (f : FE)
  /-- `<t1>.<attr> = <t2>.<attr> = ... = <value>` (value first, then the targets left to right) -/
  | setAttr (attr : String) (targets : List FE) (value : FE)
  /-- `break` -/
  | brk
  deriving DecidableEq, Repr

/-- a statement of the inner loop body -/
inductive Inner
  | simple (s : Simple)
  /-- `if not wnd_dict.get(<field>, <dflt>): <body>` -/
  | ifNotFlag (field : String) (dflt : Bool) (body : List Simple)
  deriving DecidableEq, Repr

/-- a statement of the outer loop body -/
inductive Outer
  | simple (s : Simple)
  /-- `for sdict in [<ds>]: <body>` -/
  | forDicts (ds : List DE) (body : List Inner)
  deriving DecidableEq, Repr

/-- `_generate_window_strategies` and the module-level context it depends on -/
structure Prog where
  /-- where the imported global names the function reads (`pi`, `sin`, `cos`, `xrange` — put into `ns` —, `reduce`,
      `format_docstring`) come from: (name, module, name there), sorted by name -/
  globals : List (String × String × String)
  /-- `for wnd_dict in <object>.<attribute>:` -/
  table : String × String
  /-- body of that loop -/
  body : List Outer
  /-- number of module-level calls `_generate_window_strategies()` (after the table and templates) -/
  calls : Nat
  deriving DecidableEq, Repr

/-! ### interpreter -/

/-- local variables of one iteration of the outer loop -/
structure Env where
  st : State
  row : Row
  globals : List (String × String × String)
  names : Option (List String) := none
  sname : Option String := none
  /-- string entries the loop itself writes into `wnd_dict` (they reach `.format(**wnd_dict)`) -/
  stored : List (String × String) := []
  sdict : Option DictId := none
  docs : Bool := false
  decs : Option (List Dec) := none
  /-- `ns` gives `pi`, `sin`, `cos`, `xrange` the meaning the translated formulas / templates have -/
  nsOK : Bool := false
  /-- what `exec` defined in `ns` -/
  ns : List (String × Func) := []
  broke : Bool := false

/-- the names a formula / template may use besides builtins, and what each must be for
    `Gen/Windows.lean` (T2) to be a translation of the exec'ed text -/
def nsRequired : List (String × String × String) :=
  [("pi", "math", "pi"), ("sin", "math", "sin"), ("cos", "math", "cos"), ("xrange", ".lazy_compat", "xrange")]

def setDict (st : State) (d : DictId) (v : SDict) : State :=
  match d with
  | .window => { st with window := v }
  | .wsymm => { st with wsymm := v }

def evalD (e : Env) : DE → Option DictId
  | .window => some .window
  | .wsymm => some .wsymm
  | .sdict => e.sdict

def evalF (e : Env) : FE → Option Func
  | .ns => e.sname.bind fun s => e.ns.lookup s
  | .item d => (evalD e d).bind fun di => e.sname.bind fun s => (e.st.dict di).get s

/-- one decorator applied to `cur` (`none`: the previous decorator did not return a function) -/
def applyDec (acc : Env × Option Func) (dec : Dec) : Option (Env × Option Func) :=
  match acc.2 with
  | none => none
  | some fn =>
    match dec with
    | .formatDocstring =>
      if acc.1.docs ∧ acc.1.globals.lookup "format_docstring" = some (".lazy_text", "format_docstring")
      then some (acc.1, some fn) else none
    | .strategy d =>
      match evalD acc.1 d, acc.1.names with
      | some di, some (n :: ns) =>
        some ({ acc.1 with st := setDict acc.1.st di ((acc.1.st.dict di).setKeys (n :: ns) fn) }, none)
      | _, _ => none

def foldM' {σ β : Type} (f : σ → β → Option σ) : σ → List β → Option σ
  | s, [] => some s
  | s, b :: bs => match f s b with | none => none | some s' => foldM' f s' bs

def setAttrs (e : Env) (attr : String) (v : Func) (st : State) (t : FE) : Option State :=
  match evalF { e with st := st } t with
  | none => none
  | some o =>
    if attr = "periodic" then some { st with periodicAttr := setAttr st.periodicAttr o v }
    else if attr = "symm" then some { st with symmAttr := setAttr st.symmAttr o v }
    else none

def runSimple (e : Env) : Simple → Option Env
  | .bindNames field => if field = "names" then some { e with names := some e.row.names } else none
  | .bindSname storeAs idx =>
    match e.names.bind (·[idx]?) with
    | none => none
    | some s => some { e with sname := some s, stored := (e.stored.filter (·.1 != storeAs)) ++ [(storeAs, s)] }
  | .setDefault field value =>
    -- (the rows' own `params_def` is read by T2 with the default "")
    if field = "params_def" ∧ value = "" then
      some { e with stored := if (e.stored.lookup field).isSome then e.stored else e.stored ++ [(field, value)] }
    else none
  | .docs a b => match evalD e a, evalD e b with
    | some _, some _ => some { e with docs := true }
    | _, _ => none
  | .decorators ds => some { e with decs := some ds }
  | .nsBind binds =>
    some { e with ns := [], nsOK := nsRequired.all fun r =>
      match binds.lookup r.1 with
      | some g => e.globals.lookup g == some r.2
      | none => false }
  | .exec tmpl =>
    -- the template is `def {sname}(size{params_def}): … {formula} …`: it defines ONE function, named by the
    -- entry "sname" of `wnd_dict`; T2 translated the template of dictionary `tmpl` with the row's formula
    match evalD e tmpl, e.stored.lookup "sname", e.stored.lookup "params_def" with
    | some di, some s, some "" => if e.nsOK then some { e with ns := [(s, ⟨s, di == .wsymm⟩)] } else none
    | _, _, _ => none
  | .applyDecorators f =>
    match evalF e f, e.decs with
    | some fn, some ds =>
      if e.globals.lookup "reduce" = some ("functools", "reduce") then (foldM' applyDec (e, some fn) ds).map (·.1) else none
    | _, _ => none
  | .setItem d f =>
    match evalD e d, evalF e f, e.sname with
    | some di, some fn, some s => some { e with st := setDict e.st di ((e.st.dict di).setKeys [s] fn) }
    | _, _, _ => none
  | .setAttr attr targets value =>
    match evalF e value with
    | none => none
    | some v => (foldM' (setAttrs e attr v) e.st targets).map fun st => { e with st := st }
  | .brk => some { e with broke := true }

/-- a block: statements after a `break` are skipped -/
def runSimples (e : Env) (ss : List Simple) : Option Env :=
  foldM' (fun e s => if e.broke then some e else runSimple e s) e ss

def runInner (e : Env) : Inner → Option Env
  | .simple s => runSimple e s
  | .ifNotFlag field dflt body =>
    -- (`distinct` of a row is read by T2 with the default True)
    if field = "distinct" ∧ dflt = true then
      if !e.row.distinct then runSimples e body else some e
    else none

def runInners (e : Env) (ss : List Inner) : Option Env :=
  foldM' (fun e s => if e.broke then some e else runInner e s) e ss

def runOuter (e : Env) : Outer → Option Env
  | .simple s => runSimple e s
  | .forDicts ds body =>
    (foldM' (fun e d => if e.broke then some e else
        match evalD e d with
        | none => none
        | some di => runInners { e with sdict := some di } body) e ds).map
      fun e => { e with broke := false }

/-- one iteration of `for wnd_dict in …:` -/
def runRow (p : Prog) (st : State) (row : Row) : Option State :=
  (foldM' runOuter { st := st, row := row, globals := p.globals } p.body).map (·.st)

/-- the module state after the import of `lazy_analysis` -/
def runTable (p : Prog) (rows : List Row) : Option State :=
  if p.table = ("window", "_content_generation_table") ∧ p.calls = 1 then foldM' (runRow p) {} rows else none

/-! ### the program the hand-written model `genStep` is a model of -/

def model : Prog :=
  { globals := [("cos", "math", "cos"), ("format_docstring", ".lazy_text", "format_docstring"), ("pi", "math", "pi"),
                ("reduce", "functools", "reduce"), ("sin", "math", "sin"), ("xrange", ".lazy_compat", "xrange")],
    table := ("window", "_content_generation_table"),
    body := [
      .simple (.bindNames "names"),
      .simple (.bindSname "sname" 0),
      .simple (.setDefault "params_def" ""),
      .forDicts [.window, .wsymm] [
        .simple (.docs .sdict .wsymm),
        .simple (.decorators [.formatDocstring, .strategy .sdict]),
        .simple (.nsBind [("pi", "pi"), ("sin", "sin"), ("cos", "cos"), ("xrange", "xrange"), ("__name__", "__name__")]),
        .simple (.exec .sdict),
        .simple (.applyDecorators .ns),
        .ifNotFlag "distinct" true [
          .setItem .wsymm (.item .window),
          .brk]],
      .simple (.setAttr "periodic" [.item .wsymm, .item .window] (.item .window)),
      .simple (.setAttr "symm" [.item .wsymm, .item .window] (.item .wsymm))],
    calls := 1 }

end ALV.C14.Loop
