/-
  C18 — the RIFF container as `wave.Wave_read.initfp` reads it (header mirror clause: `rate`,
  `channels`, `bits` come from the `fmt ` chunk, the samples from the `data` chunk, whatever other
  chunks the file has).  Mathlib-free; executable.

  Python (Lib/wave.py)                                         | here
  -------------------------------------------------------------+----------------------------------
  _Chunk(file): name = read(4), size = "<L"; short → EOFError   | `parseRiff`, `scan` (8-byte headers)
  outer chunk: every read is cut at the RIFF size and file end  | `avail = (file.drop 8).take lim`
  getname() != b'RIFF' / read(4) != b'WAVE' → wave.Error        | `.waveError`
  loop: fmt → _read_fmt_chunk; data → stop; else skip           | `scan`
  chunk.skip(): outer.seek(n, 1) beyond the RIFF size           | `.runtime` (RuntimeError, sic)
  chunks are word aligned (odd size → one pad byte)             | `next = p + size + size % 2`
  _read_fmt_chunk: "<HHLLH" (14 bytes), "<H" bits, EXTENSIBLE   | `readFmt`
  sampwidth = (bits + 7) // 8; 0 → Error; channels 0 → Error    | `headerSampwidth`
  readframes: reads of the data chunk are cut at its size       | `(avail.drop p).take size`
-/
import ALV.Model.C18
namespace ALV.C18

inductive OpenErr
  | eof          -- EOFError
  | waveError    -- wave.Error
  | runtime      -- RuntimeError (seek beyond the RIFF chunk while skipping a chunk)
  deriving DecidableEq, Repr

def idRIFF : Bytes := [0x52, 0x49, 0x46, 0x46]
def idWAVE : Bytes := [0x57, 0x41, 0x56, 0x45]
def idFmt : Bytes := [0x66, 0x6D, 0x74, 0x20]
def idData : Bytes := [0x64, 0x61, 0x74, 0x61]
/-- KSDATAFORMAT_SUBTYPE_PCM -/
def pcmGuid : Bytes := [1, 0, 0, 0, 0, 0, 0x10, 0, 0x80, 0, 0, 0xAA, 0, 0x38, 0x9B, 0x71]

/-- unsigned little-endian number -/
def leNat (bs : Bytes) : Nat := (leValue bs).toNat

structure FmtInfo where
  channels : Nat
  rate : Nat
  sampwidth : Nat
  deriving DecidableEq, Repr

/-- `_read_fmt_chunk` on what can be read of the chunk's content -/
def readFmt (content : Bytes) : Except OpenErr FmtInfo :=
  if (content.take 14).length < 14 then .error .eof
  else
    let tag := leNat (content.take 2)
    let ch := leNat ((content.drop 2).take 2)
    let rate := leNat ((content.drop 4).take 4)
    if tag ≠ 1 ∧ tag ≠ 0xFFFE then .error .waveError
    else
      let b2 := (content.drop 14).take 2
      if b2.length < 2 then .error .eof
      else
        let ext : Except OpenErr Unit :=
          if tag = 0xFFFE then
            if ((content.drop 16).take 8).length < 8 then .error .eof
            else
              let sub := (content.drop 24).take 16
              if sub.length < 16 then .error .eof
              else if sub ≠ pcmGuid then .error .waveError
              else .ok ()
          else .ok ()
        match ext with
        | .error e => .error e
        | .ok _ =>
          let sw := headerSampwidth (leNat b2)
          if sw = 0 then .error .waveError
          else if ch = 0 then .error .waveError
          else .ok ⟨ch, rate, sw⟩

/-- the chunk loop of `initfp`; `pos` = read position inside the RIFF chunk, `lim` = its declared
    size, `avail` = what can really be read of it -/
def scan (avail : Bytes) (lim : Nat) : Nat → Nat → Option FmtInfo → Except OpenErr (FmtInfo × Bytes)
  | 0, _, _ => .error .waveError
  | fuel + 1, pos, fmt =>
    let hdr := (avail.drop pos).take 8
    if hdr.length < 8 then .error .waveError      -- EOFError → break → "fmt chunk and/or data chunk missing"
    else
      let name := hdr.take 4
      let size := leNat (hdr.drop 4)
      let p := pos + 8
      let next := p + size + size % 2
      if name = idFmt then
        match readFmt ((avail.drop p).take size) with
        | .error e => .error e
        | .ok fi => if next > lim then .error .runtime else scan avail lim fuel next (some fi)
      else if name = idData then
        match fmt with
        | none => .error .waveError                -- "data chunk before fmt chunk"
        | some fi => .ok (fi, (avail.drop p).take size)
      else if next > lim then .error .runtime
      else scan avail lim fuel next fmt

/-- `wave.open(f, "rb")` on the bytes of a file: header fields and the readable data chunk -/
def parseRiff (file : Bytes) : Except OpenErr WavFile :=
  if (file.take 4).length < 4 then .error .eof
  else if ((file.drop 4).take 4).length < 4 then .error .eof
  else if file.take 4 ≠ idRIFF then .error .waveError
  else
    let lim := leNat ((file.drop 4).take 4)
    let avail := (file.drop 8).take lim
    if avail.take 4 ≠ idWAVE then .error .waveError
    else
      match scan avail lim (avail.length + 1) 4 none with
      | .error e => .error e
      | .ok (fi, data) => .ok ⟨fi.channels, fi.sampwidth, fi.rate, data⟩

/-- a chunk as it is written: name, size, body, pad byte when the size is odd -/
def riffChunk (name body : Bytes) : Bytes :=
  name ++ leBytes 4 body.length ++ body ++ (if body.length % 2 = 1 then [0] else [])

/-- the plain PCM `fmt ` body (16 bytes) -/
def fmtBody (channels rate bits : Nat) : Bytes :=
  leBytes 2 1 ++ leBytes 2 channels ++ leBytes 4 rate ++ leBytes 4 (rate * channels * headerSampwidth bits)
    ++ leBytes 2 (channels * headerSampwidth bits) ++ leBytes 2 bits

/-- a well-formed file: extra chunks before `fmt `, between `fmt ` and `data`, and after `data` -/
def buildRiff (pre mid post : List (Bytes × Bytes)) (channels rate bits : Nat) (data : Bytes) : Bytes :=
  let ex := fun (l : List (Bytes × Bytes)) => (l.map fun c => riffChunk c.1 c.2).flatten
  let body := idWAVE ++ ex pre ++ riffChunk idFmt (fmtBody channels rate bits) ++ ex mid
    ++ riffChunk idData data ++ ex post
  idRIFF ++ leBytes 4 body.length ++ body

end ALV.C18
