/-
  C03 — the *call* layer: what the caller writes (`s.take()`, `s.take(n=2.5)`, `s.skip(Fraction(5, 2))`,
  `s.limit(True)`, `Stream()`, `Stream([1], 2)`, `s.append()`, `thub(x, -1)`, `tee(5, 3)`, …) before it is
  an operation of the history model (`HOp` / `Op`, Model/C03.lean).  Code shaped: the argument
  handling of `Stream.__init__`, `Stream.take`, `Stream.skip`, `Stream.limit`, `Stream.append`, `thub`,
  `StreamTeeHub.__init__` and `lazy_itertools.tee`, in the order the code does it.

  A call either becomes one operation of the history model (`CRes.hop`; a call that fails after
  `Stream(self)` has been built is the failing `limit` of the model: same exception, same lost use of a
  hub) or it returns / raises without touching any object (`CRes.ret`: the TypeError of a missing or ill-typed argument, the
  ValueError of `itertools.islice` / `itertools.tee`, `tee(x, 0) == ()`, `tee(5, 3) == (5, 5, 5)`).
-/
import ALV.Model.C03
namespace ALV.C03
variable {α : Type}

/-- how a count is spelled -/
inductive Spell where
  | none                       -- `None`
  | int (n : Int)
  | bool (b : Bool)            -- `bool` is a subclass of `int`
  | flt (x : Rat)              -- a finite `float` (exact value; `-0.0` is `flt 0`)
  | frac (x : Rat)             -- a `fractions.Fraction`
  | inf | ninf | nan
  | other                      -- `str`, `list`, `complex`, …: no real number
  deriving Repr, DecidableEq

/-- an argument with a default / a required argument that may be missing -/
inductive Arg where
  | omitted
  | given (s : Spell)
  deriving Repr, DecidableEq

/-- `sys.maxsize` (what `itertools.islice` accepts as stop) -/
def maxsize : Int := 9223372036854775807

/-- `Stream.take(n=None)`: `n is None` → next; `isinf(n)` (needs a real number: TypeError otherwise;
    an int beyond the float range: OverflowError); `isinstance(n, float)` → `rint`;
    `it.islice(self._data, max(n, 0))` (stop must be an int `<= sys.maxsize`: ValueError otherwise —
    a `Fraction` is no int, but `max(n, 0)` is the int `0` for a negative one). -/
def elabTake : Arg → Except String Cnt
  | .omitted => .ok .none
  | .given .none => .ok .none
  | .given (.int n) =>
    if n.natAbs ≥ 2 ^ 1024 then .error "OverflowError" else if n > maxsize then .error "ValueError" else .ok (.int n)
  | .given (.bool b) => .ok (.int (if b then 1 else 0))
  | .given (.flt x) => if x > 0 ∧ rintPos x > maxsize then .error "ValueError" else .ok (.flt x)
  | .given (.frac x) => if x < 0 then .ok (.int 0) else .error "ValueError"
  | .given .inf => .ok .inf
  | .given .ninf => .ok .ninf
  | .given .nan => .ok .nan
  | .given .other => .error "TypeError"

/-- `int(round(n))` of `skip` / `limit`: `round` of a `Fraction` is exact half-to-even like the one
    of a float; `bool` is an int.  (`none` / `other` / `inf` / `nan` stay what they are: `roundCount`
    makes them the TypeError / OverflowError / ValueError of `int(round(n))`.) -/
def spellRound : Spell → Cnt
  | .none => .none
  | .other => .none
  | .int n => .int n
  | .bool b => .int (if b then 1 else 0)
  | .flt x => .flt x
  | .frac x => .flt x
  | .inf => .inf
  | .ninf => .ninf
  | .nan => .nan

/-- the rounded count, when there is one -/
def roundedOf : Cnt → Option Int
  | .int n => some n
  | .flt x => some (roundHalfEven x)
  | _ => none

/-- `Stream.limit(n)`: `n` is required; `it.islice(self._data, max(int(round(n)), 0))` -/
def elabLimit : Arg → Except String Cnt
  | .omitted => .error "TypeError"
  | .given s =>
    match roundedOf (spellRound s) with
    | some k => if k > maxsize then .error "ValueError" else .ok (spellRound s)
    | none => .ok (spellRound s)

/-- `Stream.skip(n)`: `n` is required; everything else happens lazily in the generator -/
def elabSkip : Arg → Except String Cnt
  | .omitted => .error "TypeError"
  | .given s => .ok (spellRound s)

/-- one positional argument of `Stream(...)` / `append(...)` -/
inductive CArg (α : Type) where
  | lst (xs : List α)          -- an iterable written in the call
  | scalar (v : α)             -- a non-iterable
  | obj (j : Nat)              -- an existing Stream / StreamTeeHub
  /-- an iterable that yields `per` for ever and is not an object of the pool: `it.repeat(v)`,
      `it.cycle(vs)`, `lazy_itertools.repeat(v)`, `ControlStream(v)` -/
  | endless (per : List α)

def CArg.iterable : CArg α → Bool
  | .scalar _ => false
  | _ => true

def scalarsOf : List (CArg α) → List α
  | [] => []
  | .scalar v :: r => v :: scalarsOf r
  | _ :: r => scalarsOf r

/-- the literal lists of the arguments (`none` when an object is among them) -/
def listsOf : List (CArg α) → Option (List (List α))
  | [] => some []
  | .lst xs :: r => (listsOf r).map (xs :: ·)
  | _ :: _ => none

/-- the items written before the first object, the object, the arguments after it -/
def splitObj : List (CArg α) → Option (List α × Nat × List (CArg α))
  | [] => none
  | .obj j :: r => some ([], j, r)
  | .lst xs :: r => (splitObj r).map fun (pre, j, post) => (xs ++ pre, j, post)
  | _ :: _ => none

/-- `Stream.__init__(*dargs)`: no argument → TypeError; one → `iter(arg)` or `it.repeat(arg)`;
    several → all iterable: `it.chain(*[iter(a) for a in dargs])`, none iterable: `it.cycle(dargs)`,
    both kinds: TypeError.  (`unsupported`: two existing objects in one call — not in the history
    model.) -/
def elabArgs : List (CArg α) → Except String (Src α)
  | [] => .error "TypeError"
  | [.lst xs] => .ok (.list xs)
  | [.scalar v] => .ok (.const v)
  | [.obj j] => .ok (.obj j)
  | [.endless per] => .ok (.cyc per)
  | args =>
    if args.all CArg.iterable then
      match listsOf args with
      | some xss => .ok (.chain xss)
      | none =>
        match splitObj args with
        | some (pre, j, post) =>
          match listsOf post with
          | some yss => .ok (.mixed pre j yss.flatten)
          | none => .error "unsupported"
        | none => .error "unsupported"
    else if args.all (fun a => !a.iterable) then .ok (.cyc (scalarsOf args))
    else .error "TypeError"

/-- the number of copies asked from `itertools.tee` -/
inductive NSpell where
  | int (n : Int)
  | bool (b : Bool)
  | flt                         -- a float: `'float' object cannot be interpreted as an integer`
  deriving Repr, DecidableEq

def NSpell.toInt? : NSpell → Option Int
  | .int n => some n
  | .bool b => some (if b then 1 else 0)
  | .flt => none

inductive Call (α : Type) where
  | take (i : Nat) (a : Arg)
  | peek (i : Nat) (a : Arg)
  | skip (i : Nat) (a : Arg)
  | limit (i : Nat) (a : Arg)
  | stream (args : List (CArg α))             -- `Stream(*args)`
  | append (i : Nat) (args : List (CArg α))   -- `x.append(*args)`
  | thub (data : CArg α) (n : NSpell)         -- `thub(data, n)`
  | tee (data : CArg α) (n : Option NSpell)   -- `lazy_itertools.tee(data, n=2)`
  | plain (h : HOp α)                         -- everything else: already an operation

inductive CRes (α : Type) where
  | hop (h : HOp α)
  /-- the call returns / raises this and touches nothing -/
  | ret (o : Obs α)

def withCnt (mk : Cnt → Op α) : Except String Cnt → CRes α
  | .ok c => .hop (.op (mk c))
  | .error e => .ret (.err e)

def elabCall : Call α → CRes α
  | .take i a => withCnt (.take i) (elabTake a)
  | .peek i a => withCnt (.peek i) (elabTake a)
  | .skip i a => withCnt (.skip i) (elabSkip a)
  | .limit i a =>
    match a with
    | .omitted => .ret (.err "TypeError")
    | .given _ =>
      match elabLimit a with
      | .ok c => .hop (.op (.limit i c))
      -- the ValueError of `it.islice`: for a hub `Stream(self)` has taken a use before — exactly what
      -- the ValueError of `int(round(nan))` does
      | .error _ => .hop (.op (.limit i .nan))
  | .stream args =>
    match elabArgs args with
    | .ok s => .hop (.op (.new s))
    | .error e => .ret (.err e)
  | .append i args =>
    -- `Stream(*other)` raises TypeError; for a hub `Stream(self)` has taken a use before: exactly what
    -- the TypeError of `int(round(None))` in `limit` does ("unsupported" stays a refusal of the model)
    match elabArgs args with
    | .ok s => .hop (.op (.append i s))
    | .error "TypeError" => .hop (.op (.limit i .none))
    | .error e => .ret (.err e)
  | .thub (.scalar v) _ => .hop (.op (.thub (.const v) 0))      -- `isinstance(data, Iterable)` comes first
  | .thub data n =>
    let src : Src α := match data with
      | .lst xs => .list xs | .obj j => .obj j | .scalar v => .const v | .endless per => .cyc per
    match n.toInt? with
    | some k =>
      if k ≥ 0 then .hop (.op (.thub src k.toNat))
      else
        -- `StreamTeeHub.__init__`: `Stream.__init__(data)` has asked `iter(data)` (a hub gave a use),
        -- then `it.tee(…, n)` raises ValueError: what a failing `limit` does to its object
        match data with
        | .obj j => .hop (.op (.limit j .nan))
        | _ => .ret (.err "ValueError")
    | none =>
      match data with
      | .obj j => .hop (.op (.limit j .none))                   -- the same with TypeError
      | _ => .ret (.err "TypeError")
  | .tee data n =>
    let n := n.getD (.int 2)
    match data with
    | .obj j =>
      match n.toInt? with
      | none => .ret (.err "TypeError")                          -- `it.tee` checks `n` before `iter(data)`
      | some k =>
        if k < 0 then .ret (.err "ValueError")
        else if k = 0 then .ret (.news [])                       -- … and returns `()` for 0 at once
        else .hop (.op (.tee j k.toNat))
    | .scalar v =>
      -- not a Stream, not an iterator: `tuple(data for unused in xrange(n))`
      match n.toInt? with
      | none => .ret (.err "TypeError")
      | some k => .ret (.items (List.replicate k.toNat v))
    | _ => .ret (.err "unsupported")        -- a list: n times the same object; an iterator: no object of the pool
  | .plain h => .hop h

def cstep (f : Nat) (s : HSt α) (c : Call α) : Option (HSt α × Obs α) :=
  match elabCall c with
  | .hop h => hstep f s h
  | .ret o => some (⟨s.st, keep s.lists o⟩, o)

def crun (f : Nat) : HSt α → List (Call α) → List (Option (Obs α)) × List (List α)
  | s, [] => ([], s.lists)
  | s, c :: cs =>
    match cstep f s c with
    | none => ([none], s.lists)
    | some (s', o) => let r := crun f s' cs; (some o :: r.1, r.2)

end ALV.C03
