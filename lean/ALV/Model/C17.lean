/-
  C17 — model of `audiolazy.lazy_io.AudioIO` / `AudioThread` (code shaped):
  an interleaving transition system whose steps are the synchronisation points of the code.

  Threads: the control script (`Tid.main`) and one thread per `AudioThread` object
  (`Tid.player i`, i = creation index = index of its device stream).  Every thread that is
  not finished has exactly one *pending operation* (its program counter); a step performs the
  operation and the local code up to the publication of the next one — the same granularity
  as the deterministic scheduler of the harness (harness/sched.py).

  Yield points = every operation on a `threading.Lock` / `Event` / `Thread` and every call
  of the audio backend (`pa.open`, `write_stream`, `stop_stream`, `start_stream`, `close`,
  `terminate`).

  `Cfg.fixed = false` is the code as it is today; `Cfg.fixed = true` is the code with
  proposed_fixes/D10-close-paused.diff applied (`stop()` wakes a paused thread, `run`
  re-tests `halting`).  The harness probes which variant the source under test follows.

  `Cfg.fails` (by player index): played iterables that raise when asked for the sample after the
  last one — equally: backend writes that raise after so many chunks.  At the granularity of this
  system that is ONE step of the player: at `write` with no complete chunk left (`todo = []`, which
  is `playChunks`: only the chunks completed before the exception) and `fail` set, the exception
  leaves the loop of `run` through its `finally` clause and the thread goes on with its epilogue
  (`finAcq`), as /repo does since dd9cc91.  Every invariant and liveness theorem of
  `ALV.Lemmas.C17*` holds with it.

  Mathlib-free; executable.
-/
import ALV.Model.C08
namespace ALV.C17

inductive Tid where
  | main
  | player (i : Nat)
  deriving DecidableEq, Repr, Inhabited

/-- state of a device stream (PortAudio protocol) -/
inductive SSt where
  | unopened | active | stopped | closed
  deriving DecidableEq, Repr, Inhabited

/-- pending operation of a player thread (`AudioThread.run`) -/
inductive PPc where
  | new          -- object under construction / not yet started: no pending operation
  | begin        -- thread start-up
  | write        -- `self.write_stream(st, chunk, …)` with chunk = head of `todo`
  | isSet        -- `self.go.is_set()`
  | stopStream   -- `self.stream.stop_stream()`
  | goWait       -- `self.go.wait()`
  | startStream  -- `self.stream.start_stream()`
  | finAcq       -- `with self.lock:` (epilogue)
  | closeStream  -- `self.stream.close()`
  | tfAcq        -- `thread_finished`: `with self.lock:` of the manager
  | tfRel
  | finRel
  | done
  deriving DecidableEq, Repr, Inhabited

inductive Ctl where
  | pause | resume | stop
  deriving DecidableEq, Repr, Inhabited

/-- one call of the control script -/
inductive Cmd where
  | play (audio : List Int) (cs : Nat)   -- `player.play(audio, chunk_size=cs)`
  | ctl (k : Ctl) (i : Nat)      -- `th_i.pause()` / `.play()` / `.stop()`
  | join (i : Nat)               -- `th_i.join()`
  | close                        -- `player.close()` (also `__exit__` of the with-block)
  deriving DecidableEq, Repr, Inhabited

/-- pending operation of the control script -/
inductive MPc where
  | begin
  | pAcq (audio : List Int) (cs : Nat)   -- play: `with self.lock:`
  | pRaiseRel                    -- play on a finished manager: lock released by the raise
  | pGoSet (i : Nat)             -- AudioThread.__init__: `self.go.set()`
  | pOpen (i : Nat)              -- `device_manager._pa.open(…)`; then `_threads.append`
  | pStart (i : Nat)             -- `new_thread.start()`
  | pRel
  | cAcq (k : Ctl) (i : Nat)     -- pause/play/stop: `with self.lock:` of the thread
  | cEvt (k : Ctl) (i : Nat)     -- `go.clear()` / `go.set()`
  | cRel (k : Ctl) (i : Nat)
  | jJoin (i : Nat)
  | kHAcq                        -- close: `with self.halting:`
  | kMAcq                        -- `with self.lock:` ; `thread = self._threads[0]`
  | kMRel (found : Option Nat)
  | kSAcq (i : Nat)              -- `thread.stop()`
  | kSEvt (i : Nat)
  | kSRel (i : Nat)
  | kJoin (i : Nat)              -- `thread.join()`
  | kTerm                        -- `self._pa.terminate()`
  | kAssertRel                   -- `assert not self._pa._streams` failed: halting released
  | kHRel (ran : Bool)           -- end of `with self.halting`
  | done
  deriving DecidableEq, Repr, Inhabited

/-- what the control script observes (return / exception of each call) -/
inductive Ev where
  | playOk (i : Nat)
  | playThreadError
  | ctlOk
  | skipped                      -- handle of a thread that was never created
  | joinOk
  | closeOk (alive : List Bool) (openStreams : Nat)   -- snapshot when `close` returns
  | closeAssertionError
  deriving DecidableEq, Repr, Inhabited

structure Player where
  pc : PPc
  audio : List Int               -- the iterable given to `play` (immutable; for the statements)
  cs : Nat                       -- `chunk_size` given to `play` (samples per chunk; immutable)
  all : List (List Int)          -- `chunks(audio)`, immutable
  todo : List (List Int)         -- chunks not yet written
  written : List (List Int)      -- what the device stream received
  sst : SSt
  lk : Option Tid                -- `AudioThread.lock`
  go : Bool                      -- `AudioThread.go`
  halting : Bool                 -- `AudioThread.halting`
  fail : Bool := false           -- the played iterable raises when asked for the sample after `audio`
  deriving Repr, Inhabited

structure Cfg where
  wait : Bool
  fixed : Bool
  fails : List Bool := []        -- by player index: the played iterables that raise after their samples
  deriving Repr, Inhabited

structure State where
  mpc : MPc
  script : List Cmd              -- calls still to be issued after the current one
  players : List Player          -- every AudioThread object ever created
  threads : List Nat             -- `AudioIO._threads`
  mlock : Option Tid             -- `AudioIO.lock`
  hlock : Option Tid             -- `AudioIO.halting`
  finished : Bool                -- `AudioIO.finished`
  terminated : Nat               -- number of `pa.terminate()` calls
  perr : Bool                    -- a backend call PortAudio would refuse was issued
  log : List Ev
  deriving Repr, Inhabited

/-- `chunks(audio, size=cs, dfmt)`: `blocks(seq, size, padval=0.)` with hop = size, each block packed -/
def chunksOf (cs : Nat) (audio : List Int) : List (List Int) :=
  ALV.C08.blocks cs cs 0 audio

/-- what `chunks(audio, size=cs)` yields before it ends — or before the iterable raises: then only the
    chunks that were completed (the first `|audio| / cs` ones; a partly filled chunk is lost with
    the exception) -/
def playChunks (cs : Nat) (audio : List Int) (fail : Bool) : List (List Int) :=
  if fail then (chunksOf cs audio).take (audio.length / cs) else chunksOf cs audio

def init (script : List Cmd) : State :=
  { mpc := .begin, script := script, players := [], threads := [], mlock := none, hlock := none,
    finished := false, terminated := 0, perr := false, log := [] }

/-- the control script moves on to its next call (local code, no yield point) -/
def nextCmd (s : State) : List Cmd → State
  | [] => { s with mpc := .done, script := [] }
  | .play audio cs :: rest => { s with mpc := .pAcq audio cs, script := rest }
  | .close :: rest => { s with mpc := .kHAcq, script := rest }
  | .ctl k i :: rest =>
    if i < s.players.length then { s with mpc := .cAcq k i, script := rest }
    else nextCmd { s with log := s.log ++ [.skipped] } rest
  | .join i :: rest =>
    if i < s.players.length then { s with mpc := .jJoin i, script := rest }
    else nextCmd { s with log := s.log ++ [.skipped] } rest

def State.next (s : State) (e : Ev) : State :=
  nextCmd { s with log := s.log ++ [e] } s.script

def setP (s : State) (i : Nat) (p : Player) : State := { s with players := s.players.set i p }

/-- the `for chunk in chunks(...)` header: next chunk or end of the loop -/
def loopHead (p : Player) : PPc := if p.todo.isEmpty && !p.fail then .finAcq else .write

def isDone (s : State) (i : Nat) : Bool :=
  match s.players[i]? with
  | some p => p.pc == .done
  | none => false

def streamOpen (p : Player) : Bool := p.sst == .active || p.sst == .stopped

/-- the event operation of `stop()`: `go.clear()` today, `go.set()` with the fix -/
def ctlGo (cfg : Cfg) (k : Ctl) : Bool :=
  match k with
  | .pause => false
  | .resume => true
  | .stop => cfg.fixed

/-- one step of the control script; `none` = not enabled (blocked or finished) -/
def stepMain (cfg : Cfg) (s : State) : Option State :=
  match s.mpc with
  | .begin => some (nextCmd s s.script)
  | .done => none
  -- play ---------------------------------------------------------------------------------
  | .pAcq audio cs =>
    if s.mlock.isSome then none else
    if s.finished then some { s with mlock := some .main, mpc := .pRaiseRel }
    else
      let f := cfg.fails.getD s.players.length false
      let ch := playChunks cs audio f
      let p : Player := { pc := .new, audio := audio, cs := cs, all := ch, todo := ch, written := [],
                          sst := .unopened,
                          lk := none, go := false, halting := false, fail := f }
      some { s with mlock := some .main, players := s.players ++ [p], mpc := .pGoSet s.players.length }
  | .pRaiseRel => some ({ s with mlock := none }.next .playThreadError)
  | .pGoSet i =>
    match s.players[i]? with
    | some p => some { setP s i { p with go := true } with mpc := .pOpen i }
    | none => none
  | .pOpen i =>
    match s.players[i]? with
    | some p => some { setP s i { p with sst := .active } with
                        threads := s.threads ++ [i], mpc := .pStart i,
                        perr := s.perr || decide (s.terminated > 0) }
    | none => none
  | .pStart i =>
    match s.players[i]? with
    | some p => some { setP s i { p with pc := .begin } with mpc := .pRel }
    | none => none
  | .pRel => some ({ s with mlock := none }.next (.playOk (s.players.length - 1)))
  -- pause / play / stop of one thread ------------------------------------------------------
  | .cAcq k i =>
    match s.players[i]? with
    | some p =>
      if p.lk.isSome then none
      else some { setP s i { p with lk := some .main, halting := p.halting || (k == .stop) } with
                  mpc := .cEvt k i }
    | none => none
  | .cEvt k i =>
    match s.players[i]? with
    | some p => some { setP s i { p with go := ctlGo cfg k } with mpc := .cRel k i }
    | none => none
  | .cRel _ i =>
    match s.players[i]? with
    | some p => some ((setP s i { p with lk := none }).next .ctlOk)
    | none => none
  | .jJoin i => if isDone s i then some (s.next .joinOk) else none
  -- close ------------------------------------------------------------------------------------
  | .kHAcq =>
    if s.hlock.isSome then none else
    if s.finished then some { s with hlock := some .main, mpc := .kHRel false }
    else some { s with hlock := some .main, finished := true, mpc := .kMAcq }
  | .kMAcq =>
    if s.mlock.isSome then none
    else some { s with mlock := some .main, mpc := .kMRel s.threads.head? }
  | .kMRel found =>
    match found with
    | some i => some { s with mlock := none, mpc := if cfg.wait then .kJoin i else .kSAcq i }
    | none =>
      if s.players.any streamOpen then some { s with mlock := none, mpc := .kAssertRel }
      else some { s with mlock := none, mpc := .kTerm }
  | .kSAcq i =>
    match s.players[i]? with
    | some p =>
      if p.lk.isSome then none
      else some { setP s i { p with lk := some .main, halting := true } with mpc := .kSEvt i }
    | none => none
  | .kSEvt i =>
    match s.players[i]? with
    | some p => some { setP s i { p with go := ctlGo cfg .stop } with mpc := .kSRel i }
    | none => none
  | .kSRel i =>
    match s.players[i]? with
    | some p => some { setP s i { p with lk := none } with mpc := .kJoin i }
    | none => none
  | .kJoin i => if isDone s i then some { s with mpc := .kMAcq } else none
  | .kTerm => some { s with terminated := s.terminated + 1, mpc := .kHRel true }
  | .kAssertRel => some ({ s with hlock := none }.next .closeAssertionError)
  | .kHRel _ =>
    some ({ s with hlock := none }.next
      (.closeOk (s.players.map (fun (p : Player) => p.pc != PPc.done && p.pc != PPc.new))
                (s.players.countP streamOpen)))

/-- one step of player thread `i` -/
def stepPlayer (cfg : Cfg) (s : State) (i : Nat) : Option State :=
  match s.players[i]? with
  | none => none
  | some p =>
    let bad := decide (s.terminated > 0) || p.sst == .closed
    match p.pc with
    | .new => none
    | .done => none
    | .begin => some (setP s i { p with pc := loopHead p })
    | .write =>
      match p.todo with
      | [] =>
        -- the chunk generator asks the iterable for a sample and the iterable raises: the
        -- exception leaves the loop of `run` through its `finally` clause (the epilogue)
        if p.fail then some (setP s i { p with pc := .finAcq }) else none
      | c :: rest =>
        some { setP s i { p with written := p.written ++ [c], todo := rest,
                                 pc := if cfg.fixed && p.halting then .stopStream else .isSet } with
               perr := s.perr || bad || p.sst != .active }
    | .isSet => some (setP s i { p with pc := if p.go then loopHead p else .stopStream })
    | .stopStream =>
      some { setP s i { p with sst := .stopped, pc := if p.halting then .finAcq else .goWait } with
             perr := s.perr || bad }
    | .goWait =>
      if p.go then some (setP s i { p with pc := if cfg.fixed && p.halting then .finAcq else .startStream })
      else none
    | .startStream =>
      some { setP s i { p with sst := .active, pc := loopHead p } with perr := s.perr || bad }
    | .finAcq =>
      if p.lk.isSome then none
      else some (setP s i { p with lk := some (.player i),
                                   pc := if s.threads.contains i then .closeStream else .finRel })
    | .closeStream =>
      some { setP s i { p with sst := .closed, pc := .tfAcq } with perr := s.perr || bad }
    | .tfAcq =>
      if s.mlock.isSome then none
      else some { setP s i { p with pc := .tfRel } with
                  mlock := some (.player i), threads := s.threads.erase i }
    | .tfRel => some { setP s i { p with pc := .finRel } with mlock := none }
    | .finRel => some (setP s i { p with lk := none, pc := .done })

def step (cfg : Cfg) (s : State) : Tid → Option State
  | .main => stepMain cfg s
  | .player i => stepPlayer cfg s i

/-- replay of a schedule; stops at the first choice that is not enabled -/
def runSched (cfg : Cfg) (s : State) : List Tid → State × List Tid
  | [] => (s, [])
  | t :: ts =>
    match step cfg s t with
    | some s' => runSched cfg s' ts
    | none => (s, t :: ts)

/-- threads that have a pending operation -/
def tids (s : State) : List Tid := .main :: (List.range s.players.length).map .player

def enabled (cfg : Cfg) (s : State) (t : Tid) : Bool := (step cfg s t).isSome

/-- nobody can move -/
def terminal (cfg : Cfg) (s : State) : Bool := (tids s).all (fun t => !enabled cfg s t)

def allDone (s : State) : Bool :=
  s.mpc == MPc.done && s.players.all (fun (p : Player) => p.pc == PPc.done)

end ALV.C17
