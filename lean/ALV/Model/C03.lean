/-
  C03 — model of `audiolazy.lazy_stream.Stream / StreamTeeHub / thub` and
  `lazy_itertools.tee` (code shaped).  Mathlib-free; executable.

  Iterators.  A Stream owns exactly one iterator (`Stream._data`); each in-place method
  wraps it into a new one (`xmap`, `xfilter`, `it.chain`, the `skipper` generator, the
  `limit` generator expression).  An owned iterator is a *term* `It α` (the wrapping
  structure, with its own mutable state inside: remaining list of a list-iterator,
  pending count of `skipper` / `limit`).  The only iterators that are shared between
  several owners are the outputs of `itertools.tee`; they are leaves `tee hub pos`
  pointing into a *heap* of tee hubs (`Hub`: the iterator being split, and the items
  already pulled from it = the tee's linked list; `pos` = how many of them this child
  has consumed).  A hub's parent refers only to hubs with a smaller id (it existed
  before), so the heap is acyclic by construction.

  Termination.  `next` is defined by structural recursion on a fuel argument; `none`
  means "fuel exhausted" (Python would hang, e.g. `filter` that rejects every item of an
  endless stream).  `Props.C03` proves that for finite sources enough fuel always
  exists and that the result then is the list-model result.

  Generator semantics.  `take` / `limit` / `skip` call `next(data)` inside a generator
  (expression).  The model gives them the semantics the code was written for (and its
  doc-tests state: "or less if there aren't enough"): the inner `StopIteration` ends the
  generator.  Under PEP 479 (Python ≥ 3.7) the real code raises RuntimeError instead —
  recorded as defect D1 (known_findings/C03.json).
-/
namespace ALV.C03
variable {α : Type}

/-! ### counts (the `n` argument of take / peek / skip / limit) -/

/-- what Python passes as `n`: `None`, an `int`, a finite `float` (exact value), `inf`, `-inf`, `nan` -/
inductive Cnt where
  | none | int (n : Int) | flt (x : Rat) | inf | ninf | nan
  deriving Repr, DecidableEq

/-- `lazy_misc.rint(x)` for `x > 0`, step 1: `div, mod = divmod(x, 1)`; `+1` when `2*mod >= 1`. -/
def rintPos (x : Rat) : Int :=
  let d := x.floor
  if 2 * (x - d) ≥ 1 then d + 1 else d

/-- Python 3 `round(x)` for a float: nearest integer, ties to even. -/
def roundHalfEven (x : Rat) : Int :=
  let d := x.floor
  let r := x - d
  if r < 1/2 then d else if r > 1/2 then d + 1 else if d % 2 = 0 then d else d + 1

inductive TakeMode where
  | one | all | n (k : Nat)
  deriving Repr, DecidableEq

/-- `Stream.take`: `if n is None` … `if isinf(n) and n > 0` … `if isinstance(n, float): n = rint(n) if n > 0 else 0`
    … `xrange(n)` (empty for negative n). -/
def takeMode : Cnt → TakeMode
  | .none => .one
  | .inf => .all
  | .ninf => .n 0
  | .nan => .n 0
  | .int n => .n n.toNat
  | .flt x => .n (if x > 0 then (rintPos x).toNat else 0)

/-- `xrange(int(round(n)))` of `skip` / `limit`; `inf`/`nan` make `int(round(n))` raise. -/
def roundCount : Cnt → Except String Nat
  | .int n => .ok n.toNat
  | .flt x => .ok (roundHalfEven x).toNat
  | .inf => .error "OverflowError"
  | .ninf => .error "OverflowError"
  | .nan => .error "ValueError"
  | .none => .error "TypeError"

/-! ### iterators and the tee heap -/

inductive It (α : Type) where
  /-- `iter(list)`: the items not yet yielded -/
  | src (xs : List α)
  /-- `it.cycle(per)` / `it.repeat(x)`: rest of the current round, then `per` again -/
  | cyc (per : List α) (rest : List α)
  /-- one output of `itertools.tee`: hub id, number of hub items already consumed -/
  | tee (hub : Nat) (pos : Nat)
  | map (f : α → α) (it : It α)
  | filter (p : α → Bool) (it : It α)
  | chain (a b : It α)
  /-- `skipper(data)` generator that still has to throw `n` items away -/
  | skipper (n : Nat) (it : It α)
  /-- `(next(data) for _ in xrange(n))` with `n` rounds left -/
  | limiter (n : Nat) (it : It α)

structure Hub (α : Type) where
  parent : It α
  buf : List α

abbrev Heap (α : Type) := List (Hub α)

/-- `next(it)`: new heap, new state of the iterator, the item or `none` for StopIteration.
    Outer `Option`: `none` = out of fuel. -/
def next : Nat → Heap α → It α → Option (Heap α × It α × Option α)
  | 0, _, _ => none
  | _ + 1, h, .src [] => some (h, .src [], none)
  | _ + 1, h, .src (x :: xs) => some (h, .src xs, some x)
  | _ + 1, h, .cyc per (x :: r) => some (h, .cyc per r, some x)
  | _ + 1, h, .cyc per [] =>
    match per with
    | [] => some (h, .cyc [] [], none)
    | x :: r => some (h, .cyc per r, some x)
  | f + 1, h, .tee k pos =>
    match h[k]? with
    | none => some (h, .tee k pos, none)
    | some hub =>
      if pos < hub.buf.length then some (h, .tee k (pos + 1), hub.buf[pos]?)
      else
        match next f h hub.parent with
        | none => none
        | some (h', p', none) => some (h'.set k ⟨p', hub.buf⟩, .tee k pos, none)
        | some (h', p', some v) => some (h'.set k ⟨p', hub.buf ++ [v]⟩, .tee k (pos + 1), some v)
  | f + 1, h, .map g it =>
    match next f h it with
    | none => none
    | some (h', it', r) => some (h', .map g it', r.map g)
  | f + 1, h, .filter p it =>
    match next f h it with
    | none => none
    | some (h', it', none) => some (h', .filter p it', none)
    | some (h', it', some v) =>
      if p v then some (h', .filter p it', some v) else next f h' (.filter p it')
  | f + 1, h, .chain a b =>
    match next f h a with
    | none => none
    | some (h', a', some v) => some (h', .chain a' b, some v)
    | some (h', _, none) => next f h' b
  | f + 1, h, .skipper 0 it => next f h it
  | f + 1, h, .skipper (n + 1) it =>
    match next f h it with
    | none => none
    | some (h', _, none) => some (h', .src [], none)        -- generator ends
    | some (h', it', some _) => next f h' (.skipper n it')
  | _ + 1, h, .limiter 0 _ => some (h, .src [], none)
  | f + 1, h, .limiter (n + 1) it =>
    match next f h it with
    | none => none
    | some (h', _, none) => some (h', .src [], none)        -- generator ends
    | some (h', it', some v) => some (h', .limiter n it', some v)

/-- `constructor(next(self._data) for _ in xrange(n))` -/
def takeN (f : Nat) : Nat → Heap α → It α → Option (Heap α × It α × List α)
  | 0, h, it => some (h, it, [])
  | n + 1, h, it =>
    match next f h it with
    | none => none
    | some (h', it', none) => some (h', it', [])
    | some (h', it', some v) =>
      match takeN f n h' it' with
      | none => none
      | some (h'', it'', vs) => some (h'', it'', v :: vs)

/-- `list(iterator)`; the first argument bounds the number of items (fuel) -/
def drainIt (f : Nat) : Nat → Heap α → It α → Option (Heap α × It α × List α)
  | 0, _, _ => none
  | g + 1, h, it =>
    match next f h it with
    | none => none
    | some (h', it', none) => some (h', it', [])
    | some (h', it', some v) =>
      match drainIt f g h' it' with
      | none => none
      | some (h'', it'', vs) => some (h'', it'', v :: vs)

/-! ### objects, operations, observations -/

inductive Obj (α : Type) where
  /-- a `Stream`: its `_data` -/
  | stream (it : It α)
  /-- a `StreamTeeHub`: its `_iters` -/
  | hub (uses : List (It α))
  /-- moved into another object (its iterator now belongs to that one) -/
  | dead

structure St (α : Type) where
  heap : Heap α
  pool : List (Obj α)

/-- argument of `Stream(...)`, `append(...)`, `thub(..., n)` -/
inductive Src (α : Type) where
  | list (xs : List α)              -- an iterable
  | cyc (xs : List α)               -- several non-iterables: `it.cycle`
  | chain (xss : List (List α))     -- several iterables: `it.chain`
  | const (v : α)                   -- one non-iterable: `it.repeat` (for `thub`: the object itself)
  | obj (j : Nat)                   -- an existing Stream (moved) or StreamTeeHub (one use)
  /-- several iterables, one of them an existing object: `Stream(pre, x_j, post)`, `s.append(pre, x_j, post)` -/
  | mixed (pre : List α) (j : Nat) (post : List α)

inductive Op (α : Type) where
  | new (s : Src α)
  | take (i : Nat) (c : Cnt)
  | peek (i : Nat) (c : Cnt)
  | skip (i : Nat) (c : Cnt)
  | limit (i : Nat) (c : Cnt)
  | append (i : Nat) (s : Src α)
  | map (i : Nat) (f : α → α)
  | filter (i : Nat) (p : α → Bool)
  | copy (i : Nat)
  | next (i : Nat)                   -- `next(iter(x))`
  | drain (i : Nat)                  -- `list(x)`
  | thub (s : Src α) (n : Nat)
  | tee (i : Nat) (n : Nat)          -- `lazy_itertools.tee(x, n)`

inductive Obs (α : Type) where
  | unit                             -- the method returned `self`
  | item (v : α)
  | items (vs : List α)
  | new (idx : Nat)                  -- a new object, stored at this pool index
  | news (idx : List Nat)
  | const (v : α)                    -- `thub(c, n) is c`
  | err (kind : String)
  deriving Repr, DecidableEq

/-- `a, b = it.tee(x)`: a new hub over `x`; all outputs start at position 0 -/
def teeOf (h : Heap α) (parent : It α) : Heap α × It α :=
  (h ++ [⟨parent, []⟩], .tee h.length 0)

def chainSrc : List (List α) → It α
  | [] => .src []
  | [xs] => .src xs
  | xs :: rest => .chain (.src xs) (chainSrc rest)

/-- the iterator `Stream(*args)._data`; for an existing Stream this is its own `_data`
    (the object is then dead for us: both would share the iterator), for a StreamTeeHub
    `iter(hub)` pops the last of `_iters`. -/
def mkSrc (st : St α) : Src α → Except String (St α × It α)
  | .list xs => .ok (st, .src xs)
  | .cyc xs => .ok (st, .cyc xs [])
  | .chain xss => .ok (st, chainSrc xss)
  | .const v => .ok (st, .cyc [v] [])
  | .obj j =>
    match st.pool[j]? with
    | some (.stream it) => .ok (⟨st.heap, st.pool.set j .dead⟩, it)
    | some (.hub uses) =>
      match uses.getLast? with
      | none => .error "IndexError"
      | some u => .ok (⟨st.heap, st.pool.set j (.hub uses.dropLast)⟩, u)
    | _ => .error "noobj"
  -- every argument is asked for its iterator when the call is made (the use of a hub is taken
  -- by the call, as for a single argument); the real `it.chain(*args)` asks lazily: finding D16
  | .mixed pre j post =>
    match st.pool[j]? with
    | some (.stream it) => .ok (⟨st.heap, st.pool.set j .dead⟩, .chain (.src pre) (.chain it (.src post)))
    | some (.hub uses) =>
      match uses.getLast? with
      | none => .error "IndexError"
      | some u => .ok (⟨st.heap, st.pool.set j (.hub uses.dropLast)⟩, .chain (.src pre) (.chain u (.src post)))
    | _ => .error "noobj"

/-- the object the method works on: a Stream itself, or `Stream(hub)` (one use popped)
    for the StreamTeeHub overrides; result: state, index where the result lives, iterator -/
def target (st : St α) (i : Nat) : Except String (St α × Nat × It α) :=
  match st.pool[i]? with
  | some (.stream it) => .ok (st, i, it)
  | some (.hub uses) =>
    match uses.getLast? with
    | none => .error "IndexError"
    | some u => .ok (⟨st.heap, (st.pool.set i (.hub uses.dropLast)) ++ [.dead]⟩, st.pool.length, u)
  | _ => .error "noobj"

/-- `Stream.take` on an iterator -/
def takeIt (f : Nat) (h : Heap α) (it : It α) (c : Cnt) : Option (Heap α × It α × Obs α) :=
  match takeMode c with
  | .one =>
    match next f h it with
    | none => none
    | some (h', it', none) => some (h', it', .err "StopIteration")
    | some (h', it', some v) => some (h', it', .item v)
  | .all =>
    match drainIt f f h it with
    | none => none
    | some (h', it', vs) => some (h', it', .items vs)
  | .n k =>
    match takeN f k h it with
    | none => none
    | some (h', it', vs) => some (h', it', .items vs)

/-- result of an in-place method: a Stream is rebound (`self._data = …; return self`),
    a hub has produced a new Stream -/
def rebind (st : St α) (i k : Nat) (it : It α) : St α × Obs α :=
  (⟨st.heap, st.pool.set k (.stream it)⟩, if k = i then .unit else .new k)

def step (f : Nat) (st : St α) : Op α → Option (St α × Obs α)
  | .new s =>
    match mkSrc st s with
    | .error e => some (st, .err e)
    | .ok (st', it) => some (⟨st'.heap, st'.pool ++ [.stream it]⟩, .new st'.pool.length)
  | .take i c =>
    match st.pool[i]? with
    | some (.stream it) =>
      match takeIt f st.heap it c with
      | none => none
      | some (h', it', o) => some (⟨h', st.pool.set i (.stream it')⟩, o)
    | some (.hub _) => some (st, .err "AttributeError")
    | _ => some (st, .err "noobj")
  | .peek i c =>
    -- `self.copy().take(n)`
    match st.pool[i]? with
    | some (.stream it) =>
      let (h1, t) := teeOf st.heap it
      match takeIt f h1 t c with
      | none => none
      | some (h', _, o) => some (⟨h', st.pool.set i (.stream t)⟩, o)
    | some (.hub (u :: us)) =>
      let (h1, t) := teeOf st.heap u
      match takeIt f h1 t c with
      | none => none
      | some (h', _, o) => some (⟨h', st.pool.set i (.hub (t :: us))⟩, o)
    | some (.hub []) => some (st, .err "IndexError")
    | _ => some (st, .err "noobj")
  | .skip i c =>
    match target st i with
    | .error e => some (st, .err e)
    | .ok (st', k, it) =>
      match roundCount c with
      | .error _ => some (st, .err "unsupported")      -- raised lazily by the generator: not modelled
      | .ok n => some (rebind st' i k (.skipper n it))
  | .limit i c =>
    match target st i with
    | .error e => some (st, .err e)
    | .ok (st', k, it) =>
      match roundCount c with
      | .error e => some (st', .err e)                 -- raised when the genexp is created (a popped hub use is lost)
      | .ok n => some (rebind st' i k (.limiter n it))
  | .append i s =>
    match target st i with
    | .error e => some (st, .err e)
    | .ok (st', k, it) =>
      match mkSrc st' s with
      | .error e => some (st', .err e)
      | .ok (st'', it2) => some (rebind st'' i k (.chain it it2))
  | .map i g =>
    match target st i with
    | .error e => some (st, .err e)
    | .ok (st', k, it) => some (rebind st' i k (.map g it))
  | .filter i p =>
    match target st i with
    | .error e => some (st, .err e)
    | .ok (st', k, it) => some (rebind st' i k (.filter p it))
  | .copy i =>
    match st.pool[i]? with
    | some (.stream it) =>
      let (h1, t) := teeOf st.heap it
      some (⟨h1, st.pool.set i (.stream t) ++ [.stream t]⟩, .new st.pool.length)
    | some (.hub (u :: us)) =>
      let (h1, t) := teeOf st.heap u
      some (⟨h1, st.pool.set i (.hub (t :: us)) ++ [.stream t]⟩, .new st.pool.length)
    | some (.hub []) => some (st, .err "IndexError")
    | _ => some (st, .err "noobj")
  | .next i =>
    match st.pool[i]? with
    | some (.stream it) =>
      match takeIt f st.heap it .none with
      | none => none
      | some (h', it', o) => some (⟨h', st.pool.set i (.stream it')⟩, o)
    | some (.hub uses) =>
      match uses.getLast? with
      | none => some (st, .err "IndexError")
      | some u =>
        match takeIt f st.heap u .none with
        | none => none
        | some (h', _, o) => some (⟨h', st.pool.set i (.hub uses.dropLast)⟩, o)
    | _ => some (st, .err "noobj")
  | .drain i =>
    match st.pool[i]? with
    | some (.stream it) =>
      match takeIt f st.heap it .inf with
      | none => none
      | some (h', it', o) => some (⟨h', st.pool.set i (.stream it')⟩, o)
    | some (.hub uses) =>
      match uses.getLast? with
      | none => some (st, .err "IndexError")
      | some u =>
        match takeIt f st.heap u .inf with
        | none => none
        | some (h', _, o) => some (⟨h', st.pool.set i (.hub uses.dropLast)⟩, o)
    | _ => some (st, .err "noobj")
  | .thub s n =>
    match s with
    | .const v => some (st, .const v)
    | s =>
      match mkSrc st s with
      | .error e => some (st, .err e)
      | .ok (st', it) =>
        let (h1, t) := teeOf st'.heap it
        some (⟨h1, st'.pool ++ [.hub (List.replicate n t)]⟩, .new st'.pool.length)
  | .tee i n =>
    match mkSrc st (.obj i) with
    | .error e => some (st, .err e)
    | .ok (st', it) =>
      let (h1, t) := teeOf st'.heap it
      some (⟨h1, st'.pool ++ List.replicate n (.stream t)⟩,
            .news ((List.range n).map (· + st'.pool.length)))

/-- a whole history: the observation of every step (`none`: out of fuel at that step, the
    history stops there) -/
def run (f : Nat) : St α → List (Op α) → List (Option (Obs α))
  | _, [] => []
  | st, op :: ops =>
    match step f st op with
    | none => [none]
    | some (st', o) => some o :: run f st' ops

def St.empty : St α := ⟨[], []⟩

/-! ### the caller's side of a history (`hist`): containers owned by the caller

Every container a method hands out (`take(n)`, `peek(n)`, `list(stream)`) and every list the
caller builds himself is an object of the caller: he may change it in place afterwards
(`Mut`) and may pass it to `Stream(...)`, `append(...)`, `thub(..., n)`.  The model keeps these
objects in a second heap `lists` (index = order of creation).  Passing a list passes its
contents *at the time of the call* (`*Ref` operations are the plain operation on a literal):
what the caller does to a container afterwards never reaches a stream, and no operation of a
stream ever writes into a container of the caller (`hstep` only appends new ones).  In the real
code a list argument is read lazily through a list iterator; histories that mutate a list
while an iterator over it is still alive are outside the list model (see ASSUMPTIONS of the
harness) and are not generated. -/

/-- what the caller does, in place, to a list he owns -/
inductive Mut (α : Type) where
  | clear                      -- `del p[:]`
  | reverse                    -- `p.reverse()`
  | pop0                       -- `del p[:1]`
  | popLast                    -- `del p[-1:]`
  | extend (xs : List α)       -- `p.extend(xs)`
  | fill (v : α)               -- `p[:] = [v] * len(p)`

def Mut.apply : Mut α → List α → List α
  | .clear, _ => []
  | .reverse, xs => xs.reverse
  | .pop0, xs => xs.drop 1
  | .popLast, xs => xs.dropLast
  | .extend ys, xs => xs ++ ys
  | .fill v, xs => xs.map fun _ => v

inductive HOp (α : Type) where
  /-- a method call; a returned container becomes a new list of the caller -/
  | op (o : Op α)
  /-- the caller builds a list -/
  | lit (xs : List α)
  /-- the caller changes list `j` in place -/
  | edit (j : Nat) (m : Mut α)
  /-- `Stream(L_j)` -/
  | newRef (j : Nat)
  /-- `x.append(L_j)` -/
  | appendRef (i j : Nat)
  /-- `thub(L_j, n)` -/
  | thubRef (j n : Nat)

structure HSt (α : Type) where
  st : St α
  lists : List (List α)

/-- the container of an observation (if any) joins the caller's lists -/
def keep (ls : List (List α)) : Obs α → List (List α)
  | .items vs => ls ++ [vs]
  | _ => ls

/-- a method call inside a `hist` history -/
def stepKeep (f : Nat) (s : HSt α) (o : Op α) : Option (HSt α × Obs α) :=
  match step f s.st o with
  | none => none
  | some (st', ob) => some (⟨st', keep s.lists ob⟩, ob)

def hstep (f : Nat) (s : HSt α) : HOp α → Option (HSt α × Obs α)
  | .op o => stepKeep f s o
  | .lit xs => some (⟨s.st, s.lists ++ [xs]⟩, .new s.lists.length)
  | .edit j m =>
    match s.lists[j]? with
    | none => some (s, .err "nolist")
    | some xs => some (⟨s.st, s.lists.set j (m.apply xs)⟩, .unit)
  | .newRef j =>
    match s.lists[j]? with
    | none => some (s, .err "nolist")
    | some xs => stepKeep f s (.new (.list xs))
  | .appendRef i j =>
    match s.lists[j]? with
    | none => some (s, .err "nolist")
    | some xs => stepKeep f s (.append i (.list xs))
  | .thubRef j n =>
    match s.lists[j]? with
    | none => some (s, .err "nolist")
    | some xs => stepKeep f s (.thub (.list xs) n)

/-- observations of every step and the caller's lists at the end -/
def hrun (f : Nat) : HSt α → List (HOp α) → List (Option (Obs α)) × List (List α)
  | s, [] => ([], s.lists)
  | s, hop :: hops =>
    match hstep f s hop with
    | none => ([none], s.lists)
    | some (s', o) => let r := hrun f s' hops; (some o :: r.1, r.2)

def HSt.empty : HSt α := ⟨St.empty, []⟩

end ALV.C03
