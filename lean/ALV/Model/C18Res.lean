/-
  C18 — the file life-cycle of `WavStream` as a small state machine (resource clause of the
  property: "the file is closed once the stream is exhausted").  Mathlib-free; executable.

  Python (lazy_wav.py / Lib/wave.py)                       | here
  ---------------------------------------------------------+--------------------------------------
  wave.open(f, "rb") → Wave_read.__init__                   | `construct`
      isinstance(f, str): f = builtins.open(f, "rb");       |   `Source.name`: a NEW handle, owner `stream`,
        self._i_opened_the_file = f                         |   `wr.iOpened = some i`
      anything else is taken for a file object              |   `Source.fileObj` / `.memory`: no handle opened;
                                                            |   `Source.refusedName`: AttributeError (bytes, Path)
      initfp raises: `if self._i_opened_the_file: f.close()`|   `headerOk = false`
  Wave_read.close(): _file = None; file = _i_opened…;       | `wrClose`
      if file: _i_opened… = None; file.close()              |
  block_reader: try … finally: w.close()                    | `rNext` (end of data / decoding error),
                                                            | `rCollect` (generator finalised while suspended)
  Wave_read.__del__: self.close()                           | `rCollect`
  file object deallocated while open (ResourceWarning)      | `Handle.abandoned`

  The value side is not repeated here: the machine is driven by the `Gen` the value model computes
  (`(wavStream f keep).gen`): its `out` are the items of the successive `next()` calls, its `err`
  says how the stream ends.  `early` = the error is raised before the reader chain exists
  (`WavStream._unpackers[self.bits]` → KeyError for a sample width outside 8/16/24/32: then no
  `finally` is pending and the file stays open until the stream object is collected).
-/
import ALV.Model.C18
namespace ALV.C18

/-- how the wave file is handed to `WavStream` -/
inductive Source
  | name          -- a file name (`str`): `wave.open` opens the OS file itself and owns it
  | fileObj       -- an OS-level file object opened by the caller (already in the handle table)
  | memory        -- a file-behaved object without OS handle (`io.BytesIO`)
  | refusedName   -- a name of a kind `wave.open` takes for a file object (bytes, path-like today)
  deriving DecidableEq, Repr

inductive Owner | stream | caller
  deriving DecidableEq, Repr

/-- one OS-level file handle (a file object over a descriptor) -/
structure Handle where
  owner : Owner
  isOpen : Bool
  closeCalls : Nat      -- `close()` calls that reached the file object
  abandoned : Bool      -- deallocated while still open (CPython closes it with a ResourceWarning)
  deriving DecidableEq, Repr

def Handle.fresh (o : Owner) : Handle := ⟨o, true, 0, false⟩

/-- `file.close()` -/
def Handle.close (h : Handle) : Handle := { h with isOpen := false, closeCalls := h.closeCalls + 1 }

/-- deallocation of the file object: an open one is closed by the runtime, with a ResourceWarning -/
def Handle.dealloc (h : Handle) : Handle :=
  if h.isOpen then { h with isOpen := false, abandoned := true } else h

def modifyAt {α : Type} (f : α → α) : Nat → List α → List α
  | _, [] => []
  | 0, x :: xs => f x :: xs
  | n + 1, x :: xs => x :: modifyAt f n xs

/-- `wave.Wave_read` as far as resources go -/
structure WaveRead where
  fp : Bool                 -- `_file is not None` (what `getfp()` shows)
  iOpened : Option Nat      -- `_i_opened_the_file`: index of the handle it opened itself
  deriving DecidableEq, Repr

structure RS where
  pos : Nat                 -- `next()` calls that returned an item so far
  started : Bool            -- the generator chain was started (a first `next()` happened)
  dead : Bool               -- the generator chain is finished (StopIteration / raised / closed)
  dropped : Bool            -- the stream object was collected
  wr : WaveRead
  mine : Option Nat         -- the handle this stream opened (never reset), for `dealloc`
  handles : List Handle     -- the handle table of the process
  deriving DecidableEq, Repr

/-- `Wave_read.close()` -/
def wrClose (s : RS) : RS :=
  match s.wr.iOpened with
  | none => { s with wr := ⟨false, none⟩ }
  | some i => { s with wr := ⟨false, none⟩, handles := modifyAt Handle.close i s.handles }

/-- `WavStream.__init__` up to the end of `wave.open`; `pre` = the handles that exist before the
    call (the caller's own file object is one of them).  `.error hs` = the constructor raised and
    `hs` is the handle table it leaves behind. -/
def construct (src : Source) (headerOk : Bool) (pre : List Handle) : Except (List Handle) RS :=
  match src with
  | .name =>
    let i := pre.length
    let hs := pre ++ [Handle.fresh .stream]                 -- builtins.open(f, 'rb')
    if headerOk then
      .ok ⟨0, false, false, false, ⟨true, some i⟩, some i, hs⟩
    else
      -- `except: f.close(); raise`, then the half-built Wave_read is released and its `__del__` →
      -- `close()` finds `_i_opened_the_file` still set: a second `file.close()`, on the closed file
      .error (modifyAt Handle.close i (modifyAt Handle.close i hs))
  | .fileObj | .memory =>
    if headerOk then .ok ⟨0, false, false, false, ⟨true, none⟩, none, pre⟩ else .error pre
  | .refusedName => .error pre                              -- AttributeError, nothing was opened

/-- what one `next()` shows -/
inductive Obs (β ε : Type)
  | item (b : β)
  | stop
  | raised (e : ε)
  deriving DecidableEq, Repr

def Obs.isItem {β ε} : Obs β ε → Bool
  | .item _ => true
  | _ => false

def endObs {β ε} (g : Gen β ε) : Obs β ε :=
  match g.err with
  | none => .stop
  | some e => .raised e

/-- one `next()` on the stream -/
def rNext {β ε} (g : Gen β ε) (early : Bool) (s : RS) : Obs β ε × RS :=
  if s.dead then (.stop, s)                                  -- a finished generator
  else
    match g.out[s.pos]? with
    | some b => (.item b, { s with pos := s.pos + 1, started := true })
    | none =>
      -- end of data: `break` → `finally: w.close()`; decoding error in data_generator: its frame
      -- is unwound, the suspended block_reader loses its last reference → GeneratorExit → finally
      if early ∧ g.err.isSome then (endObs g, { s with started := true, dead := true })
      else (endObs g, wrClose { s with started := true, dead := true })

/-- the last reference to the stream is gone and the (cyclic) garbage is collected -/
def rCollect (s : RS) : RS :=
  if s.dropped then s
  else
    -- generator finalisation: `finally` runs only in a generator that was started and is suspended
    let s1 := if s.started ∧ ¬ s.dead then wrClose { s with dead := true } else { s with dead := true }
    let s2 := wrClose s1                                     -- Wave_read.__del__
    let hs := match s2.mine with
      | none => s2.handles
      | some i => modifyAt Handle.dealloc i s2.handles       -- the file object goes away
    { s2 with dropped := true, handles := hs }

inductive Ev | next | collect
  deriving DecidableEq, Repr

/-- a history of events; a `next` after the collection cannot happen and is skipped -/
def rRun {β ε} (g : Gen β ε) (early : Bool) : List Ev → RS → List (Obs β ε) × RS
  | [], s => ([], s)
  | .next :: evs, s =>
    if s.dropped then rRun g early evs s
    else
      let r := rNext g early s
      let t := rRun g early evs r.2
      (r.1 :: t.1, t.2)
  | .collect :: evs, s => rRun g early evs (rCollect s)

/-- the same history, with the state after every event (what the tie observes) -/
def rTrace {β ε} (g : Gen β ε) (early : Bool) : List Ev → RS → List (Option (Obs β ε) × RS)
  | [], _ => []
  | .next :: evs, s =>
    if s.dropped then (none, s) :: rTrace g early evs s
    else
      let r := rNext g early s
      (some r.1, r.2) :: rTrace g early evs r.2
  | .collect :: evs, s => (none, rCollect s) :: rTrace g early evs (rCollect s)

/-- what `k` successive `next()` calls show on a stream whose complete run is `g` -/
def expectObs {β ε} (g : Gen β ε) (k : Nat) : List (Obs β ε) :=
  (g.out.take k).map Obs.item ++
    (if g.out.length < k then endObs g :: List.replicate (k - g.out.length - 1) Obs.stop else [])

/-- the stream was seen to end: a `next()` returned StopIteration or raised -/
def ended {β ε} (obs : List (Obs β ε)) : Bool := obs.any fun o => !o.isItem

end ALV.C18
